/*
 * C03: hash lookups stay exact while the table is incrementally rehashed.
 *
 * Standalone test, public API only (cstl/hash.h). A plain reference model
 * (arrays of records with a "live" flag) is run next to the library and
 * the two are compared:
 *
 *   1. exhaustive enumeration of every operation sequence up to a fixed
 *      depth over a small alphabet (toggle four elements two of which
 *      share a key, double erase, five resizes, rehash, shrink, lookups)
 *   2. stage sweeps: for many (geometry -> geometry) pairs, a rehash is
 *      started and then driven one operation at a time; after every
 *      single step the whole content is verified without disturbing the
 *      stage (foreach_const) and at selected steps a second resize, a
 *      swap, a forced rehash or a shrink lands
 *   3. long seeded random histories over two tables holding objects of
 *      different types, with swaps, allocation failures (malloc family
 *      wrapped at link time), clears and boundary keys
 *   4. a table of a few thousand elements living on the heap, on the
 *      stack and in static storage, resized between 1 and 4107 buckets
 *   5. chains of resizes with next to nothing in between (same count and
 *      another function, same request twice, there and back, refused and
 *      then granted, followed by shrink-to-fit)
 *   6. sparse and lopsided tables (thousands of empty buckets, everything
 *      in one bucket, nothing at all) swept one operation at a time
 *
 * Exit status 0 means every comparison agreed.
 */

#include "cstl/hash.h"

#include <stdio.h>
#include <stdlib.h>
#include <string.h>
#include <stdint.h>

#ifndef TEST_SEED
#define TEST_SEED 0xC03A5EEDu
#endif

/* ------------------------------------------------------------------ */
/* allocation failure injection (-Wl,--wrap=malloc etc.)               */

void * __real_malloc(size_t);
void * __real_realloc(void *, size_t);
void * __real_calloc(size_t, size_t);

static int fail_armed;
static unsigned long fail_hits;

void * __wrap_malloc(size_t n)
{
    if (fail_armed) {
        fail_hits++;
        return NULL;
    }
    return __real_malloc(n);
}

void * __wrap_realloc(void * p, size_t n)
{
    if (fail_armed) {
        fail_hits++;
        return NULL;
    }
    return __real_realloc(p, n);
}

void * __wrap_calloc(size_t a, size_t b)
{
    if (fail_armed) {
        fail_hits++;
        return NULL;
    }
    return __real_calloc(a, b);
}

/* ------------------------------------------------------------------ */

static unsigned long checks;

#define FAIL(...)                                                       \
    do {                                                                \
        fprintf(stderr, "FAIL %s:%d: ", __FILE__, __LINE__);            \
        fprintf(stderr, __VA_ARGS__);                                   \
        fprintf(stderr, "\n");                                          \
        exit(1);                                                        \
    } while (0)

#define CHECK(COND, ...)                                                \
    do {                                                                \
        checks++;                                                       \
        if (!(COND)) {                                                  \
            FAIL(__VA_ARGS__);                                          \
        }                                                               \
    } while (0)

/* xorshift; deterministic, independent of libc rand() */
static uint32_t rng_state = TEST_SEED;
static uint32_t rnd(void)
{
    uint32_t x = rng_state;
    x ^= x << 13;
    x ^= x >> 17;
    x ^= x << 5;
    return rng_state = x;
}
static uint32_t rndn(const uint32_t n)
{
    return rnd() % n;
}

/* ------------------------------------------------------------------ */
/* hash functions                                                      */

static size_t hf_zero(const size_t k, const size_t m)
{
    (void)k; (void)m;
    return 0;
}
static size_t hf_last(const size_t k, const size_t m)
{
    (void)k;
    return m - 1;
}
static size_t hf_rev(const size_t k, const size_t m)
{
    return (m - 1) - (k % m);
}
static size_t hf_mix(const size_t k, const size_t m)
{
    size_t x = k;
    x ^= x >> 7;
    x *= (size_t)2654435761u;
    x ^= x >> 13;
    return x % m;
}
static size_t hf_par(const size_t k, const size_t m)
{
    /* only ever uses two buckets */
    return (k & 1) ? m - 1 : 0;
}

static cstl_hash_func_t * const hfuncs[] = {
    cstl_hash_div, cstl_hash_mul, hf_zero, hf_last, hf_rev, hf_mix, hf_par,
};
#define NHFUNCS (sizeof(hfuncs) / sizeof(hfuncs[0]))

static const size_t keypool[] = {
    0, 1, 2, 3, 4, 5, 7, 8, 9, 15, 16, 17, 31, 32, 33, 63, 64, 100, 127,
    255, 256, 1000, 4095, 65536,
    (size_t)-1, (size_t)-2, ((size_t)-1) / 2, ((size_t)-1) / 2 + 1,
    ((size_t)1) << (sizeof(size_t) * 4),
};
#define NKEYPOOL (sizeof(keypool) / sizeof(keypool[0]))

/* ------------------------------------------------------------------ */
/* element types: the node sits at different offsets                   */

struct el_a
{
    int id;
    struct cstl_hash_node hn;
    int pad;
};

struct el_b
{
    struct cstl_hash_node hn;
    long id;
    char c;
};

struct el_c
{
    char name[3];
    double d;
    char more[17];
    struct cstl_hash_node hn;
};

enum { T_A, T_B, T_C, NTYPES };

static size_t type_off(const int t)
{
    switch (t) {
    case T_A: return offsetof(struct el_a, hn);
    case T_B: return offsetof(struct el_b, hn);
    default:  return offsetof(struct el_c, hn);
    }
}
static size_t type_size(const int t)
{
    switch (t) {
    case T_A: return sizeof(struct el_a);
    case T_B: return sizeof(struct el_b);
    default:  return sizeof(struct el_c);
    }
}

/* ------------------------------------------------------------------ */
/* the model                                                           */

#define MAXITEMS 40

struct item
{
    void * obj;
    size_t key;
    int live;       /* currently in the table */
    int was;        /* has been in the table at some point */
    int mark;       /* scratch for the checks */
};

struct model
{
    int type;
    int ready;          /* a resize has succeeded */
    size_t buckets;     /* geometry the table is heading for */
    unsigned int nlive;
    unsigned int nitems;
    struct item it[MAXITEMS];
    void * storage;
};

static void model_init(struct model * const m, const int type,
                       const unsigned int nitems)
{
    unsigned int i;
    memset(m, 0, sizeof(*m));
    m->type = type;
    m->nitems = nitems;
    m->storage = __real_calloc(nitems, type_size(type));
    if (m->storage == NULL) {
        FAIL("out of memory");
    }
    for (i = 0; i < nitems; i++) {
        m->it[i].obj = (char *)m->storage + i * type_size(type);
    }
}

static void model_reset(struct model * const m)
{
    unsigned int i;
    for (i = 0; i < m->nitems; i++) {
        m->it[i].live = 0;
        m->it[i].was = 0;
    }
    m->nlive = 0;
    m->ready = 0;
    m->buckets = 0;
}

static void model_free(struct model * const m)
{
    free(m->storage);
    m->storage = NULL;
}

static struct item * model_item(struct model * const m, const void * const o)
{
    unsigned int i;
    for (i = 0; i < m->nitems; i++) {
        if (m->it[i].obj == o) {
            return &m->it[i];
        }
    }
    return NULL;
}

/* ------------------------------------------------------------------ */
/* visit functions                                                     */

static int visit_is(const void * const e, void * const p)
{
    return e == p;
}

/*
 * rejects everything; records what it was offered. duplicates are
 * detected with ANOTHER hash object, which the callback inserts into
 * and searches (and which is itself resized as it fills)
 */
struct seen_rec
{
    struct cstl_hash_node hn;
    const void * obj;
};

struct collect
{
    struct model * m;
    size_t key;
    unsigned int offered;
    struct cstl_hash seen;
    struct seen_rec recs[MAXITEMS];
    unsigned int nrecs;
    const void * accept_nth_obj;
    unsigned int accept_nth;    /* accept the nth offer (1-based), 0: none */
};

static int seen_is(const void * const e, void * const p)
{
    return ((const struct seen_rec *)e)->obj == p;
}

static int visit_collect(const void * const e, void * const p)
{
    struct collect * const c = p;
    struct item * const it = model_item(c->m, e);
    const size_t sk = (size_t)(uintptr_t)e >> 3;

    CHECK(it != NULL, "find offered an object that is not ours");
    CHECK(it->live, "find offered an erased object");
    CHECK(it->key == c->key, "find offered an object with another key");
    CHECK(cstl_hash_find(&c->seen, sk, seen_is, (void *)e) == NULL,
          "find offered the same object twice");
    CHECK(c->nrecs < MAXITEMS, "too many offers");

    c->recs[c->nrecs].obj = e;
    cstl_hash_insert(&c->seen, sk, &c->recs[c->nrecs]);
    c->nrecs++;
    if (c->nrecs == 3) {
        /* grow the scratch table in the middle of the outer find */
        cstl_hash_resize(&c->seen, 11, hf_mix);
    }

    c->offered++;
    if (c->accept_nth != 0 && c->offered == c->accept_nth) {
        c->accept_nth_obj = e;
        return 1;
    }
    return 0;
}

static void collect_begin(struct collect * const c, struct model * const m,
                          const size_t key, const unsigned int nth)
{
    c->m = m;
    c->key = key;
    c->offered = 0;
    c->nrecs = 0;
    c->accept_nth = nth;
    c->accept_nth_obj = NULL;
    cstl_hash_init(&c->seen, offsetof(struct seen_rec, hn));
    cstl_hash_resize(&c->seen, 3, cstl_hash_div);
}

static void collect_end(struct collect * const c)
{
    CHECK(cstl_hash_size(&c->seen) == c->nrecs, "scratch table size");
    cstl_hash_clear(&c->seen, NULL);
}

static unsigned int model_count_key(const struct model * const m,
                                    const size_t key)
{
    unsigned int i, n = 0;
    for (i = 0; i < m->nitems; i++) {
        if (m->it[i].live && m->it[i].key == key) {
            n++;
        }
    }
    return n;
}

/* ------------------------------------------------------------------ */
/* checks                                                              */

static void check_size(struct cstl_hash * const h, struct model * const m)
{
    CHECK(cstl_hash_size(h) == m->nlive,
          "size %lu, expected %u", (unsigned long)cstl_hash_size(h), m->nlive);
    if (m->ready) {
        const float want = (float)(size_t)m->nlive / m->buckets;
        const float got = cstl_hash_load(h);
        CHECK(got >= want - 1e-6f * (want + 1) && got <= want + 1e-6f * (want + 1),
              "load %f, expected %f", got, want);
    }
}

struct walk
{
    struct model * m;
    unsigned int n;
};

static int visit_walk(const void * const e, void * const p)
{
    struct walk * const w = p;
    struct item * const it = model_item(w->m, e);
    CHECK(it != NULL, "foreach visited an object that is not ours");
    CHECK(it->live, "foreach visited an erased object");
    CHECK(!it->mark, "foreach visited an object twice");
    it->mark = 1;
    w->n++;
    return 0;
}

static int visit_walk_nc(void * const e, void * const p)
{
    return visit_walk(e, p);
}

/* does not change the state of the table at all */
static void check_passive(struct cstl_hash * const h, struct model * const m)
{
    struct walk w;
    unsigned int i;

    check_size(h, m);
    if (!m->ready) {
        return;
    }

    for (i = 0; i < m->nitems; i++) {
        m->it[i].mark = 0;
    }
    w.m = m;
    w.n = 0;
    CHECK(cstl_hash_foreach_const(h, visit_walk, &w) == 0, "foreach result");
    CHECK(w.n == m->nlive, "foreach_const saw %u, expected %u", w.n, m->nlive);
}

/* one exact lookup of one item */
static void check_item(struct cstl_hash * const h, struct model * const m,
                       const unsigned int i)
{
    struct item * const it = &m->it[i];
    void * const r = cstl_hash_find(h, it->key, visit_is, it->obj);
    if (it->live) {
        CHECK(r == it->obj, "live item %u (key %lu) not found",
              i, (unsigned long)it->key);
    } else {
        CHECK(r == NULL, "erased item %u (key %lu) found",
              i, (unsigned long)it->key);
    }
}

/* lookups by key: NULL visit, reject-all visit, accept-nth visit */
static void check_key(struct cstl_hash * const h, struct model * const m,
                      const size_t key)
{
    const unsigned int want = model_count_key(m, key);
    struct collect c;
    void * r;

    r = cstl_hash_find(h, key, NULL, NULL);
    if (want == 0) {
        CHECK(r == NULL, "key %lu found but nothing has it",
              (unsigned long)key);
    } else {
        struct item * const it = r ? model_item(m, r) : NULL;
        CHECK(it != NULL && it->live && it->key == key,
              "key %lu: find without visit returned a wrong object",
              (unsigned long)key);
    }

    collect_begin(&c, m, key, 0);
    r = cstl_hash_find(h, key, visit_collect, &c);
    CHECK(r == NULL, "find returned an object nobody accepted");
    CHECK(c.offered == want, "key %lu: %u offered, %u live",
          (unsigned long)key, c.offered, want);
    collect_end(&c);

    if (want > 0) {
        const unsigned int nth = 1 + rndn(want);
        collect_begin(&c, m, key, nth);
        r = cstl_hash_find(h, key, visit_collect, &c);
        CHECK(r != NULL && r == c.accept_nth_obj,
              "find did not return the accepted object");
        CHECK(c.offered == nth, "find went on after an object was accepted");
        collect_end(&c);
    }
}

/* everything; advances a pending rehash as a side effect */
static void check_full(struct cstl_hash * const h, struct model * const m)
{
    unsigned int i;

    check_passive(h, m);
    if (!m->ready) {
        return;
    }
    for (i = 0; i < m->nitems; i++) {
        check_item(h, m, i);
    }
    for (i = 0; i < m->nitems; i++) {
        if (m->it[i].was) {
            check_key(h, m, m->it[i].key);
        }
    }
    /* a few keys that may well be absent */
    for (i = 0; i < 4; i++) {
        check_key(h, m, keypool[rndn(NKEYPOOL)]);
    }
    check_passive(h, m);
}

/* ------------------------------------------------------------------ */
/* operations, applied to library and model alike                      */

static void op_insert(struct cstl_hash * const h, struct model * const m,
                      const unsigned int i, const size_t key)
{
    struct item * const it = &m->it[i];
    if (!m->ready || it->live) {
        return;
    }
    cstl_hash_insert(h, key, it->obj);
    it->key = key;
    it->live = 1;
    it->was = 1;
    m->nlive++;
}

static void op_erase(struct cstl_hash * const h, struct model * const m,
                     const unsigned int i)
{
    struct item * const it = &m->it[i];
    if (!m->ready || !it->was) {
        /* never inserted: its node holds no key at all */
        return;
    }
    /* if it is not live, this must be a no-op */
    cstl_hash_erase(h, it->obj);
    if (it->live) {
        it->live = 0;
        m->nlive--;
    }
}

static void op_resize(struct cstl_hash * const h, struct model * const m,
                      const size_t n, cstl_hash_func_t * const f,
                      const int fail)
{
    const unsigned long hits = fail_hits;

    fail_armed = fail;
    cstl_hash_resize(h, n, f);
    fail_armed = 0;

    if (n == 0) {
        return;
    }
    if (fail_hits != hits) {
        /* allocation was refused: the table must be undisturbed */
        return;
    }
    m->ready = 1;
    m->buckets = n;
}

static void op_rehash(struct cstl_hash * const h, struct model * const m)
{
    (void)m;
    cstl_hash_rehash(h);
}

static void op_shrink(struct cstl_hash * const h, struct model * const m)
{
    (void)m;
    cstl_hash_shrink_to_fit(h);
}

static void op_foreach(struct cstl_hash * const h, struct model * const m)
{
    struct walk w;
    unsigned int i;
    if (!m->ready) {
        return;
    }
    for (i = 0; i < m->nitems; i++) {
        m->it[i].mark = 0;
    }
    w.m = m;
    w.n = 0;
    CHECK(cstl_hash_foreach(h, visit_walk_nc, &w) == 0, "foreach result");
    CHECK(w.n == m->nlive, "foreach saw %u, expected %u", w.n, m->nlive);
}

struct clr
{
    struct model * m;
    unsigned int n;
};
static struct clr * the_clr;

static void clr_fn(void * const e, void * const p)
{
    struct item * const it = model_item(the_clr->m, e);
    (void)p;
    CHECK(it != NULL && it->live, "clear handed out a wrong object");
    CHECK(!it->mark, "clear handed out an object twice");
    it->mark = 1;
    the_clr->n++;
}

static void op_clear(struct cstl_hash * const h, struct model * const m)
{
    struct clr c;
    unsigned int i;
    for (i = 0; i < m->nitems; i++) {
        m->it[i].mark = 0;
    }
    c.m = m;
    c.n = 0;
    the_clr = &c;
    cstl_hash_clear(h, clr_fn);
    CHECK(c.n == m->nlive, "clear handed out %u, expected %u", c.n, m->nlive);
    CHECK(cstl_hash_size(h) == 0, "size after clear");
    model_reset(m);
}

/* ------------------------------------------------------------------ */
/* part 1: exhaustive small scope                                      */

#ifndef EX_DEPTH
#define EX_DEPTH 6
#endif

enum {
    X_TOG0, X_TOG1, X_TOG2, X_TOG3,
    X_ERASE_DEAD,
    X_RS1, X_RS3, X_RS8, X_RS5, X_RS2Z,
    X_REHASH, X_SHRINK,
    X_FIND1, X_FIND5,
    X_NOPS
};

static const size_t xkeys[4] = { 1, 1, 2, 5 };

static void ex_apply(struct cstl_hash * const h, struct model * const m,
                     const int op)
{
    unsigned int i;
    switch (op) {
    case X_TOG0: case X_TOG1: case X_TOG2: case X_TOG3:
        i = op - X_TOG0;
        if (m->it[i].live) {
            op_erase(h, m, i);
        } else {
            op_insert(h, m, i, xkeys[i]);
        }
        break;
    case X_ERASE_DEAD:
        for (i = 0; i < 4; i++) {
            if (!m->it[i].live) {
                op_erase(h, m, i);
            }
        }
        break;
    case X_RS1: op_resize(h, m, 1, cstl_hash_div, 0); break;
    case X_RS3: op_resize(h, m, 3, cstl_hash_div, 0); break;
    case X_RS8: op_resize(h, m, 8, hf_rev, 0); break;
    case X_RS5: op_resize(h, m, 5, NULL, 0); break;
    case X_RS2Z: op_resize(h, m, 2, hf_last, 0); break;
    case X_REHASH: op_rehash(h, m); break;
    case X_SHRINK: op_shrink(h, m); break;
    case X_FIND1:
        {
            void * const r = cstl_hash_find(h, 1, NULL, NULL);
            const unsigned int want = model_count_key(m, 1);
            CHECK((r != NULL) == (want != 0), "lookup of key 1");
            CHECK(r == NULL || r == m->it[0].obj || r == m->it[1].obj,
                  "lookup of key 1 returned a stranger");
        }
        break;
    case X_FIND5:
        {
            void * const r = cstl_hash_find(h, 5, visit_is, m->it[3].obj);
            CHECK(r == (m->it[3].live ? m->it[3].obj : NULL),
                  "lookup of key 5");
        }
        break;
    }
}

static unsigned long ex_sequences;

static void ex_run(const int * const seq, const int len)
{
    static struct model m;
    static int m_inited;
    DECLARE_CSTL_HASH(h, struct el_a, hn);
    int i;

    if (!m_inited) {
        model_init(&m, T_A, 4);
        m_inited = 1;
    }
    model_reset(&m);

    /* every sequence starts from a two-bucket table */
    op_resize(&h, &m, 2, cstl_hash_div, 0);
    for (i = 0; i < len; i++) {
        ex_apply(&h, &m, seq[i]);
        check_size(&h, &m);
    }
    check_passive(&h, &m);
    for (i = 0; i < 4; i++) {
        check_item(&h, &m, i);
    }
    check_key(&h, &m, 1);
    check_key(&h, &m, 2);
    check_key(&h, &m, 5);
    check_key(&h, &m, 3);
    check_passive(&h, &m);

    cstl_hash_clear(&h, NULL);
    ex_sequences++;
}

static void ex_rec(int * const seq, const int len, const int depth)
{
    int op;
    ex_run(seq, len);
    if (len == depth) {
        return;
    }
    for (op = 0; op < X_NOPS; op++) {
        /* the first few operations are always needed to get anywhere */
        seq[len] = op;
        ex_rec(seq, len + 1, depth);
    }
}

static void part_exhaustive(void)
{
    int seq[16];
    ex_rec(seq, 0, EX_DEPTH);
}

/* ------------------------------------------------------------------ */
/* part 2: stage sweeps                                                */

struct geom
{
    size_t n;
    cstl_hash_func_t * f;
};

static void fill(struct cstl_hash * const h, struct model * const m,
                 const unsigned int cnt, const int dupes)
{
    unsigned int i;
    for (i = 0; i < cnt && i < m->nitems; i++) {
        size_t k;
        if (dupes == 2) {
            k = 42;
        } else if (dupes) {
            k = keypool[rndn(8)];
        } else {
            k = keypool[i % NKEYPOOL] + (i / NKEYPOOL) * 3;
        }
        op_insert(h, m, i, k);
    }
}

/* what lands at the chosen step of the sweep */
enum {
    E_NONE, E_RESIZE_AGAIN, E_RESIZE_BACK, E_RESIZE_SAME, E_REHASH, E_SHRINK,
    E_SWAP, E_FOREACH, E_RESIZE_FAIL, E_NEVENTS
};

/* what drives the sweep, one operation at a time */
enum { D_FIND_HIT, D_FIND_MISS, D_INSERT_ERASE, D_ERASE_INSERT, D_MIXED,
       D_NDRIVERS };

static void sweep_one(const int type, const struct geom g0,
                      const struct geom g1, const struct geom g2,
                      const unsigned int cnt, const int dupes,
                      const int driver, const int event,
                      const unsigned int event_step)
{
    struct cstl_hash tab[2];
    struct model mod[2];
    struct cstl_hash * h = &tab[0];
    struct model * m = &mod[0], * mo = &mod[1];
    unsigned int step;
    const unsigned int steps = (unsigned int)(g0.n > g1.n ? g0.n : g1.n) + 6;

    model_init(&mod[0], type, MAXITEMS);
    model_init(&mod[1], (type + 1) % NTYPES, 12);
    cstl_hash_init(&tab[0], type_off(type));
    cstl_hash_init(&tab[1], type_off((type + 1) % NTYPES));

    op_resize(h, m, g0.n, g0.f, 0);
    fill(h, m, cnt, dupes);
    check_passive(h, m);

    /* the other table is mid-rehash, too */
    op_resize(&tab[1], mo, 4, hf_mix, 0);
    fill(&tab[1], mo, 9, 1);
    op_resize(&tab[1], mo, 7, cstl_hash_div, 0);

    /* here the incremental rehash begins */
    op_resize(h, m, g1.n, g1.f, 0);
    check_passive(h, m);

    for (step = 0; step < steps; step++) {
        unsigned int i;

        if (step == event_step) {
            switch (event) {
            case E_RESIZE_AGAIN: op_resize(h, m, g2.n, g2.f, 0); break;
            case E_RESIZE_BACK: op_resize(h, m, g0.n, g0.f, 0); break;
            case E_RESIZE_SAME: op_resize(h, m, g1.n, g1.f, 0); break;
            case E_RESIZE_FAIL:
                op_resize(h, m, g1.n + g0.n + 100, g2.f, 1);
                break;
            case E_REHASH: op_rehash(h, m); break;
            case E_SHRINK: op_shrink(h, m); break;
            case E_FOREACH: op_foreach(h, m); break;
            case E_SWAP:
                cstl_hash_swap(&tab[0], &tab[1]);
                /* the contents have changed places */
                h = &tab[1];
                check_passive(&tab[0], mo);
                check_full(&tab[0], mo);
                break;
            default: break;
            }
            check_passive(h, m);
        }

        switch (driver == D_MIXED ? (int)rndn(D_MIXED) : driver) {
        case D_FIND_HIT:
            i = rndn(m->nitems);
            check_item(h, m, i);
            break;
        case D_FIND_MISS:
            {
                const size_t k = 7777 + step;
                CHECK(cstl_hash_find(h, k, NULL, NULL) == NULL,
                      "found a key nobody has");
            }
            break;
        case D_INSERT_ERASE:
            /* the last item is kept free for this */
            i = m->nitems - 1;
            op_insert(h, m, i, keypool[(step * 5) % NKEYPOOL]);
            check_passive(h, m);
            op_erase(h, m, i);
            break;
        case D_ERASE_INSERT:
            i = step % (cnt ? cnt : 1);
            if (m->it[i].live) {
                const size_t k = m->it[i].key;
                op_erase(h, m, i);
                check_passive(h, m);
                /* erasing it again changes nothing */
                op_erase(h, m, i);
                check_passive(h, m);
                op_insert(h, m, i, (step & 1) ? k : k + 1);
            }
            break;
        }
        check_passive(h, m);
    }

    check_full(h, m);
    check_full(h == &tab[0] ? &tab[1] : &tab[0], mo);
    op_rehash(h, m);
    check_full(h, m);
    op_shrink(h, m);
    check_full(h, m);

    op_clear(&tab[0], h == &tab[0] ? m : mo);
    op_clear(&tab[1], h == &tab[0] ? mo : m);
    model_free(&mod[0]);
    model_free(&mod[1]);
}

static void part_sweeps(void)
{
    static const size_t sizes[] = { 1, 2, 3, 8, 17, 64 };
    const unsigned int nsizes = sizeof(sizes) / sizeof(sizes[0]);
    unsigned int a, b, round = 0;

    for (a = 0; a < nsizes; a++) {
        for (b = 0; b < nsizes; b++) {
            unsigned int fa, fb;
            for (fa = 0; fa < NHFUNCS; fa++) {
                for (fb = 0; fb < NHFUNCS; fb++) {
                    struct geom g0, g1, g2;
                    unsigned int cnt;
                    int ev;

                    if (a == b && fa == fb) {
                        continue;
                    }
                    g0.n = sizes[a]; g0.f = hfuncs[fa];
                    g1.n = sizes[b]; g1.f = (round % 5 == 0) ? NULL : hfuncs[fb];
                    if (g1.f == NULL && a == b) {
                        g1.f = hfuncs[fb];
                    }
                    g2.n = sizes[rndn(nsizes)];
                    g2.f = hfuncs[rndn(NHFUNCS)];

                    switch (round % 4) {
                    case 0: cnt = 0; break;
                    case 1: cnt = 1 + rndn(3); break;
                    case 2: cnt = MAXITEMS - 1; break;
                    default: cnt = rndn(MAXITEMS - 1); break;
                    }

                    ev = round % E_NEVENTS;
                    sweep_one(round % NTYPES, g0, g1, g2, cnt,
                              (round / 3) % 3, round % D_NDRIVERS, ev,
                              rndn((unsigned int)sizes[b] + 3));
                    round++;
                }
            }
        }
    }

    /* every event at every step, one fixed pair of geometries */
    {
        struct geom g0, g1, g2;
        int ev, drv;
        unsigned int st;
        g0.n = 5; g0.f = cstl_hash_div;
        g1.n = 9; g1.f = hf_rev;
        g2.n = 4; g2.f = hf_mix;
        for (ev = 0; ev < E_NEVENTS; ev++) {
            for (drv = 0; drv < D_NDRIVERS; drv++) {
                for (st = 0; st < 12; st++) {
                    sweep_one((ev + drv) % NTYPES, g0, g1, g2, 20,
                              st % 3, drv, ev, st);
                    sweep_one((ev + drv) % NTYPES, g1, g0, g2, 20,
                              st % 3, drv, ev, st);
                }
            }
        }
    }
}

/* ------------------------------------------------------------------ */
/* part 3: random histories                                            */

static void random_history(const unsigned int nops, const unsigned int maxb)
{
    struct cstl_hash tab[2];
    struct model mod[2];
    /* which model describes which table; swapped by swap */
    struct model * mp[2];
    unsigned int n;
    /* one table is initialised statically, the other at run time */
    static const struct cstl_hash proto =
        CSTL_HASH_INITIALIZER(struct el_c, hn);

    model_init(&mod[0], T_C, MAXITEMS);
    model_init(&mod[1], T_B, MAXITEMS / 2);
    mp[0] = &mod[0];
    mp[1] = &mod[1];
    tab[0] = proto;
    cstl_hash_init(&tab[1], type_off(T_B));

    for (n = 0; n < nops; n++) {
        const unsigned int t = rndn(2);
        struct cstl_hash * const h = &tab[t];
        struct model * const m = mp[t];
        const unsigned int r = rndn(100);

        if (!m->ready) {
            /* perhaps refused, perhaps not */
            op_resize(h, m, 1 + rndn(maxb), hfuncs[rndn(NHFUNCS)],
                      rndn(4) == 0);
        } else if (r < 30) {
            const unsigned int i = rndn(m->nitems);
            const size_t k = rndn(3)
                ? keypool[rndn(NKEYPOOL)] : (size_t)rndn(6);
            op_insert(h, m, i, k);
        } else if (r < 50) {
            op_erase(h, m, rndn(m->nitems));
        } else if (r < 64) {
            check_item(h, m, rndn(m->nitems));
        } else if (r < 70) {
            check_key(h, m, rndn(2) ? keypool[rndn(NKEYPOOL)]
                      : (size_t)rndn(6));
        } else if (r < 80) {
            cstl_hash_func_t * f = hfuncs[rndn(NHFUNCS)];
            size_t nb = 1 + rndn(maxb);
            if (rndn(4) == 0) {
                f = NULL;
            }
            if (rndn(8) == 0) {
                nb = 0;
            }
            if (rndn(8) == 0) {
                nb = m->buckets;
            }
            op_resize(h, m, nb, f, rndn(5) == 0);
        } else if (r < 84) {
            op_rehash(h, m);
        } else if (r < 88) {
            op_shrink(h, m);
        } else if (r < 92) {
            cstl_hash_swap(&tab[0], &tab[1]);
            {
                struct model * const x = mp[0];
                mp[0] = mp[1];
                mp[1] = x;
            }
            check_passive(&tab[0], mp[0]);
            check_passive(&tab[1], mp[1]);
        } else if (r < 94) {
            op_foreach(h, m);
        } else if (r < 99) {
            check_full(h, m);
        } else if (rndn(6) == 0) {
            op_clear(h, m);
        }

        /* mp[t], not m: a swap may just have exchanged the contents */
        check_size(h, mp[t]);
        if (rndn(3) == 0) {
            check_passive(h, mp[t]);
        }
    }

    check_full(&tab[0], mp[0]);
    check_full(&tab[1], mp[1]);
    op_clear(&tab[0], mp[0]);
    op_clear(&tab[1], mp[1]);
    model_free(&mod[0]);
    model_free(&mod[1]);
}

static void part_random(void)
{
    unsigned int i;
    for (i = 0; i < 60; i++) {
        random_history(4000, 1 + (i % 6) * (i % 6) * 5);
    }
    for (i = 0; i < 4; i++) {
        random_history(60000, 3 + i * 40);
    }
}

/* ------------------------------------------------------------------ */
/* part 4: a larger table, elements on the heap, on the stack, static  */

static struct el_a static_els[64];

static void part_large(void)
{
    enum { N = 3000 };
    struct el_a stack_els[64];
    struct el_a * heap_els = __real_malloc(sizeof(*heap_els) * N);
    unsigned char * live = __real_calloc(N + 128, 1);
    DECLARE_CSTL_HASH(h, struct el_a, hn);
    unsigned int i, round, nlive = 0;

    if (heap_els == NULL || live == NULL) {
        FAIL("out of memory");
    }

#define EL(I) ((I) < N ? &heap_els[I]                                   \
               : (I) < N + 64 ? &stack_els[(I) - N] : &static_els[(I) - N - 64])

    for (i = 0; i < N + 128; i++) {
        EL(i)->id = i;
    }

    cstl_hash_resize(&h, 7, NULL);
    for (round = 0; round < 40; round++) {
        static const size_t szs[] = { 7, 1500, 13, 4096, 64, 1, 800, 801 };
        const size_t nb = szs[round % 8];
        unsigned int ops;

        cstl_hash_resize(&h, nb, (round % 3) ? hfuncs[round % NHFUNCS] : NULL);
        if (round % 7 == 3) {
            /* a second resize while the first is barely under way */
            cstl_hash_find(&h, 3, NULL, NULL);
            cstl_hash_resize(&h, nb + 11, hf_mix);
        }

        for (ops = 0; ops < 1500; ops++) {
            const unsigned int j = rndn(N + 128);
            /* keys are ids folded so that there are duplicates */
            const size_t k = (size_t)(j % 1777) * 2654435761u;
            struct el_a * const e = EL(j);
            void * r;

            switch (rndn(3)) {
            case 0:
                if (!live[j]) {
                    cstl_hash_insert(&h, k, e);
                    live[j] = 1;
                    nlive++;
                }
                break;
            case 1:
                if (live[j]) {
                    cstl_hash_erase(&h, e);
                    live[j] = 0;
                    nlive--;
                }
                break;
            default:
                break;
            }
            r = cstl_hash_find(&h, k, visit_is, e);
            CHECK(r == (live[j] ? (void *)e : NULL), "large: exact lookup");
            CHECK(cstl_hash_size(&h) == nlive, "large: size");
        }

        if (round % 5 == 4) {
            cstl_hash_shrink_to_fit(&h);
        }
        if (round % 4 == 1) {
            for (i = 0; i < N + 128; i++) {
                const size_t k = (size_t)(i % 1777) * 2654435761u;
                void * const r = cstl_hash_find(&h, k, visit_is, EL(i));
                CHECK(r == (live[i] ? (void *)EL(i) : NULL),
                      "large: exact lookup of everything");
            }
        }
    }
#undef EL

    cstl_hash_clear(&h, NULL);
    free(heap_els);
    free(live);
}

/* ------------------------------------------------------------------ */
/* part 5: chains of resizes with nothing, or very little, in between  */

static void part_geometry(void)
{
    unsigned int round;

    for (round = 0; round < 400; round++) {
        struct cstl_hash h;
        struct model m;
        unsigned int n, len = 2 + rndn(12);
        const int type = round % NTYPES;

        model_init(&m, type, MAXITEMS);
        cstl_hash_init(&h, type_off(type));

        /* NULL function on a fresh table selects the default one */
        op_resize(&h, &m, 1 + rndn(9), (round & 1) ? NULL : hf_rev, 0);
        fill(&h, &m, rndn(MAXITEMS), round % 3);
        check_passive(&h, &m);

        for (n = 0; n < len; n++) {
            const size_t before = m.buckets;
            cstl_hash_func_t * const f = hfuncs[rndn(NHFUNCS)];
            unsigned int k;

            switch (rndn(8)) {
            case 0: /* same count, another function */
                op_resize(&h, &m, before, f, 0);
                break;
            case 1: /* another count, same function */
                op_resize(&h, &m, before + 1 + rndn(5), NULL, 0);
                break;
            case 2: /* exactly the same request twice */
                {
                    const size_t nb = 1 + rndn(20);
                    op_resize(&h, &m, nb, f, 0);
                    check_passive(&h, &m);
                    op_resize(&h, &m, nb, f, 0);
                    check_passive(&h, &m);
                    op_resize(&h, &m, nb, NULL, 0);
                }
                break;
            case 3: /* there and back again at once */
                op_resize(&h, &m, before + 7, f, 0);
                op_resize(&h, &m, before, NULL, 0);
                break;
            case 4: /* nothing */
                op_resize(&h, &m, 0, f, 0);
                break;
            case 5: /* refused, then granted */
                op_resize(&h, &m, before + 300, f, 1);
                check_passive(&h, &m);
                op_resize(&h, &m, before + 300, f, 0);
                check_passive(&h, &m);
                op_resize(&h, &m, 1 + rndn(4), NULL, 0);
                if (rndn(2)) {
                    op_shrink(&h, &m);
                }
                break;
            case 6:
                op_resize(&h, &m, 1 + rndn(64), f, 0);
                op_shrink(&h, &m);
                break;
            default:
                op_resize(&h, &m, 1 + rndn(64), f, 0);
                break;
            }
            check_passive(&h, &m);

            /* zero to three single operations before the next resize */
            for (k = rndn(4); k > 0; k--) {
                const unsigned int i = rndn(m.nitems);
                switch (rndn(3)) {
                case 0: check_item(&h, &m, i); break;
                case 1: op_erase(&h, &m, i); break;
                default:
                    op_insert(&h, &m, i, keypool[rndn(NKEYPOOL)]);
                    break;
                }
                check_passive(&h, &m);
            }
        }

        check_full(&h, &m);
        op_clear(&h, &m);

        /* the cleared object is as good as new */
        op_resize(&h, &m, 3, NULL, 0);
        fill(&h, &m, 5, 1);
        check_full(&h, &m);
        op_clear(&h, &m);
        model_free(&m);
    }
}

/* ------------------------------------------------------------------ */
/* part 6: sparse and lopsided tables: most buckets empty, or all of   */
/* the elements in one bucket, or nothing in the table at all          */

static void part_sparse(void)
{
    static const size_t big[] = { 50, 257, 1024, 5000 };
    unsigned int b, f, cnt;

    for (b = 0; b < sizeof(big) / sizeof(big[0]); b++) {
        for (f = 0; f < NHFUNCS; f++) {
            for (cnt = 0; cnt <= 12; cnt += (cnt < 3 ? 1 : 9)) {
                DECLARE_CSTL_HASH(h, struct el_b, hn);
                struct model m;
                unsigned int step, i;

                model_init(&m, T_B, 16);
                op_resize(&h, &m, big[b], hfuncs[f], 0);
                /* empty and resized over and over */
                op_resize(&h, &m, big[b] / 2 + 1, hfuncs[(f + 1) % NHFUNCS], 0);
                check_passive(&h, &m);
                op_resize(&h, &m, big[b], NULL, 0);
                check_passive(&h, &m);
                fill(&h, &m, cnt, f % 3);
                check_passive(&h, &m);

                op_resize(&h, &m, big[b] + 13, hfuncs[(f + 2) % NHFUNCS], 0);
                for (step = 0; step < big[b] + 20; step++) {
                    i = step % m.nitems;
                    switch (step % 5) {
                    case 0:
                        op_insert(&h, &m, i, keypool[step % NKEYPOOL]);
                        break;
                    case 1:
                        op_erase(&h, &m, (i * 7) % m.nitems);
                        break;
                    default:
                        check_item(&h, &m, (i * 3) % m.nitems);
                        break;
                    }
                    if (step < 40 || step % 97 == 0) {
                        check_passive(&h, &m);
                    }
                    if (step == big[b] / 2) {
                        /* shrinking, while the growth is under way */
                        op_resize(&h, &m, 5, hfuncs[(f + 3) % NHFUNCS], 0);
                        check_passive(&h, &m);
                    }
                }
                check_full(&h, &m);
                op_shrink(&h, &m);
                check_full(&h, &m);
                op_clear(&h, &m);
                model_free(&m);
            }
        }
    }
}

int main(void)
{
    part_exhaustive();
    part_sweeps();
    part_random();
    part_large();
    part_geometry();
    part_sparse();
    printf("ok: %lu sequences enumerated, %lu comparisons\n",
           ex_sequences, checks);
    return 0;
}
