/*
 * C14 (change b: the reference counters behind cstl_shared_ptr_t count
 * differently; pointer_cases() drives shared and weak pointers directly, the
 * rest drives them through the array objects): array views never reach
 * outside their buffer, which lives as long as any view.  Model-based test through the public API of cstl/array.h only.
 *
 * malloc/calloc/realloc/free are wrapped at link time (-Wl,--wrap=...) so the
 * test knows which heap blocks are live, can make chosen allocations fail,
 * and can detect leaks, double frees and frees of foreign pointers.  The test
 * does not care HOW MANY blocks the library uses, how big they are or in
 * which order they come and go - only that every address handed out by
 * cstl_array_at() lies in a live block (or in the externally supplied buffer),
 * that nothing is live once the last view is gone, and nothing is freed twice.
 * Calls that must abort() are made in a forked child.
 */
#include <stdio.h>
#include <stdlib.h>
#include <string.h>
#include <stdint.h>
#include <signal.h>
#include <unistd.h>
#include <sys/types.h>
#include <sys/wait.h>
#include <sys/resource.h>

#include "cstl/array.h"

/* ---- heap tracking ---------------------------------------------------- */
void * __real_malloc(size_t);
void * __real_calloc(size_t, size_t);
void * __real_realloc(void *, size_t);
void __real_free(void *);

#define MAXBLK 4096
static struct { unsigned char * p; size_t n; } blk[MAXBLK];
static int nblk;
static long fail_in;            /* >0: the fail_in-th allocation from now fails */
static int heap_errors;
static int tracking;

static void track_add(void * p, size_t n)
{
    if (p != NULL && tracking) {
        if (nblk == MAXBLK) { heap_errors++; return; }
        blk[nblk].p = p; blk[nblk].n = n; nblk++;
    }
}
static int track_del(void * p)
{
    int i;
    for (i = 0; i < nblk; i++) {
        if (blk[i].p == p) { blk[i] = blk[--nblk]; return 1; }
    }
    return 0;
}
static int should_fail(void)
{
    return tracking && fail_in > 0 && --fail_in == 0;
}
void * __wrap_malloc(size_t n)
{
    void * p;
    if (should_fail()) { return NULL; }
    p = __real_malloc(n);
    track_add(p, n);
    return p;
}
void * __wrap_calloc(size_t a, size_t b)
{
    void * p;
    if (should_fail()) { return NULL; }
    p = __real_calloc(a, b);
    track_add(p, a * b);
    return p;
}
void * __wrap_realloc(void * o, size_t n)
{
    void * p;
    if (should_fail()) { return NULL; }
    if (o != NULL && tracking && !track_del(o)) { heap_errors++; }
    p = __real_realloc(o, n);
    track_add(p, n);
    return p;
}
void __wrap_free(void * p)
{
    if (p != NULL && tracking && !track_del(p)) {
        heap_errors++;          /* double free or free of a foreign pointer */
        return;
    }
    __real_free(p);
}
/* is [p, p+n) inside one live heap block? (p == end of block is ok for n == 0) */
static int in_live_block(const void * p, size_t n)
{
    const unsigned char * q = p;
    int i;
    for (i = 0; i < nblk; i++) {
        if (q >= blk[i].p && q <= blk[i].p + blk[i].n
            && n <= (size_t)(blk[i].p + blk[i].n - q)) { return 1; }
    }
    return 0;
}

/* ---- model ------------------------------------------------------------- */
#define NOBJ 5
#define NBUF 64
#define NEXT 4
#define EXTBYTES 512

static int fails;
static const char * ctx = "";
#define CHECK(c, msg) do { if (!(c)) { if (fails++ < 25) \
    fprintf(stderr, "FAIL %s:%d [%s]: %s\n", __FILE__, __LINE__, ctx, msg); \
    } } while (0)

struct bufm { int used, refs, ext; size_t nm, sz; unsigned char * base; unsigned tag; };
struct objm { int b; size_t off, len; };

static cstl_array_t A[NOBJ];
static struct objm O[NOBJ];
static struct bufm B[NBUF];
static unsigned char extmem[NEXT][EXTBYTES + 64];
static unsigned tagctr;
static unsigned long nforks, nops;

static int expect_abort(void (* fn)(const size_t *), const size_t * arg)
{
    int st = 0;
    pid_t pid;
    fflush(NULL);
    pid = fork();
    if (pid == 0) {
        struct rlimit rl = { 0, 0 };
        setrlimit(RLIMIT_CORE, &rl);
        fn(arg);
        _exit(0);
    }
    nforks++;
    if (pid < 0 || waitpid(pid, &st, 0) != pid) { return 0; }
    return WIFSIGNALED(st) && WTERMSIG(st) == SIGABRT;
}

static void do_at(const size_t * a) { (void)cstl_array_at(&A[a[0]], a[1]); }
static void do_slice(const size_t * a) { cstl_array_slice(&A[a[0]], a[1], a[2], &A[a[3]]); }
static void do_unslice(const size_t * a) { cstl_array_unslice(&A[a[0]], &A[a[1]]); }

static unsigned char pat(const struct bufm * b, size_t idx, size_t byte)
{
    return (unsigned char)(b->tag * 131u + idx * 7u + byte * 3u + 1u);
}

static int addr_ok(const struct bufm * b, const void * p)
{
    if (b->ext) {
        const unsigned char * q = p;
        return q >= b->base && q <= b->base + b->nm * b->sz
               && b->sz <= (size_t)(b->base + b->nm * b->sz - q);
    }
    return in_live_block(p, b->sz);
}

/* may_alloc: the call that dropped the reference may also have allocated, so
 * the address of the old buffer may legitimately be in use again already */
static void drop_ref_x(int o, int may_alloc)
{
    if (O[o].b >= 0) {
        struct bufm * b = &B[O[o].b];
        if (--b->refs == 0) {
            /* last view gone: an internal buffer must not be live any more */
            if (!b->ext && !may_alloc && b->nm * b->sz > 0) {
                CHECK(!in_live_block(b->base, 1),
                      "buffer still allocated after its last view went away");
            }
            b->used = 0;
        }
    }
    O[o].b = -1; O[o].off = O[o].len = 0;
}
static void drop_ref(int o) { drop_ref_x(o, 0); }

static int new_buf(void)
{
    int i;
    for (i = 0; i < NBUF; i++) { if (!B[i].used) { memset(&B[i], 0, sizeof(B[i])); B[i].used = 1; B[i].tag = ++tagctr; return i; } }
    abort();
}

static void check_obj(int o, int with_aborts)
{
    const struct objm * m = &O[o];
    size_t arg[4];
    CHECK(cstl_array_size(&A[o]) == m->len, "size");
    if (m->b < 0) {
        CHECK(cstl_array_data(&A[o]) == NULL, "data of an empty object");
        CHECK(m->len == 0, "model");
    } else {
        const struct bufm * b = &B[m->b];
        size_t k, idx[3];
        CHECK(cstl_array_data(&A[o]) == (void *)b->base, "data");
        idx[0] = 0; idx[1] = m->len / 2; idx[2] = m->len ? m->len - 1 : 0;
        for (k = 0; k < 3 && m->len > 0; k++) {
            unsigned char * p = cstl_array_at(&A[o], idx[k]);
            size_t y;
            CHECK(p == b->base + (m->off + idx[k]) * b->sz, "at: address");
            CHECK(addr_ok(b, p), "at: address not inside the live buffer");
            if (addr_ok(b, p)) {
                for (y = 0; y < b->sz; y++) {
                    CHECK(p[y] == pat(b, m->off + idx[k], y), "at: content");
                }
            }
        }
    }
    if (with_aborts) {
        arg[0] = (size_t)o;
        arg[1] = m->len;              CHECK(expect_abort(do_at, arg), "at(size) must abort");
        arg[1] = m->len + 1;          CHECK(expect_abort(do_at, arg), "at(size+1) must abort");
        arg[1] = SIZE_MAX;            CHECK(expect_abort(do_at, arg), "at(SIZE_MAX) must abort");
        if (m->off > 0) {
            arg[1] = (size_t)0 - m->off;     CHECK(expect_abort(do_at, arg), "at(-off) must abort");
            arg[1] = (size_t)0 - m->off + (m->len ? m->len - 1 : 0);
            if (arg[1] >= m->len) { CHECK(expect_abort(do_at, arg), "at(wrapping) must abort"); }
        }
    }
}

static void check_all(int with_aborts)
{
    int o;
    for (o = 0; o < NOBJ; o++) { check_obj(o, with_aborts); }
    CHECK(heap_errors == 0, "heap misuse (double free / foreign free)");
}

static void fill_buf(int o)
{
    const struct objm * m = &O[o];
    const struct bufm * b = &B[m->b];
    size_t i, y;
    for (i = 0; i < m->len; i++) {
        unsigned char * p = cstl_array_at(&A[o], i);
        for (y = 0; y < b->sz; y++) { p[y] = pat(b, m->off + i, y); }
    }
}

static void op_alloc(int o, size_t nm, size_t sz, long fail)
{
    int nb;
    const int representable = (sz == 0) || nm <= (SIZE_MAX / 2) / sz;
    fail_in = fail;
    cstl_array_alloc(&A[o], nm, sz);
    fail_in = 0;
    drop_ref_x(o, 1);
    if (cstl_array_data(&A[o]) == NULL) {
        /* failed: the object must be empty */
        CHECK(cstl_array_size(&A[o]) == 0, "failed allocation leaves the object empty");
        CHECK(fail > 0 || !representable || nm * sz > ((size_t)1 << 40), "allocation failed for no reason");
        return;
    }
    CHECK(representable, "unrepresentable size was 'allocated'");
    nb = new_buf();
    B[nb].refs = 1; B[nb].nm = nm; B[nb].sz = sz; B[nb].ext = 0;
    B[nb].base = cstl_array_data(&A[o]);
    O[o].b = nb; O[o].off = 0; O[o].len = nm;
    CHECK(cstl_array_size(&A[o]) == nm, "size after alloc");
    CHECK(in_live_block(B[nb].base, nm * sz), "fresh buffer is not one live block of nm*sz bytes");
    if (in_live_block(B[nb].base, nm * sz)) { fill_buf(o); }
}

static void op_set(int o, int e, size_t nm, size_t sz, long fail)
{
    int nb, i;
    for (i = 0; i < NBUF; i++) { if (B[i].used && B[i].ext && B[i].base == extmem[e] + 32) { return; } }
    if (sz != 0 && nm > EXTBYTES / sz) { nm = EXTBYTES / sz; }
    fail_in = fail;
    cstl_array_set(&A[o], extmem[e] + 32, nm, sz);
    fail_in = 0;
    drop_ref_x(o, 1);
    if (cstl_array_data(&A[o]) == NULL) {
        CHECK(cstl_array_size(&A[o]) == 0, "failed set leaves the object empty");
        CHECK(fail > 0, "set failed for no reason");
        return;
    }
    nb = new_buf();
    B[nb].refs = 1; B[nb].nm = nm; B[nb].sz = sz; B[nb].ext = 1;
    B[nb].base = extmem[e] + 32;
    CHECK(cstl_array_data(&A[o]) == (void *)B[nb].base, "set: data is the supplied buffer");
    O[o].b = nb; O[o].off = 0; O[o].len = nm;
    fill_buf(o);
}

static void op_slice(int o, size_t beg, size_t end, int s)
{
    const struct objm m = O[o];
    int ok = m.b >= 0 && end >= beg && end <= B[m.b >= 0 ? m.b : 0].nm - m.off;
    if (!ok) {
        size_t arg[4];
        arg[0] = (size_t)o; arg[1] = beg; arg[2] = end; arg[3] = (size_t)s;
        CHECK(expect_abort(do_slice, arg), "slice must abort");
        return;
    }
    cstl_array_slice(&A[o], beg, end, &A[s]);
    if (s != o) { B[m.b].refs++; drop_ref(s); }
    O[s].b = m.b; O[s].off = m.off + beg; O[s].len = end - beg;
}

static void op_unslice(int s, int a)
{
    const struct objm m = O[s];
    if (m.b < 0) {
        size_t arg[2];
        arg[0] = (size_t)s; arg[1] = (size_t)a;
        CHECK(expect_abort(do_unslice, arg), "unslice of an empty object must abort");
        return;
    }
    cstl_array_unslice(&A[s], &A[a]);
    if (s != a) { B[m.b].refs++; drop_ref(a); }
    O[a].b = m.b; O[a].off = 0; O[a].len = B[m.b].nm;
}

static void op_reset(int o)
{
    cstl_array_reset(&A[o]);
    drop_ref(o);
}

static void op_release(int o, int with_out)
{
    const struct objm m = O[o];
    void * out = (void *)&out;
    cstl_array_release(&A[o], with_out ? &out : NULL);
    if (m.b >= 0 && B[m.b].ext && B[m.b].refs == 1) {
        if (with_out) { CHECK(out == (void *)B[m.b].base, "release hands the buffer back to its sole user"); }
        drop_ref(o);
    } else {
        if (with_out) { CHECK(out == NULL, "release must report NULL"); }
        /* and nothing changes: verified by the next check_all() */
    }
}

static size_t pick_bound(int o, unsigned r)
{
    const struct objm * m = &O[o];
    const size_t nm = m->b >= 0 ? B[m->b].nm : 0;
    switch (r % 16) {
    case 0: return 0;
    case 1: return 1;
    case 2: return m->len / 2;
    case 3: return m->len;
    case 4: return m->len + 1;
    case 5: return nm - m->off;
    case 6: return nm - m->off + 1;
    case 7: return nm;
    case 8: return nm + 1;
    case 9: return SIZE_MAX;
    case 10: return SIZE_MAX - 1;
    case 11: return SIZE_MAX - m->off;
    case 12: return SIZE_MAX - m->off + 1;
    case 13: return m->len ? m->len - 1 : 0;
    case 14: return (nm - m->off) / 2;
    default: return m->len ? (r >> 8) % m->len : 0;
    }
}

static void teardown(void)
{
    int o;
    for (o = 0; o < NOBJ; o++) { op_reset(o); }
    check_all(0);
    CHECK(nblk == 0, "heap blocks still live after the last view went away");
    CHECK(heap_errors == 0, "heap misuse");
}

static void setup(void)
{
    int o;
    memset(B, 0, sizeof(B));
    for (o = 0; o < NOBJ; o++) {
        if (o == 1) {
            cstl_array_t tmp = CSTL_ARRAY_INITIALIZER(A[1]);
            memcpy(&A[1], &tmp, sizeof(tmp));
        } else {
            cstl_array_init(&A[o]);
        }
        O[o].b = -1; O[o].off = O[o].len = 0;
    }
}

/* shared and weak pointers, directly: lifetime of the managed memory and of
 * everything else, uniqueness, and the clear callback, for every order in
 * which two shared and two weak pointers can be dropped */
static int clr_calls;
static void * clr_arg;
static void on_clr(void * p, void * priv)
{
    (void)priv;
    clr_calls++;
    clr_arg = p;
    CHECK(in_live_block(p, 48), "clear callback sees live memory");
}

static void pointer_cases(void)
{
    int order;
    ctx = "pointers";
    for (order = 0; order < 24; order++) {
        DECLARE_CSTL_SHARED_PTR(s1);
        DECLARE_CSTL_SHARED_PTR(s2);
        DECLARE_CSTL_SHARED_PTR(s3);
        DECLARE_CSTL_WEAK_PTR(w1);
        DECLARE_CSTL_WEAK_PTR(w2);
        int perm[4], used[4] = { 0, 0, 0, 0 }, k, c = order, shared_left = 2;
        void * mem;

        for (k = 0; k < 4; k++) {               /* decode the permutation */
            int idx = c % (4 - k), j;
            c /= (4 - k);
            for (j = 0; j < 4; j++) { if (!used[j] && idx-- == 0) { used[j] = 1; perm[k] = j; break; } }
        }

        clr_calls = 0;
        CHECK(cstl_shared_ptr_unique(&s1), "an empty pointer is unique");
        cstl_shared_ptr_alloc(&s1, 48, on_clr);
        mem = cstl_shared_ptr_get(&s1);
        CHECK(mem != NULL && in_live_block(mem, 48), "alloc");
        CHECK(cstl_shared_ptr_unique(&s1), "sole owner is unique");
        cstl_weak_ptr_from(&w1, &s1);
        CHECK(!cstl_shared_ptr_unique(&s1), "not unique with a weak pointer around");
        cstl_weak_ptr_reset(&w1);
        CHECK(cstl_shared_ptr_unique(&s1), "unique again");
        cstl_shared_ptr_share(&s1, &s2);
        CHECK(!cstl_shared_ptr_unique(&s1) && !cstl_shared_ptr_unique(&s2), "two owners");
        CHECK(cstl_shared_ptr_get(&s2) == mem, "share");
        cstl_weak_ptr_from(&w1, &s1);
        cstl_weak_ptr_from(&w2, &s2);

        for (k = 0; k < 4; k++) {
            switch (perm[k]) {
            case 0: cstl_shared_ptr_reset(&s1); shared_left--; break;
            case 1: cstl_shared_ptr_reset(&s2); shared_left--; break;
            case 2: cstl_weak_ptr_reset(&w1); break;
            default: cstl_weak_ptr_reset(&w2); break;
            }
            if (shared_left > 0) {
                CHECK(clr_calls == 0 && in_live_block(mem, 48), "memory lives while a shared pointer does");
            } else {
                CHECK(clr_calls == 1 && clr_arg == mem, "clear called exactly once, with the memory");
                CHECK(!in_live_block(mem, 1), "memory is freed with the last shared pointer");
            }
            /* a weak pointer that is still around can be locked iff the memory is live */
            if (perm[k] != 2 && !(k > 0 && perm[0] == 2) && !(k > 1 && perm[1] == 2) && !(k > 2 && perm[2] == 2)) {
                cstl_weak_ptr_lock(&w1, &s3);
                CHECK((cstl_shared_ptr_get(&s3) == mem) == (shared_left > 0), "lock of a weak pointer");
                if (shared_left == 1) { CHECK(!cstl_shared_ptr_unique(&s3), "locked pointer has company"); }
                cstl_shared_ptr_reset(&s3);
                CHECK(clr_calls == (shared_left > 0 ? 0 : 1), "temporary owner does not end the lifetime");
            }
        }
        CHECK(nblk == 0, "everything is freed once all pointers are gone");
        CHECK(heap_errors == 0, "heap misuse");
    }
}

int main(void)
{
    static const size_t szs[] = { 1, 2, 3, 4, 8, 16, 0, 24 };
    unsigned seed;
    char buf[96];

    tracking = 1;

    pointer_cases();

    /* ---- directed: unrepresentable and failing allocations ---- */
    setup();
    ctx = "directed";
    {
        static const size_t big[][2] = {
            { SIZE_MAX, 1 }, { SIZE_MAX, 2 }, { SIZE_MAX / 2 + 1, 2 }, { SIZE_MAX / 2, 2 },
            { SIZE_MAX / 3 + 1, 3 }, { (size_t)1 << (4 * sizeof(size_t)), (size_t)1 << (4 * sizeof(size_t)) },
            { SIZE_MAX - 8, 1 }, { SIZE_MAX - 64, 1 }, { 2, SIZE_MAX }, { 1, SIZE_MAX }, { SIZE_MAX, SIZE_MAX },
            { ((size_t)1 << (8 * sizeof(size_t) - 2)), 3 }, { SIZE_MAX, 0 }, { 0, SIZE_MAX }, { 0, 0 },
        };
        size_t i;
        long f;
        for (i = 0; i < sizeof(big) / sizeof(big[0]); i++) {
            /* the object is a slice with a non-zero offset when it is re-allocated */
            op_alloc(0, 10, 4, 0);
            op_slice(0, 3, 7, 0);
            op_slice(0, 1, 2, 2);
            check_all(0);
            if (big[i][0] == SIZE_MAX && big[i][1] == 0) {
                /* SIZE_MAX elements of size 0 are representable: zero bytes */
                cstl_array_alloc(&A[0], big[i][0], big[i][1]);
                drop_ref_x(0, 1);
                if (cstl_array_data(&A[0]) != NULL) {
                    CHECK(cstl_array_size(&A[0]) == SIZE_MAX, "size of zero-byte array");
                    cstl_array_reset(&A[0]);
                }
            } else {
                op_alloc(0, big[i][0], big[i][1], 0);
            }
            check_all(1);
            op_reset(0); op_reset(2);
            check_all(0);
            CHECK(nblk == 0, "leak after unrepresentable allocation");
        }
        for (f = 1; f <= 6; f++) {
            op_alloc(0, 12, 2, 0);
            op_slice(0, 5, 9, 1);
            op_slice(1, 1, 3, 1);                 /* in place */
            check_all(0);
            op_alloc(1, 6, 8, f);                 /* f-th allocation inside fails (if there are that many) */
            check_all(1);
            op_set(0, 0, 20, 4, f);
            check_all(1);
            op_reset(0); op_reset(1);
            CHECK(nblk == 0, "leak after failed allocation");
        }
    }
    teardown();

    /* ---- directed: release ---- */
    setup();
    ctx = "release";
    op_set(0, 0, 16, 4, 0);
    op_slice(0, 4, 12, 1);
    op_release(0, 1);               /* not the sole user: NULL, nothing changes */
    check_all(1);
    op_release(1, 1);
    check_all(0);
    op_reset(0);
    op_release(1, 1);               /* sole user now, and it is a slice */
    check_all(1);
    op_alloc(2, 9, 3, 0);
    op_release(2, 1);               /* not external: NULL, nothing changes */
    check_all(1);
    op_release(3, 1);               /* empty object */
    op_release(3, 0);
    op_set(3, 1, 8, 8, 0);
    op_release(3, 0);               /* NULL out parameter is allowed */
    check_all(1);
    teardown();

    /* ---- seeded random histories ---- */
    for (seed = 1; seed <= 40; seed++) {
        int step;
        setup();
        srand(seed * 2654435761u);
        for (step = 0; step < 600; step++) {
            const int o = rand() % NOBJ, p = rand() % NOBJ;
            const unsigned r = (unsigned)rand();
            const int op = rand() % 20;
            sprintf(buf, "seed %u step %d op %d obj %d/%d", seed, step, op, o, p);
            ctx = buf;
            switch (op) {
            case 0: case 1:
                op_alloc(o, r % 40, szs[(r >> 8) % 8], (r >> 12) % 9 == 0 ? (long)((r >> 16) % 4 + 1) : 0);
                break;
            case 2:
                op_set(o, (int)(r % NEXT), (r >> 4) % 40, szs[(r >> 12) % 8], (r >> 16) % 9 == 0 ? (long)((r >> 20) % 4 + 1) : 0);
                break;
            case 3: case 4: case 5: case 6: case 7: case 8: case 9: case 10: {
                size_t b = pick_bound(o, r), e = pick_bound(o, r >> 4);
                if (op < 7 && O[o].b >= 0) {         /* mostly valid slices */
                    const size_t room = B[O[o].b].nm - O[o].off;
                    b = room ? (r >> 3) % (room + 1) : 0;
                    e = b + (room - b ? (r >> 11) % (room - b + 1) : 0);
                }
                op_slice(o, b, e, (op & 1) ? o : p);
                break;
            }
            case 11: case 12: op_unslice(o, p); break;
            case 13: op_unslice(o, o); break;
            case 14: case 15: op_reset(o); break;
            case 16: case 17: op_release(o, (int)(r & 1)); break;
            default: break;
            }
            nops++;
            check_all(step % 40 == 0);
        }
        teardown();
    }

    if (fails) {
        fprintf(stderr, "%d failure(s)\n", fails);
        return 1;
    }
    printf("ok: %lu operations, %lu abort checks\n", nops, nforks);
    return 0;
}
