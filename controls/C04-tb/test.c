/*
 * C04: hash enumeration and clear reach every element exactly once,
 * even in the middle of an incremental rehash.
 *
 * Only the public API of cstl/hash.h is used. Nothing is assumed about
 * the order of enumeration, about how far an incremental rehash has
 * progressed after any call, or about the private layout.
 */

#include "cstl/hash.h"

#include <stdio.h>
#include <stdlib.h>
#include <string.h>
#include <stdint.h>

#define CHECK(COND)                                                     \
    do {                                                                \
        if (!(COND)) {                                                  \
            fprintf(stderr, "%s:%d: check failed: %s [%s]\n",           \
                    __FILE__, __LINE__, #COND, g_where);                \
            exit(1);                                                    \
        }                                                               \
    } while (0)

static char g_where[256] = "start";

/* ------------------------------------------------------------------ */
/* hash functions                                                      */

static size_t h_rev(const size_t k, const size_t m)
{
    return m - 1 - (k % m);
}
static size_t h_zero(const size_t k, const size_t m)
{
    (void)k;
    (void)m;
    return 0;
}
static size_t h_last(const size_t k, const size_t m)
{
    (void)k;
    return m - 1;
}
static size_t h_mix(const size_t k, const size_t m)
{
    return (size_t)(((uint64_t)k * 2654435761u) >> 7) % m;
}
static size_t h_half(const size_t k, const size_t m)
{
    /* only ever uses the lower half of the table */
    return (k % m) / 2;
}

static cstl_hash_func_t * const hfuncs[] = {
    cstl_hash_div, cstl_hash_mul, h_rev, h_zero, h_last, h_mix, h_half,
};
#define NHFUNCS (sizeof(hfuncs) / sizeof(hfuncs[0]))

/* ------------------------------------------------------------------ */
/* random numbers                                                      */

static uint64_t rng_state = 88172645463325252ull;
static uint32_t rnd(void)
{
    rng_state ^= rng_state << 13;
    rng_state ^= rng_state >> 7;
    rng_state ^= rng_state << 17;
    return (uint32_t)(rng_state >> 16);
}
static unsigned int rnd_n(const unsigned int n)
{
    return rnd() % n;
}

/* ------------------------------------------------------------------ */
/* two tables over one pool of elements; each element has two nodes   */

#define NPOOL 40

struct elem
{
    int id;
    struct cstl_hash_node n[2];
    char pad[3];
};

static struct elem pool[NPOOL];
/* the model */
static int m_in[2][NPOOL];
static size_t m_key[2][NPOOL];
static size_t m_size[2];
static int m_ready[2];

static unsigned int seen[NPOOL];

/* table t currently lives in the object H[slot[t]] */
static struct cstl_hash H[2];
static int slot[2];

static struct cstl_hash * tab(const int t)
{
    return &H[slot[t]];
}

static void world_init(void)
{
    int i;

    for (i = 0; i < NPOOL; i++) {
        pool[i].id = i;
    }
    memset(m_in, 0, sizeof(m_in));
    memset(m_key, 0, sizeof(m_key));
    m_size[0] = m_size[1] = 0;
    m_ready[0] = m_ready[1] = 0;
    slot[0] = 0;
    slot[1] = 1;

    cstl_hash_init(&H[0], offsetof(struct elem, n[0]));
    {
        /* the other one comes from the static initialiser */
        DECLARE_CSTL_HASH(tmp, struct elem, n[1]);
        H[1] = tmp;
    }
}

static void t_resize(const int t, const size_t count,
                     cstl_hash_func_t * const f)
{
    cstl_hash_resize(tab(t), count, f);
    m_ready[t] = 1;
}

static void t_insert(const int t, const int id, const size_t key)
{
    CHECK(m_ready[t] && !m_in[t][id]);
    cstl_hash_insert(tab(t), key, &pool[id]);
    m_in[t][id] = 1;
    m_key[t][id] = key;
    m_size[t]++;
    CHECK(cstl_hash_size(tab(t)) == m_size[t]);
}

static void t_erase(const int t, const int id)
{
    CHECK(m_ready[t] && m_in[t][id]);
    cstl_hash_erase(tab(t), &pool[id]);
    m_in[t][id] = 0;
    m_size[t]--;
    CHECK(cstl_hash_size(tab(t)) == m_size[t]);
}

struct find_ctx
{
    int want;
    unsigned int calls;
};

static int find_visit(const void * const e, void * const p)
{
    struct find_ctx * const fc = p;
    fc->calls++;
    return ((const struct elem *)e)->id == fc->want;
}

static void t_find(const int t, const size_t key)
{
    struct find_ctx fc;
    unsigned int i, have = 0;
    int some = -1;
    struct elem * e;

    CHECK(m_ready[t]);
    for (i = 0; i < NPOOL; i++) {
        if (m_in[t][i] && m_key[t][i] == key) {
            have++;
            if (some < 0 || rnd_n(2) == 0) {
                some = i;
            }
        }
    }

    e = cstl_hash_find(tab(t), key, NULL, NULL);
    if (have == 0) {
        CHECK(e == NULL);
    } else {
        CHECK(e != NULL);
        CHECK(e >= pool && e < pool + NPOOL);
        CHECK(m_in[t][e->id] && m_key[t][e->id] == key);

        fc.want = some;
        fc.calls = 0;
        e = cstl_hash_find(tab(t), key, find_visit, &fc);
        CHECK(e == &pool[some]);
        CHECK(fc.calls >= 1 && fc.calls <= have);
    }

    fc.want = -1;
    fc.calls = 0;
    e = cstl_hash_find(tab(t), key, find_visit, &fc);
    CHECK(e == NULL);
    CHECK(fc.calls == have);
}

/* ------------------------------------------------------------------ */
/* enumeration                                                         */

struct visit_ctx
{
    int t;
    size_t calls;
    /* stop (return stop_val) at this call, 0 means never */
    size_t stop_at;
    int stop_val;
    /* look the element up in the other table from inside the callback */
    int cross;
    /* erase the visited element if id % mod == rem (mod 0: never) */
    int mod, rem;
    /* move erased elements into the other table */
    int move;
};

static void cross_check(const int t, const struct elem * const e)
{
    const int o = 1 - t;

    if (m_ready[o]) {
        /* use ANOTHER container object from inside the callback */
        struct find_ctx fc;
        void * r;

        fc.want = e->id;
        fc.calls = 0;
        if (m_in[o][e->id]) {
            r = cstl_hash_find(tab(o), m_key[o][e->id], find_visit, &fc);
            CHECK(r == e);
        } else {
            r = cstl_hash_find(tab(o), m_key[t][e->id], find_visit, &fc);
            CHECK(r == NULL);
        }
    }
}

static int const_visit(const void * const p, void * const priv)
{
    struct visit_ctx * const vc = priv;
    const struct elem * const e = p;

    CHECK(e >= pool && e < pool + NPOOL);
    CHECK(e == &pool[e->id]);
    CHECK(m_in[vc->t][e->id]);
    seen[e->id]++;
    CHECK(seen[e->id] == 1);
    vc->calls++;

    if (vc->cross) {
        cross_check(vc->t, e);
    }

    if (vc->stop_at != 0 && vc->calls == vc->stop_at) {
        return vc->stop_val;
    }
    return 0;
}

static int mut_visit(void * const p, void * const priv)
{
    struct visit_ctx * const vc = priv;
    struct elem * const e = p;
    const int t = vc->t;

    CHECK(e >= pool && e < pool + NPOOL);
    CHECK(e == &pool[e->id]);
    CHECK(m_in[t][e->id]);
    seen[e->id]++;
    CHECK(seen[e->id] == 1);
    vc->calls++;

    if (vc->cross) {
        cross_check(t, e);
    }

    if (vc->mod != 0 && e->id % vc->mod == vc->rem) {
        /* remove the *current* element */
        const size_t key = m_key[t][e->id];

        cstl_hash_erase(tab(t), e);
        m_in[t][e->id] = 0;
        m_size[t]--;
        CHECK(cstl_hash_size(tab(t)) == m_size[t]);
        /* scribble over the node that was just released */
        memset(&e->n[t], 0xa5, sizeof(e->n[t]));

        if (vc->move && m_ready[1 - t] && !m_in[1 - t][e->id]) {
            t_insert(1 - t, e->id, key);
        }
    }

    if (vc->stop_at != 0 && vc->calls == vc->stop_at) {
        return vc->stop_val;
    }
    return 0;
}

static void seen_reset(void)
{
    memset(seen, 0, sizeof(seen));
}

/* after a complete enumeration of table t as it was before the call */
static void seen_all(const int before[NPOOL])
{
    int i;
    for (i = 0; i < NPOOL; i++) {
        CHECK(seen[i] == (before[i] ? 1u : 0u));
    }
}

/* complete, read-only enumeration; may be called at any moment */
static void verify(const int t, const int cross)
{
    struct visit_ctx vc;
    int r;

    if (!m_ready[t]) {
        CHECK(cstl_hash_size(tab(t)) == 0);
        return;
    }

    memset(&vc, 0, sizeof(vc));
    vc.t = t;
    vc.cross = cross;

    seen_reset();
    r = cstl_hash_foreach_const(tab(t), const_visit, &vc);
    CHECK(r == 0);
    CHECK(vc.calls == m_size[t]);
    CHECK(cstl_hash_size(tab(t)) == m_size[t]);
    seen_all(m_in[t]);
}

/* read-only enumeration stopped at the k-th call */
static void verify_stop_const(const int t, const size_t k, const int val)
{
    struct visit_ctx vc;
    int r, i;

    memset(&vc, 0, sizeof(vc));
    vc.t = t;
    vc.stop_at = k;
    vc.stop_val = val;

    seen_reset();
    r = cstl_hash_foreach_const(tab(t), const_visit, &vc);
    if (k >= 1 && k <= m_size[t]) {
        CHECK(r == val);
        CHECK(vc.calls == k);
    } else {
        CHECK(r == 0);
        CHECK(vc.calls == m_size[t]);
    }
    for (i = 0; i < NPOOL; i++) {
        CHECK(seen[i] <= (m_in[t][i] ? 1u : 0u));
    }
}

/* the modifying enumeration, complete */
static void do_foreach(const int t, const int cross,
                       const int mod, const int rem, const int move)
{
    struct visit_ctx vc;
    int before[NPOOL];
    const size_t size = m_size[t];
    int r;

    memcpy(before, m_in[t], sizeof(before));

    memset(&vc, 0, sizeof(vc));
    vc.t = t;
    vc.cross = cross;
    vc.mod = mod;
    vc.rem = rem;
    vc.move = move;

    seen_reset();
    r = cstl_hash_foreach(tab(t), mut_visit, &vc);
    CHECK(r == 0);
    CHECK(vc.calls == size);
    seen_all(before);
}

/* the modifying enumeration, stopped at the k-th call */
static void do_foreach_stop(const int t, const size_t k, const int val,
                            const int mod, const int rem)
{
    struct visit_ctx vc;
    int before[NPOOL];
    const size_t size = m_size[t];
    int r, i;

    memcpy(before, m_in[t], sizeof(before));

    memset(&vc, 0, sizeof(vc));
    vc.t = t;
    vc.stop_at = k;
    vc.stop_val = val;
    vc.mod = mod;
    vc.rem = rem;

    seen_reset();
    r = cstl_hash_foreach(tab(t), mut_visit, &vc);
    if (k >= 1 && k <= size) {
        CHECK(r == val);
        CHECK(vc.calls == k);
    } else {
        CHECK(r == 0);
        CHECK(vc.calls == size);
    }
    for (i = 0; i < NPOOL; i++) {
        CHECK(seen[i] <= (before[i] ? 1u : 0u));
    }
}

/* ------------------------------------------------------------------ */
/* clear                                                               */

static struct
{
    int t;
    size_t calls;
    int move;
} clr_ctx;

static void clear_cb(void * const p, void * const priv)
{
    struct elem * const e = p;
    const int t = clr_ctx.t;

    (void)priv;

    CHECK(e >= pool && e < pool + NPOOL);
    CHECK(e == &pool[e->id]);
    CHECK(m_in[t][e->id]);
    seen[e->id]++;
    CHECK(seen[e->id] == 1);
    clr_ctx.calls++;

    /* the callee owns the element from now on */
    m_in[t][e->id] = 0;
    memset(&e->n[t], 0x5a, sizeof(e->n[t]));

    if (clr_ctx.move && m_ready[1 - t] && !m_in[1 - t][e->id]) {
        /* ... and uses ANOTHER container from inside the callback */
        t_insert(1 - t, e->id, m_key[t][e->id]);
    }
}

static void do_clear(const int t, const int with_cb, const int move)
{
    int before[NPOOL];
    const size_t size = m_size[t];

    memcpy(before, m_in[t], sizeof(before));

    clr_ctx.t = t;
    clr_ctx.calls = 0;
    clr_ctx.move = move;

    seen_reset();
    if (with_cb) {
        cstl_hash_clear(tab(t), clear_cb);
        CHECK(clr_ctx.calls == size);
        seen_all(before);
    } else {
        cstl_hash_clear(tab(t), NULL);
        memset(m_in[t], 0, sizeof(m_in[t]));
    }

    m_size[t] = 0;
    m_ready[t] = 0;
    CHECK(cstl_hash_size(tab(t)) == 0);
}

/* a resize that cannot be satisfied must leave the table undisturbed */
static void do_failed_resize(const int t)
{
    const float load = cstl_hash_load(tab(t));
    const size_t size = cstl_hash_size(tab(t));

    cstl_hash_resize(tab(t), SIZE_MAX / 64, rnd_n(2) ? NULL : h_rev);
    CHECK(cstl_hash_size(tab(t)) == size);
    CHECK(cstl_hash_load(tab(t)) == load);
    cstl_hash_resize(tab(t), 0, h_zero);
    CHECK(cstl_hash_size(tab(t)) == size);
    CHECK(cstl_hash_load(tab(t)) == load);
}

static void world_reset(void)
{
    cstl_hash_clear(&H[0], NULL);
    cstl_hash_clear(&H[1], NULL);
    world_init();
}

/* ------------------------------------------------------------------ */
/* part 1: small scope, every short history after a resize             */

struct config
{
    size_t c0, cm, c1;
    cstl_hash_func_t * f0, * f1;
};

static int lowest_member(const int t)
{
    int i;
    for (i = 0; i < NPOOL; i++) {
        if (m_in[t][i]) {
            return i;
        }
    }
    return -1;
}

static int lowest_free(const int t)
{
    int i;
    for (i = 0; i < NPOOL; i++) {
        if (!m_in[t][i]) {
            return i;
        }
    }
    return -1;
}

static void progress_op(const int op, const unsigned int step)
{
    int i;

    switch (op) {
    case 0:
        i = lowest_member(0);
        t_find(0, i >= 0 ? m_key[0][i] : 0);
        break;
    case 1:
        t_find(0, 1000 + step);
        break;
    case 2:
        i = lowest_free(0);
        t_insert(0, i, (size_t)i * 5 + 1);
        break;
    case 3:
        i = lowest_member(0);
        if (i >= 0) {
            t_erase(0, i);
        } else {
            t_find(0, 3);
        }
        break;
    default:
        t_find(0, step + 2);
        break;
    }
}

static void build(const struct config * const c, const unsigned int n,
                  const unsigned int * const seq, const unsigned int len)
{
    unsigned int i;

    world_reset();
    t_resize(0, c->c0, c->f0);
    for (i = 0; i < n; i++) {
        /* a few duplicate keys */
        t_insert(0, i, (i % 4 == 3) ? 1 : i);
    }
    if (c->cm != 0) {
        t_resize(0, c->cm, NULL);
        t_find(0, 0);
    }
    t_resize(0, c->c1, c->f1);
    for (i = 0; i < len; i++) {
        progress_op(seq[i], i);
    }
}

static void small_scope_one(const struct config * const c,
                            const unsigned int n,
                            const unsigned int * const seq,
                            const unsigned int len)
{
    int kind;

    for (kind = 0; kind < 7; kind++) {
        size_t k;

        build(c, n, seq, len);

        /* non-destructive checks first */
        verify(0, 0);
        for (k = 0; k <= m_size[0] + 1; k++) {
            verify_stop_const(0, k, (int)(100 + k));
            verify(0, 0);
        }

        switch (kind) {
        case 0:
            do_foreach(0, 0, 0, 0, 0);
            verify(0, 0);
            break;
        case 1:
            do_foreach_stop(0, (m_size[0] + 1) / 2, -7, 0, 0);
            verify(0, 0);
            break;
        case 2:
            /* erase everything from inside the enumeration */
            do_foreach(0, 0, 1, 0, 0);
            CHECK(m_size[0] == 0);
            verify(0, 0);
            t_insert(0, 5, 55);
            t_insert(0, 6, 55);
            verify(0, 0);
            do_foreach(0, 0, 0, 0, 0);
            break;
        case 3:
            do_foreach(0, 0, 2, 1, 0);
            verify(0, 0);
            do_foreach(0, 0, 2, 0, 0);
            CHECK(m_size[0] == 0);
            verify(0, 0);
            break;
        case 4:
            /* erase while stopping early */
            do_foreach_stop(0, m_size[0], 9, 3, 0);
            verify(0, 0);
            do_foreach_stop(0, 1, 1, 1, 0);
            verify(0, 0);
            break;
        case 5:
            do_clear(0, 1, 0);
            /* reusable after a fresh resize */
            t_resize(0, c->c0 + 1, NULL);
            verify(0, 0);
            t_insert(0, 1, 7);
            t_insert(0, 2, 7);
            t_insert(0, 3, 8);
            t_find(0, 7);
            verify(0, 0);
            t_resize(0, c->c1, c->f1);
            verify(0, 0);
            do_clear(0, 1, 0);
            /* clearing a cleared table is harmless */
            do_clear(0, 1, 0);
            break;
        default:
            do_clear(0, 0, 0);
            t_resize(0, c->c1, NULL);
            verify(0, 0);
            t_insert(0, 0, 0);
            verify(0, 0);
            break;
        }
    }
}

static void small_scope(void)
{
    static const struct config configs[] = {
        { 1, 0, 2, cstl_hash_div, NULL },
        { 2, 0, 1, cstl_hash_div, NULL },
        { 2, 0, 5, cstl_hash_div, NULL },
        { 5, 0, 2, cstl_hash_div, NULL },
        { 3, 0, 4, cstl_hash_div, h_rev },
        { 4, 0, 3, h_rev, cstl_hash_div },
        { 1, 0, 6, NULL, cstl_hash_div },
        { 6, 0, 1, cstl_hash_div, cstl_hash_mul },
        { 4, 0, 4, cstl_hash_div, h_rev },
        { 3, 0, 7, h_zero, h_last },
        { 7, 0, 3, h_last, h_zero },
        { 2, 6, 4, cstl_hash_div, NULL },
        { 6, 2, 4, cstl_hash_div, h_half },
        { 4, 0, 8, h_half, h_half },
        { 8, 0, 4, h_mix, NULL },
    };
    static const unsigned int ns[] = { 0, 1, 3, 6 };
    unsigned int ci, ni, len;

    for (ci = 0; ci < sizeof(configs) / sizeof(configs[0]); ci++) {
        for (ni = 0; ni < sizeof(ns) / sizeof(ns[0]); ni++) {
            for (len = 0; len <= 4; len++) {
                unsigned int total = 1, code, i;

                for (i = 0; i < len; i++) {
                    total *= 5;
                }
                for (code = 0; code < total; code++) {
                    unsigned int seq[4], x = code;

                    for (i = 0; i < len; i++) {
                        seq[i] = x % 5;
                        x /= 5;
                    }
                    snprintf(g_where, sizeof(g_where),
                             "small config %u n %u len %u code %u",
                             ci, ns[ni], len, code);
                    small_scope_one(&configs[ci], ns[ni], seq, len);
                }
            }
        }
    }
}

/* ------------------------------------------------------------------ */
/* part 2: every stage of a long rehash                                */

static void stages(void)
{
    static const size_t counts[][2] = {
        { 4, 16 }, { 16, 4 }, { 7, 23 }, { 23, 7 }, { 1, 32 }, { 32, 1 },
        { 16, 17 }, { 17, 16 }, { 12, 12 },
    };
    unsigned int ci, fi, fj, kind;

    for (ci = 0; ci < sizeof(counts) / sizeof(counts[0]); ci++) {
        for (fi = 0; fi < NHFUNCS; fi++) {
            for (fj = 0; fj < NHFUNCS; fj++) {
                for (kind = 0; kind < 4; kind++) {
                    unsigned int steps, i;

                    if (counts[ci][0] == counts[ci][1] && fi == fj) {
                        continue;
                    }

                    for (steps = 0; steps < 40; steps += 1 + steps / 8) {
                        snprintf(g_where, sizeof(g_where),
                                 "stages %u %u %u kind %u steps %u",
                                 ci, fi, fj, kind, steps);

                        world_reset();
                        t_resize(0, counts[ci][0], hfuncs[fi]);
                        t_resize(1, 3, cstl_hash_div);
                        for (i = 0; i < 30; i++) {
                            t_insert(0, i, (i * 7) % 64);
                            if (i % 3 == 0) {
                                t_insert(1, i, i);
                            }
                        }
                        t_resize(0, counts[ci][1], hfuncs[fj]);
                        t_resize(1, 11, NULL);
                        for (i = 0; i < steps; i++) {
                            switch ((i + kind) % 3) {
                            case 0:
                                t_find(0, (i * 5) % 64);
                                break;
                            case 1:
                                t_erase(0, i % 30);
                                verify(0, 1);
                                t_insert(0, i % 30, 100 + i);
                                break;
                            default:
                                t_find(0, 500 + i);
                                break;
                            }
                            verify(0, i % 2);
                        }

                        verify(0, 1);
                        verify_stop_const(0, 1 + steps % 30, 42);
                        switch (kind) {
                        case 0:
                            do_foreach(0, 1, 3, 1, 1);
                            verify(0, 1);
                            verify(1, 1);
                            break;
                        case 1:
                            do_clear(0, 1, 1);
                            verify(1, 0);
                            t_resize(0, 5, NULL);
                            verify(0, 1);
                            t_insert(0, 0, 0);
                            t_insert(0, 39, 0);
                            verify(0, 1);
                            break;
                        case 2:
                            do_failed_resize(0);
                            verify(0, 0);
                            do_foreach_stop(0, 1 + steps % 31, 5, 2, 0);
                            verify(0, 0);
                            break;
                        default:
                            cstl_hash_swap(&H[0], &H[1]);
                            slot[0] = 1;
                            slot[1] = 0;
                            verify(0, 1);
                            verify(1, 1);
                            do_clear(1, 1, 1);
                            verify(0, 0);
                            do_clear(0, 1, 1);
                            CHECK(m_size[0] == 0 && m_size[1] == 0);
                            break;
                        }
                    }
                }
            }
        }
    }
}

/* ------------------------------------------------------------------ */
/* part 3: seeded random histories over both tables                    */

static void random_history(const unsigned int seed, const unsigned int nops)
{
    unsigned int op;
    const size_t keyrange = (seed % 3 == 0) ? 8 : ((seed % 3 == 1) ? 64 : 4096);
    const size_t maxcount = (seed % 5 == 0) ? 3 : ((seed % 5 == 1) ? 64 : 17);

    rng_state = 0x9e3779b97f4a7c15ull ^ ((uint64_t)seed * 0x2545f4914f6cdd1dull);
    if (rng_state == 0) {
        rng_state = 1;
    }

    world_reset();

    for (op = 0; op < nops; op++) {
        const int t = rnd_n(2);
        unsigned int what = rnd_n(100);
        int i;

        snprintf(g_where, sizeof(g_where), "random seed %u op %u", seed, op);

        if (!m_ready[t]) {
            if (rnd_n(4) == 0) {
                /* clear of an initialised/cleared table */
                do_clear(t, rnd_n(2), 0);
            } else {
                t_resize(t, 1 + rnd_n(maxcount),
                         rnd_n(3) ? hfuncs[rnd_n(NHFUNCS)] : NULL);
            }
            verify(t, 0);
            continue;
        }

        if (what < 30) {
            i = rnd_n(NPOOL);
            if (!m_in[t][i]) {
                t_insert(t, i, rnd_n(keyrange));
            } else {
                t_erase(t, i);
            }
        } else if (what < 40) {
            i = rnd_n(NPOOL);
            if (m_in[t][i]) {
                t_erase(t, i);
            }
        } else if (what < 55) {
            i = rnd_n(NPOOL);
            t_find(t, m_in[t][i] ? m_key[t][i] : rnd_n(keyrange));
        } else if (what < 67) {
            t_resize(t, 1 + rnd_n(maxcount),
                     rnd_n(2) ? hfuncs[rnd_n(NHFUNCS)] : NULL);
        } else if (what < 70) {
            cstl_hash_rehash(tab(t));
        } else if (what < 73) {
            cstl_hash_shrink_to_fit(tab(t));
        } else if (what < 78) {
            do_foreach(t, rnd_n(2), 0, 0, 0);
        } else if (what < 83) {
            do_foreach_stop(t, rnd_n(m_size[t] + 2), 1 + rnd_n(1000),
                            rnd_n(4), 0);
        } else if (what < 88) {
            const int mod = 1 + rnd_n(4);
            do_foreach(t, rnd_n(2), mod, rnd_n(mod), rnd_n(2));
        } else if (what < 91) {
            do_clear(t, rnd_n(4) != 0, rnd_n(2));
        } else if (what < 94) {
            cstl_hash_swap(&H[0], &H[1]);
            i = slot[0];
            slot[0] = slot[1];
            slot[1] = i;
        } else if (what < 96) {
            do_failed_resize(t);
        } else {
            verify_stop_const(t, rnd_n(m_size[t] + 2), -1 - (int)rnd_n(50));
        }

        verify(0, rnd_n(4) == 0);
        verify(1, rnd_n(4) == 0);
    }

    do_clear(0, 1, 0);
    do_clear(1, 1, 0);
}

/* ------------------------------------------------------------------ */
/* part 4: heap elements of another type, freed from the callbacks     */

struct melem
{
    struct cstl_hash_node hn;
    double weight;
    int id;
};

#define NHEAP 64
static int h_state[NHEAP]; /* 0: none, 1: live, 2: freed */
static size_t h_calls;
static struct cstl_hash * h_tab;
static int h_mod, h_rem;

static int free_visit(void * const p, void * const priv)
{
    struct melem * const e = p;

    CHECK(priv == (void *)&h_calls);
    CHECK(e->id >= 0 && e->id < NHEAP);
    CHECK(h_state[e->id] == 1);
    h_calls++;

    if (e->id % h_mod == h_rem) {
        cstl_hash_erase(h_tab, e);
        h_state[e->id] = 2;
        memset(e, 0xee, sizeof(*e));
        free(e);
    } else {
        /* visited, must not come again */
        h_state[e->id] = 3;
    }
    return 0;
}

static void free_clear(void * const p, void * const priv)
{
    struct melem * const e = p;

    (void)priv;
    CHECK(e->id >= 0 && e->id < NHEAP);
    CHECK(h_state[e->id] == 1);
    h_calls++;
    h_state[e->id] = 2;
    memset(e, 0xee, sizeof(*e));
    free(e);
}

static void heap_elements(void)
{
    static const size_t counts[][2] = {
        { 1, 9 }, { 9, 1 }, { 5, 6 }, { 6, 5 }, { 8, 32 }, { 32, 8 }, { 3, 3 },
    };
    unsigned int ci, n, steps, mod;

    for (ci = 0; ci < sizeof(counts) / sizeof(counts[0]); ci++) {
        for (n = 0; n <= NHEAP; n += 1 + n / 3) {
            for (steps = 0; steps < 36; steps += 1 + steps / 4) {
                for (mod = 1; mod <= 3; mod++) {
                    DECLARE_CSTL_HASH(h, struct melem, hn);
                    unsigned int i, live = 0, expect;

                    snprintf(g_where, sizeof(g_where),
                             "heap %u n %u steps %u mod %u",
                             ci, n, steps, mod);

                    memset(h_state, 0, sizeof(h_state));
                    /* no hash function given: the default one */
                    cstl_hash_resize(&h, counts[ci][0], NULL);
                    for (i = 0; i < n; i++) {
                        struct melem * const e = malloc(sizeof(*e));
                        CHECK(e != NULL);
                        e->id = i;
                        e->weight = i;
                        cstl_hash_insert(&h, i / 2, e);
                        h_state[i] = 1;
                    }
                    cstl_hash_resize(&h, counts[ci][1],
                                     (ci % 2) ? h_rev : cstl_hash_div);
                    for (i = 0; i < steps; i++) {
                        struct melem * const e =
                            cstl_hash_find(&h, i, NULL, NULL);
                        CHECK((e != NULL) == (2 * i < n));
                    }

                    h_tab = &h;
                    h_mod = mod;
                    h_rem = mod - 1;
                    h_calls = 0;
                    CHECK(cstl_hash_foreach(&h, free_visit, &h_calls) == 0);
                    CHECK(h_calls == n);
                    for (i = 0; i < n; i++) {
                        CHECK(h_state[i] == 2 || h_state[i] == 3);
                        if (h_state[i] == 3) {
                            h_state[i] = 1;
                            live++;
                        }
                    }
                    CHECK(cstl_hash_size(&h) == live);

                    /* shrink or grow again and clear in the middle of it */
                    cstl_hash_resize(&h, counts[ci][0] + (steps % 3),
                                     cstl_hash_div);
                    for (i = 0; i < steps / 2; i++) {
                        cstl_hash_find(&h, i, NULL, NULL);
                    }
                    expect = live;
                    h_calls = 0;
                    cstl_hash_clear(&h, free_clear);
                    CHECK(h_calls == expect);
                    CHECK(cstl_hash_size(&h) == 0);
                    for (i = 0; i < n; i++) {
                        CHECK(h_state[i] == 2);
                    }

                    /* reusable after a fresh resize */
                    cstl_hash_resize(&h, 2, NULL);
                    {
                        struct melem * const e = malloc(sizeof(*e));
                        CHECK(e != NULL);
                        e->id = 0;
                        h_state[0] = 1;
                        cstl_hash_insert(&h, 77, e);
                        CHECK(cstl_hash_find(&h, 77, NULL, NULL) == e);
                        h_calls = 0;
                        cstl_hash_clear(&h, free_clear);
                        CHECK(h_calls == 1);
                    }
                }
            }
        }
    }
}

int main(void)
{
    unsigned int seed;

    world_init();

    small_scope();
    stages();
    for (seed = 1; seed <= 300; seed++) {
        random_history(seed, 1200);
    }
    heap_elements();

    world_reset();
    printf("C04 ok\n");
    return 0;
}
