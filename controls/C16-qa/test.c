/*
 * C16 / a: vector growth under allocation failure.
 *
 * The allocator is wrapped (ld --wrap) so that any chosen subset of the
 * library's allocations can be made to fail. A script of vector operations
 * is run in a child process for every single failing allocation, every
 * failing suffix and every failing pair. For each run the only acceptable
 * outcomes are
 *   - the script runs to the end, every step leaving the documented state
 *     (reserve/shrink may quietly do nothing, contents always preserved)
 *     and no allocation is live at the end, or
 *   - a growing resize aborts while at least one allocation failed in it.
 * Nothing depends on how many allocations an operation performs, on the
 * capacity chosen by a growing resize beyond "at least what was asked", or
 * on addresses.
 */
#include "cstl/vector.h"

#include <stdio.h>
#include <stdlib.h>
#include <string.h>
#include <signal.h>
#include <unistd.h>
#include <sys/wait.h>

void * __real_malloc(size_t);
void * __real_realloc(void *, size_t);
void * __real_calloc(size_t, size_t);
void __real_free(void *);

#define MAXALLOC 64
static int armed;
static unsigned long nalloc;            /* allocations seen while armed */
static unsigned char failmask[MAXALLOC];
static int fail_from = -1;              /* fail everything from here on */
static unsigned long op_failures;       /* failures during the current op */
static long live;                       /* live blocks */

static int should_fail(void)
{
    int f = 0;
    if (armed) {
        const unsigned long k = nalloc++;
        if ((k < MAXALLOC && failmask[k])
            || (fail_from >= 0 && k >= (unsigned long)fail_from)) {
            f = 1;
            op_failures++;
        }
    }
    return f;
}

void * __wrap_malloc(size_t n)
{
    void * p;
    if (should_fail()) {
        return NULL;
    }
    p = __real_malloc(n);
    if (p != NULL) {
        live++;
    }
    return p;
}

void * __wrap_calloc(size_t a, size_t b)
{
    void * p;
    if (should_fail()) {
        return NULL;
    }
    p = __real_calloc(a, b);
    if (p != NULL) {
        live++;
    }
    return p;
}

void * __wrap_realloc(void * o, size_t n)
{
    void * p;
    if (should_fail()) {
        return NULL;
    }
    p = __real_realloc(o, n);
    if (p != NULL && o == NULL) {
        live++;
    } else if (p == NULL && o != NULL && n == 0) {
        live--;
    }
    return p;
}

void __wrap_free(void * p)
{
    if (p != NULL) {
        live--;
    }
    __real_free(p);
}

#define CHECK(X) do { if (!(X)) { \
    fprintf(stderr, "FAIL %s:%d: %s\n", __FILE__, __LINE__, #X); \
    _exit(1); } } while (0)

static int in_growth;

static void on_abort(int sig)
{
    (void)sig;
    /* an abort is legitimate only in a growing resize that saw a failure */
    _exit((in_growth && op_failures > 0) ? 42 : 43);
}

static void check_contents(struct cstl_vector * const v, const size_t n)
{
    size_t i;
    CHECK(cstl_vector_size(v) >= n);
    CHECK(cstl_vector_capacity(v) >= cstl_vector_size(v));
    for (i = 0; i < n; i++) {
        CHECK(*(int *)cstl_vector_at(v, i) == (int)(1000 + i));
    }
}

static void grow(struct cstl_vector * const v, const size_t old,
                 const size_t sz)
{
    size_t i;

    op_failures = 0;
    in_growth = 1;
    cstl_vector_resize(v, sz);
    in_growth = 0;

    CHECK(cstl_vector_size(v) == sz);
    CHECK(cstl_vector_capacity(v) >= sz);
    check_contents(v, old);
    for (i = old; i < sz; i++) {
        *(int *)cstl_vector_at(v, i) = (int)(1000 + i);
    }
    /* the whole capacity must really be usable storage */
    memset((char *)cstl_vector_data(v) + sz * sizeof(int), 0x5a,
           (cstl_vector_capacity(v) - sz) * sizeof(int));
    check_contents(v, sz);
}

static void script(void)
{
    DECLARE_CSTL_VECTOR(v, int);
    size_t cap;

    armed = 1;

    grow(&v, 0, 3);
    grow(&v, 3, 5);
    grow(&v, 5, 6);

    /* reserve: quietly does nothing on failure */
    cap = cstl_vector_capacity(&v);
    op_failures = 0;
    cstl_vector_reserve(&v, 40);
    CHECK(cstl_vector_size(&v) == 6);
    if (op_failures == 0) {
        CHECK(cstl_vector_capacity(&v) >= 40);
    } else {
        CHECK(cstl_vector_capacity(&v) >= cap);
    }
    check_contents(&v, 6);

    grow(&v, 6, 9);

    /* shrinking resize never allocates and never fails */
    op_failures = 0;
    cap = cstl_vector_capacity(&v);
    cstl_vector_resize(&v, 4);
    CHECK(op_failures == 0);
    CHECK(cstl_vector_size(&v) == 4);
    CHECK(cstl_vector_capacity(&v) == cap);
    check_contents(&v, 4);

    /* shrink_to_fit: quietly does nothing on failure */
    op_failures = 0;
    cstl_vector_shrink_to_fit(&v);
    CHECK(cstl_vector_size(&v) == 4);
    if (op_failures == 0) {
        CHECK(cstl_vector_capacity(&v) == 4);
    } else {
        CHECK(cstl_vector_capacity(&v) >= 4);
        CHECK(cstl_vector_capacity(&v) <= cap);
    }
    check_contents(&v, 4);

    grow(&v, 4, 5);
    grow(&v, 5, 21);
    grow(&v, 21, 22);

    /* sort and reverse use the hidden scratch slot past the capacity */
    cstl_vector_reverse(&v);
    CHECK(*(int *)cstl_vector_at(&v, 0) == 1021);
    cstl_vector_reverse(&v);
    check_contents(&v, 22);

    cstl_vector_clear(&v);
    CHECK(cstl_vector_size(&v) == 0);
    CHECK(cstl_vector_capacity(&v) == 0);

    armed = 0;
    CHECK(live == 0);
}

static unsigned long run(unsigned long * const aborted)
{
    const pid_t pid = fork();
    int st;

    if (pid == 0) {
        signal(SIGABRT, on_abort);
        script();
        /* tell the parent how many allocations there were */
        _exit(nalloc < 40 ? (int)nalloc : 40);
    }
    if (pid < 0 || waitpid(pid, &st, 0) != pid || !WIFEXITED(st)) {
        fprintf(stderr, "FAIL: child did not exit normally\n");
        exit(1);
    }
    if (WEXITSTATUS(st) == 42) {
        (*aborted)++;
        return 0;
    }
    if (WEXITSTATUS(st) == 1 || WEXITSTATUS(st) == 43) {
        fprintf(stderr, "FAIL: child status %d\n", WEXITSTATUS(st));
        exit(1);
    }
    return WEXITSTATUS(st);
}

int main(void)
{
    unsigned long n, i, j, runs = 0, aborted = 0;

    n = run(&aborted);
    if (n == 0 || n >= 40) {
        fprintf(stderr, "FAIL: unexpected allocation count %lu\n", n);
        return 1;
    }
    /* allow for plans that lengthen the run (extra attempts) */
    n += 8;

    for (i = 0; i < n; i++) {
        failmask[i] = 1;
        run(&aborted); runs++;
        for (j = i + 1; j < n; j++) {
            failmask[j] = 1;
            run(&aborted); runs++;
            failmask[j] = 0;
        }
        failmask[i] = 0;

        fail_from = (int)i;
        run(&aborted); runs++;
        fail_from = -1;
    }

    printf("ok: %lu failure plans, %lu ended in the documented abort\n",
           runs, aborted);
    return 0;
}
