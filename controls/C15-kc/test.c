/*
 * C15 negative control (c): exercising test.
 *
 * build + run (from the worktree root):
 *   make build && gcc -std=c99 -D_POSIX_C_SOURCE=199309L -Wall -Iinclude -o _keep/c/test _keep/c/test.c build/libcstl.a -lm && ./_keep/c/test
 *
 * For the binary tree, the red-black tree, the heap, the doubly- and the
 * singly-linked list and the map, every container state of a small scope is
 * built (all insertion orders of up to 6 keys, i.e. all tree shapes; trees
 * after erasures; duplicate keys; heaps of 0..12 elements; lists of 0..7
 * elements; all subsets of 6 map keys) and then cleared with a callback that
 * counts the call and poisons the whole element (as if it had been freed and
 * its memory reused). Checked through the public API only:
 *  - the callback runs exactly once for every contained element, with the
 *    expected private pointer, and for nothing else,
 *  - no poisoned element is written afterwards (the poison is intact at the
 *    very end) and none is followed (a poisoned link is a wild pointer),
 *  - the container has size 0, is empty, and behaves like a freshly
 *    initialised one when filled again (and cleared again).
 * The order of the callbacks is deliberately NOT checked: it is unspecified.
 * Exit status 0 on success.
 */
#include <stdio.h>
#include <stdlib.h>
#include <string.h>
#include <stddef.h>

#include "cstl/bintree.h"
#include "cstl/rbtree.h"
#include "cstl/heap.h"
#include "cstl/dlist.h"
#include "cstl/slist.h"
#include "cstl/map.h"

static unsigned long fails;
#define CHECK(C)                                                        \
    do {                                                                \
        if (!(C)) {                                                     \
            fails++;                                                    \
            if (fails < 20) {                                           \
                fprintf(stderr, "%s:%d: check failed: %s\n",            \
                        __FILE__, __LINE__, #C);                        \
            }                                                           \
        }                                                               \
    } while (0)

struct elem
{
    int key;
    struct cstl_bintree_node bn;
    struct cstl_rbtree_node rn;
    struct cstl_heap_node hn;
    struct cstl_dlist_node dn;
    struct cstl_slist_node sn;
    int pad;
};

#define POOL    64
#define POISON  0xa5
static struct elem pool[POOL];
static size_t pool_used;
static int calls[POOL];         /* callbacks seen per element */
static int inside[POOL];        /* element currently is in the container */
static int handed[POOL];        /* element was handed over and poisoned */
static size_t total_calls;
static void * expect_priv;

static struct elem * new_elem(const int key)
{
    struct elem * const e = &pool[pool_used];
    if (pool_used == POOL) {
        fprintf(stderr, "pool exhausted\n");
        exit(2);
    }
    memset(e, 0x11, sizeof(*e));
    e->key = key;
    calls[pool_used] = 0;
    inside[pool_used] = 1;
    handed[pool_used] = 0;
    pool_used++;
    return e;
}

static void left(const struct elem * const e)
{
    inside[e - pool] = 0;
}

static void pool_reset(void)
{
    pool_used = 0;
    total_calls = 0;
}

static int is_poisoned(const struct elem * const e)
{
    const unsigned char * const c = (const void *)e;
    size_t i;
    for (i = 0; i < sizeof(*e); i++) {
        if (c[i] != POISON) {
            return 0;
        }
    }
    return 1;
}

/* the caller's clear callback: take ownership, "free" and reuse the memory */
static void hand_over(struct elem * const e)
{
    const ptrdiff_t id = e - pool;
    total_calls++;
    if (id < 0 || (size_t)id >= pool_used || e != &pool[id]) {
        CHECK(!"callback for something that is not an element");
        return;
    }
    calls[id]++;
    memset(e, POISON, sizeof(*e));
}

static void clr_elem(void * const e, void * const priv)
{
    CHECK(priv == expect_priv);
    hand_over(e);
}

/* after a clear: exactly the contained elements were handed over, once */
static void check_handed_over(void)
{
    size_t i, want = 0;
    for (i = 0; i < pool_used; i++) {
        CHECK(calls[i] == (inside[i] ? 1 : 0));
        want += inside[i] ? 1 : 0;
        if (inside[i]) {
            CHECK(is_poisoned(&pool[i]));
            inside[i] = 0;
            handed[i] = 1;
            calls[i] = 0;       /* accounted for; must stay at 0 from now */
        }
    }
    CHECK(total_calls == want);
    total_calls = 0;
}

/* at the very end of a scenario: nothing was written or handed over again */
static void check_untouched(void)
{
    size_t i;
    for (i = 0; i < pool_used; i++) {
        CHECK(calls[i] == 0);
        CHECK(inside[i] == 0);
        if (handed[i]) {
            CHECK(is_poisoned(&pool[i]));
        }
    }
    CHECK(total_calls == 0);
}

static int key_cmp(const void * const a, const void * const b, void * const p)
{
    (void)p;
    return ((const struct elem *)a)->key - ((const struct elem *)b)->key;
}

/* in-order traversal collector for the trees */
struct inorder
{
    int keys[POOL];
    size_t n;
};

static int inorder_visit(const void * const e,
                         const cstl_bintree_visit_order_t ord,
                         void * const p)
{
    if (ord == CSTL_BINTREE_VISIT_ORDER_MID
        || ord == CSTL_BINTREE_VISIT_ORDER_LEAF) {
        struct inorder * const io = p;
        io->keys[io->n++] = ((const struct elem *)e)->key;
    }
    return 0;
}

/* ---------- binary tree ---------- */
static void bintree_refill_and_clear(struct cstl_bintree * const bt)
{
    static const int fresh[] = { 4, 2, 6, 1, 3, 5, 7, 4 };
    struct inorder io;
    struct elem probe;
    size_t i;

    CHECK(cstl_bintree_size(bt) == 0);
    probe.key = 4;
    CHECK(cstl_bintree_find(bt, &probe, NULL) == NULL);
    io.n = 0;
    cstl_bintree_foreach(bt, inorder_visit, &io, CSTL_BINTREE_FOREACH_DIR_FWD);
    CHECK(io.n == 0);

    for (i = 0; i < sizeof(fresh) / sizeof(*fresh); i++) {
        cstl_bintree_insert(bt, new_elem(fresh[i]), NULL);
    }
    CHECK(cstl_bintree_size(bt) == 8);
    io.n = 0;
    cstl_bintree_foreach(bt, inorder_visit, &io, CSTL_BINTREE_FOREACH_DIR_FWD);
    CHECK(io.n == 8);
    for (i = 1; i < io.n; i++) {
        CHECK(io.keys[i - 1] <= io.keys[i]);
    }
    CHECK(cstl_bintree_find(bt, &probe, NULL) != NULL);

    cstl_bintree_clear(bt, clr_elem, expect_priv);
    check_handed_over();
    CHECK(cstl_bintree_size(bt) == 0);
    CHECK(cstl_bintree_find(bt, &probe, NULL) == NULL);
}

static void bintree_case(const int * const keys, const size_t n,
                         const unsigned erase_mask)
{
    struct cstl_bintree bt;
    struct elem * e[8];
    int priv;
    size_t i;

    pool_reset();
    expect_priv = &priv;
    cstl_bintree_init(&bt, key_cmp, NULL, offsetof(struct elem, bn));

    for (i = 0; i < n; i++) {
        e[i] = new_elem(keys[i]);
        cstl_bintree_insert(&bt, e[i], NULL);
    }
    for (i = 0; i < n; i++) {
        if (erase_mask & (1u << i)) {
            /* duplicates: whichever equal element comes back has left */
            struct elem * const got = cstl_bintree_erase(&bt, e[i]);
            CHECK(got != NULL && got->key == e[i]->key);
            if (got != NULL) {
                left(got);
            }
        }
    }

    cstl_bintree_clear(&bt, clr_elem, &priv);
    check_handed_over();
    bintree_refill_and_clear(&bt);
    check_untouched();
}

/* ---------- red-black tree ---------- */
static void rbtree_case(const int * const keys, const size_t n,
                        const unsigned erase_mask)
{
    static const int fresh[] = { 1, 2, 3, 4, 5, 6, 7, 8, 9 };
    struct cstl_rbtree t;
    struct elem * e[16];
    struct inorder io;
    size_t i, mn, mx;

    pool_reset();
    expect_priv = &io;
    cstl_rbtree_init(&t, key_cmp, NULL, offsetof(struct elem, rn));

    for (i = 0; i < n; i++) {
        e[i] = new_elem(keys[i]);
        cstl_rbtree_insert(&t, e[i], NULL);
    }
    for (i = 0; i < n; i++) {
        if (erase_mask & (1u << i)) {
            struct elem * const got = cstl_rbtree_erase(&t, e[i]);
            CHECK(got != NULL && got->key == e[i]->key);
            if (got != NULL) {
                left(got);
            }
        }
    }

    cstl_rbtree_clear(&t, clr_elem, &io);
    check_handed_over();
    CHECK(cstl_rbtree_size(&t) == 0);
    cstl_rbtree_height(&t, &mn, &mx);
    CHECK(mx == 0);

    /* usable like a fresh one: ascending fill must come out balanced */
    for (i = 0; i < sizeof(fresh) / sizeof(*fresh); i++) {
        cstl_rbtree_insert(&t, new_elem(fresh[i]), NULL);
    }
    CHECK(cstl_rbtree_size(&t) == 9);
    io.n = 0;
    cstl_rbtree_foreach(&t, inorder_visit, &io, CSTL_BINTREE_FOREACH_DIR_FWD);
    CHECK(io.n == 9);
    for (i = 0; i < io.n; i++) {
        CHECK(io.keys[i] == (int)i + 1);
    }
    cstl_rbtree_height(&t, &mn, &mx);
    CHECK(mn >= 1 && mx <= 6);

    cstl_rbtree_clear(&t, clr_elem, &io);
    check_handed_over();
    CHECK(cstl_rbtree_size(&t) == 0);
    check_untouched();
}

/* ---------- heap ---------- */
static void heap_case(const int * const keys, const size_t n,
                      const size_t pops)
{
    struct cstl_heap h;
    size_t i;
    int last;

    pool_reset();
    expect_priv = NULL;         /* cstl_heap_clear has no private pointer */
    cstl_heap_init(&h, key_cmp, NULL, offsetof(struct elem, hn));

    for (i = 0; i < n; i++) {
        cstl_heap_push(&h, new_elem(keys[i]));
    }
    for (i = 0; i < pops && i < n; i++) {
        struct elem * const got = cstl_heap_pop(&h);
        CHECK(got != NULL);
        if (got != NULL) {
            left(got);
        }
    }

    cstl_heap_clear(&h, clr_elem);
    check_handed_over();
    CHECK(cstl_heap_size(&h) == 0);
    CHECK(cstl_heap_get(&h) == NULL);
    CHECK(cstl_heap_pop(&h) == NULL);

    for (i = 0; i < 11; i++) {
        cstl_heap_push(&h, new_elem((int)((i * 7) % 11)));
    }
    CHECK(cstl_heap_size(&h) == 11);
    last = 100;
    for (i = 0; i < 5; i++) {
        struct elem * const got = cstl_heap_pop(&h);
        CHECK(got != NULL && got->key <= last);
        if (got != NULL) {
            last = got->key;
            left(got);
        }
    }
    CHECK(last == 6);
    cstl_heap_clear(&h, clr_elem);
    check_handed_over();
    CHECK(cstl_heap_size(&h) == 0);
    CHECK(cstl_heap_get(&h) == NULL);
    check_untouched();
}

/* ---------- lists ---------- */
struct seq
{
    const struct elem * e[POOL];
    size_t n;
};

static int seq_visit(void * const e, void * const p)
{
    struct seq * const s = p;
    s->e[s->n++] = e;
    return 0;
}

static void dlist_case(const size_t n, const unsigned shape)
{
    struct cstl_dlist l;
    struct elem * fresh[3];
    struct seq s;
    size_t i;

    pool_reset();
    expect_priv = NULL;
    cstl_dlist_init(&l, offsetof(struct elem, dn));

    for (i = 0; i < n; i++) {
        if (shape & (1u << i)) {
            cstl_dlist_push_front(&l, new_elem((int)i));
        } else {
            cstl_dlist_push_back(&l, new_elem((int)i));
        }
    }
    if ((shape & 0x100) && n > 0) {
        left(cstl_dlist_pop_back(&l));
    }
    if ((shape & 0x200) && n > 1) {
        cstl_dlist_reverse(&l);
    }

    cstl_dlist_clear(&l, clr_elem);
    check_handed_over();

    CHECK(cstl_dlist_size(&l) == 0);
    CHECK(cstl_dlist_front(&l) == NULL && cstl_dlist_back(&l) == NULL);
    CHECK(cstl_dlist_pop_front(&l) == NULL);
    CHECK(cstl_dlist_pop_back(&l) == NULL);
    s.n = 0;
    cstl_dlist_foreach(&l, seq_visit, &s, CSTL_DLIST_FOREACH_DIR_FWD);
    cstl_dlist_foreach(&l, seq_visit, &s, CSTL_DLIST_FOREACH_DIR_REV);
    CHECK(s.n == 0);

    fresh[1] = new_elem(1); cstl_dlist_push_back(&l, fresh[1]);
    fresh[0] = new_elem(0); cstl_dlist_push_front(&l, fresh[0]);
    fresh[2] = new_elem(2); cstl_dlist_push_back(&l, fresh[2]);
    CHECK(cstl_dlist_size(&l) == 3);
    s.n = 0;
    cstl_dlist_foreach(&l, seq_visit, &s, CSTL_DLIST_FOREACH_DIR_FWD);
    CHECK(s.n == 3 && s.e[0] == fresh[0] && s.e[1] == fresh[1]
          && s.e[2] == fresh[2]);
    s.n = 0;
    cstl_dlist_foreach(&l, seq_visit, &s, CSTL_DLIST_FOREACH_DIR_REV);
    CHECK(s.n == 3 && s.e[0] == fresh[2] && s.e[1] == fresh[1]
          && s.e[2] == fresh[0]);

    cstl_dlist_clear(&l, clr_elem);
    check_handed_over();
    CHECK(cstl_dlist_size(&l) == 0);
    CHECK(cstl_dlist_front(&l) == NULL && cstl_dlist_back(&l) == NULL);
    check_untouched();
}

static void slist_case(const size_t n, const unsigned shape)
{
    struct cstl_slist l;
    struct elem * fresh[3];
    struct seq s;
    size_t i;

    pool_reset();
    expect_priv = NULL;
    cstl_slist_init(&l, offsetof(struct elem, sn));

    for (i = 0; i < n; i++) {
        if (shape & (1u << i)) {
            cstl_slist_push_front(&l, new_elem((int)i));
        } else {
            cstl_slist_push_back(&l, new_elem((int)i));
        }
    }
    if ((shape & 0x100) && n > 0) {
        left(cstl_slist_pop_front(&l));
    }
    if ((shape & 0x200) && n > 1) {
        cstl_slist_reverse(&l);
    }

    cstl_slist_clear(&l, clr_elem);
    check_handed_over();

    CHECK(cstl_slist_size(&l) == 0);
    CHECK(cstl_slist_front(&l) == NULL && cstl_slist_back(&l) == NULL);
    CHECK(cstl_slist_pop_front(&l) == NULL);
    s.n = 0;
    cstl_slist_foreach(&l, seq_visit, &s);
    CHECK(s.n == 0);

    /* push_back first: the tail of a cleared list must be its head */
    fresh[1] = new_elem(1); cstl_slist_push_back(&l, fresh[1]);
    fresh[0] = new_elem(0); cstl_slist_push_front(&l, fresh[0]);
    fresh[2] = new_elem(2); cstl_slist_push_back(&l, fresh[2]);
    CHECK(cstl_slist_size(&l) == 3);
    CHECK(cstl_slist_front(&l) == fresh[0] && cstl_slist_back(&l) == fresh[2]);
    s.n = 0;
    cstl_slist_foreach(&l, seq_visit, &s);
    CHECK(s.n == 3 && s.e[0] == fresh[0] && s.e[1] == fresh[1]
          && s.e[2] == fresh[2]);

    cstl_slist_clear(&l, clr_elem);
    check_handed_over();
    CHECK(cstl_slist_size(&l) == 0);
    CHECK(cstl_slist_front(&l) == NULL && cstl_slist_back(&l) == NULL);
    check_untouched();
}

/* ---------- map ---------- */
/* keys and values are both pool elements; the value of key k is k + 100 */
static void map_clr(void * const it, void * const priv)
{
    const cstl_map_iterator_t * const i = it;
    struct elem * const k = (struct elem *)i->key;
    struct elem * const v = i->val;

    CHECK(priv == expect_priv);
    CHECK(v->key == k->key + 100);
    hand_over(k);
    hand_over(v);
}

static void map_case(const unsigned subset, const unsigned order,
                     const unsigned erase_mask)
{
    cstl_map_t m;
    cstl_map_iterator_t it;
    struct elem probe;
    int priv;
    unsigned i;

    pool_reset();
    expect_priv = &priv;
    cstl_map_init(&m, key_cmp, NULL);

    for (i = 0; i < 6; i++) {
        /* four different insertion orders of the keys 0..5 */
        const unsigned k = order == 0 ? i
                           : order == 1 ? 5 - i
                           : order == 2 ? (i * 5) % 6
                           : (i * 5 + 3) % 6;
        if (subset & (1u << k)) {
            struct elem * const ke = new_elem((int)k);
            struct elem * const ve = new_elem((int)k + 100);
            CHECK(cstl_map_insert(&m, ke, ve, NULL) == 0);
        }
    }
    for (i = 0; i < 6; i++) {
        if ((erase_mask & subset) & (1u << i)) {
            probe.key = (int)i;
            CHECK(cstl_map_erase(&m, &probe, &it) == 0);
            left(it.key);
            left(it.val);
        }
    }

    cstl_map_clear(&m, map_clr, &priv);
    check_handed_over();
    CHECK(cstl_map_size(&m) == 0);
    for (i = 0; i < 6; i++) {
        probe.key = (int)i;
        cstl_map_find(&m, &probe, &it);
        CHECK(cstl_map_iterator_eq(&it, cstl_map_iterator_end(&m)));
    }

    for (i = 0; i < 7; i++) {
        struct elem * const ke = new_elem((int)i);
        struct elem * const ve = new_elem((int)i + 100);
        CHECK(cstl_map_insert(&m, ke, ve, NULL) == 0);
    }
    CHECK(cstl_map_size(&m) == 7);
    probe.key = 3;
    CHECK(cstl_map_insert(&m, &probe, NULL, NULL) == 1);  /* already there */
    for (i = 0; i < 7; i++) {
        probe.key = (int)i;
        cstl_map_find(&m, &probe, &it);
        CHECK(!cstl_map_iterator_eq(&it, cstl_map_iterator_end(&m)));
        CHECK(((struct elem *)it.val)->key == (int)i + 100);
    }

    cstl_map_clear(&m, map_clr, &priv);
    check_handed_over();
    CHECK(cstl_map_size(&m) == 0);
    /* a clear without a callback is fine, too */
    cstl_map_clear(&m, NULL, NULL);
    check_untouched();
}

/* ---------- permutations ---------- */
static void permute(int * const a, const size_t n, const size_t k,
                    void (* const f)(const int *, size_t, unsigned),
                    const unsigned arg)
{
    size_t i;
    if (k == n) {
        f(a, n, arg);
        return;
    }
    for (i = k; i < n; i++) {
        int t = a[k]; a[k] = a[i]; a[i] = t;
        permute(a, n, k + 1, f, arg);
        t = a[k]; a[k] = a[i]; a[i] = t;
    }
}

static void heap_perm(const int * const keys, const size_t n,
                      const unsigned pops)
{
    heap_case(keys, n, pops);
}

int main(void)
{
    size_t n;
    unsigned m;

    /* all insertion orders of n distinct keys: every tree shape */
    for (n = 0; n <= 6; n++) {
        int keys[6] = { 1, 2, 3, 4, 5, 6 };
        permute(keys, n, 0, bintree_case, 0);
        permute(keys, n, 0, rbtree_case, 0);
    }
    /* trees that went through erasures, and trees with equal keys */
    for (n = 1; n <= 5; n++) {
        for (m = 1; m < (1u << n); m++) {
            int keys[5] = { 1, 2, 3, 4, 5 };
            int dups[5] = { 2, 1, 2, 2, 1 };
            permute(keys, n, 0, bintree_case, m);
            permute(keys, n, 0, rbtree_case, m);
            bintree_case(dups, n, m);
            rbtree_case(dups, n, m);
        }
    }
    {
        /* bigger red-black trees: sorted, reversed, zig-zag; with erasures */
        static const int up[] = { 1, 2, 3, 4, 5, 6, 7, 8, 9, 10, 11, 12, 13 };
        static const int dn[] = { 13, 12, 11, 10, 9, 8, 7, 6, 5, 4, 3, 2, 1 };
        static const int zz[] = { 1, 13, 2, 12, 3, 11, 4, 10, 5, 9, 6, 8, 7 };
        for (n = 7; n <= 13; n++) {
            for (m = 0; m < 64; m++) {
                const unsigned mask = (m * 0x9e5u) & ((1u << n) - 1);
                rbtree_case(up, n, mask);
                rbtree_case(dn, n, mask);
                rbtree_case(zz, n, mask);
                if (n <= 8) {
                    bintree_case(zz, n, mask);
                }
            }
        }
    }

    /* heaps */
    for (n = 0; n <= 5; n++) {
        int keys[5] = { 1, 2, 3, 4, 5 };
        for (m = 0; m <= n; m++) {
            permute(keys, n, 0, heap_perm, m);
        }
    }
    for (n = 6; n <= 12; n++) {
        static const int a[] = { 5, 3, 9, 1, 12, 7, 7, 2, 11, 4, 8, 6 };
        static const int b[] = { 1, 2, 3, 4, 5, 6, 7, 8, 9, 10, 11, 12 };
        static const int c[] = { 12, 11, 10, 9, 8, 7, 6, 5, 4, 3, 2, 1 };
        for (m = 0; m <= n; m++) {
            heap_case(a, n, m);
            heap_case(b, n, m);
            heap_case(c, n, m);
        }
    }

    /* lists */
    for (n = 0; n <= 7; n++) {
        for (m = 0; m < (1u << n); m++) {
            unsigned x;
            for (x = 0; x < 4; x++) {
                dlist_case(n, m | (x << 8));
                slist_case(n, m | (x << 8));
            }
        }
    }

    /* maps */
    for (m = 0; m < 64; m++) {
        unsigned o, er;
        for (o = 0; o < 4; o++) {
            for (er = 0; er < 64; er += 7) {
                map_case(m, o, er);
            }
        }
    }

    if (fails != 0) {
        fprintf(stderr, "FAILED: %lu checks\n", fails);
        return 1;
    }
    printf("ok\n");
    return 0;
}
