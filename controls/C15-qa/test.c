/*
 * C15 (change a: cstl_dlist_clear cuts the whole ring loose first and hands
 * the objects over back to front; see test_dlist()): clear hands over each
 * element exactly once and never touches it again.
 * Public API only (bintree, rbtree, heap, dlist, slist, map).
 *
 * Every element (and every map key and value) lives in a page of its own.
 * The clear callback checks that the element is one that is expected and has
 * not been handed over before, poisons it and then makes its page
 * inaccessible with mprotect(PROT_NONE): any later read or write of that
 * element by the library kills the test with SIGSEGV.  After every clear the
 * container must be empty and must work like a freshly initialised one, which
 * is proven by filling and checking it again (and clearing it once more).
 */
#include <stdio.h>
#include <stdlib.h>
#include <string.h>
#include <stdint.h>
#include <stddef.h>
#include <unistd.h>
#include <sys/mman.h>

#include "cstl/bintree.h"
#include "cstl/rbtree.h"
#include "cstl/heap.h"
#include "cstl/dlist.h"
#include "cstl/slist.h"
#include "cstl/map.h"

struct elem
{
    int key, tag;
    union
    {
        struct cstl_bintree_node bn;
        struct cstl_rbtree_node rn;
        struct cstl_heap_node hn;
        struct cstl_dlist_node dn;
        struct cstl_slist_node sn;
    } u;
    long pad;
};

#define NPAGES 96
static unsigned char * arena;
static size_t pagesz;
static int inuse[NPAGES], expected[NPAGES], given[NPAGES];
static unsigned long ncallbacks, nclears;

static int fails;
static const char * ctx = "";
#define CHECK(c, msg) do { if (!(c)) { if (fails++ < 25) \
    fprintf(stderr, "FAIL %s:%d [%s]: %s\n", __FILE__, __LINE__, ctx, msg); \
    } } while (0)

static struct elem * page_elem(int i) { return (struct elem *)(arena + (size_t)i * pagesz); }

static struct elem * new_elem(int key)
{
    int i;
    for (i = 0; i < NPAGES; i++) {
        if (!inuse[i]) {
            struct elem * e = page_elem(i);
            if (mprotect(e, pagesz, PROT_READ | PROT_WRITE) != 0) { perror("mprotect"); exit(2); }
            memset(e, 0xA5, sizeof(*e));
            e->key = key; e->tag = i;
            inuse[i] = 1; expected[i] = 1; given[i] = 0;
            return e;
        }
    }
    fprintf(stderr, "out of pages\n");
    exit(2);
}

/* the element leaves the container by other means than clear */
static void retire_elem(void * p)
{
    const int i = (int)(((unsigned char *)p - arena) / pagesz);
    expected[i] = 0; inuse[i] = 0;
}

/* hand-over: exactly once, for an expected element; then never again accessible */
static void hand_over(void * p)
{
    const size_t d = (size_t)((unsigned char *)p - arena);
    const int i = (int)(d / pagesz);
    ncallbacks++;
    if ((unsigned char *)p < arena || i >= NPAGES || d % pagesz != 0) {
        CHECK(0, "callback for something that is not an element");
        return;
    }
    CHECK(inuse[i] && expected[i] == 1, "callback for an element that is not in the container");
    CHECK(given[i] == 0, "callback twice for the same element");
    given[i]++;
    if (given[i] == 1 && inuse[i]) {
        CHECK(((struct elem *)p)->tag == i, "element was damaged before the hand-over");
        memset(p, 0xDD, sizeof(struct elem));
        if (mprotect(p, pagesz, PROT_NONE) != 0) { perror("mprotect"); exit(2); }
    }
}

static void on_clear(void * e, void * priv) { (void)priv; hand_over(e); }
static void * the_priv;
static void on_clear_priv(void * e, void * priv) { CHECK(priv == the_priv, "priv passed through"); hand_over(e); }

/* after a clear: everything expected was given exactly once; recycle the pages */
static void settle(void)
{
    int i;
    for (i = 0; i < NPAGES; i++) {
        if (inuse[i]) {
            CHECK(expected[i] == 1 && given[i] == 1, "element was not handed over exactly once");
            inuse[i] = 0; expected[i] = 0; given[i] = 0;
        }
    }
    nclears++;
}

static int cmp_elem(const void * a, const void * b, void * p)
{
    (void)p;
    return ((const struct elem *)a)->key - ((const struct elem *)b)->key;
}

static int next_perm(int * a, int n)
{
    int i = n - 2, j, t;
    while (i >= 0 && a[i] > a[i + 1]) { i--; }
    if (i < 0) { return 0; }
    for (j = n - 1; a[j] < a[i]; j--) { }
    t = a[i]; a[i] = a[j]; a[j] = t;
    for (i++, j = n - 1; i < j; i++, j--) { t = a[i]; a[i] = a[j]; a[j] = t; }
    return 1;
}

/* ---- in-order visitor shared by the trees ---- */
struct order { int last, count, bad; };
static int visit_sorted(const void * e, cstl_bintree_visit_order_t ord, void * p)
{
    struct order * o = p;
    if (ord == CSTL_BINTREE_VISIT_ORDER_MID || ord == CSTL_BINTREE_VISIT_ORDER_LEAF) {
        const int k = ((const struct elem *)e)->key;
        if (o->count > 0 && k < o->last) { o->bad = 1; }
        o->last = k; o->count++;
    }
    return 0;
}

/* ---- binary tree ---- */
static void bintree_refill_and_check(struct cstl_bintree * bt)
{
    static const int keys[] = { 40, 10, 60, 50, 20, 30 };
    struct order o = { 0, 0, 0 };
    struct elem probe;
    size_t i;
    CHECK(cstl_bintree_size(bt) == 0, "bintree: size 0 after clear");
    probe.key = 10;
    CHECK(cstl_bintree_find(bt, &probe, NULL) == NULL, "bintree: nothing to find after clear");
    CHECK(cstl_bintree_foreach(bt, visit_sorted, &o, CSTL_BINTREE_FOREACH_DIR_FWD) == 0 && o.count == 0,
          "bintree: nothing to visit after clear");
    CHECK(cstl_bintree_erase(bt, &probe) == NULL, "bintree: nothing to erase after clear");
    for (i = 0; i < sizeof(keys) / sizeof(*keys); i++) { cstl_bintree_insert(bt, new_elem(keys[i]), NULL); }
    CHECK(cstl_bintree_size(bt) == 6, "bintree: refill size");
    cstl_bintree_foreach(bt, visit_sorted, &o, CSTL_BINTREE_FOREACH_DIR_FWD);
    CHECK(o.count == 6 && !o.bad, "bintree: refill order");
    for (i = 0; i < sizeof(keys) / sizeof(*keys); i++) {
        probe.key = keys[i];
        CHECK(cstl_bintree_find(bt, &probe, NULL) != NULL, "bintree: refill find");
    }
    the_priv = &probe;
    cstl_bintree_clear(bt, on_clear_priv, the_priv);
    settle();
    CHECK(cstl_bintree_size(bt) == 0, "bintree: size 0 after second clear");
}

static void test_bintree(void)
{
    int n;
    ctx = "bintree";
    for (n = 0; n <= 6; n++) {
        int perm[8], i;
        for (i = 0; i < n; i++) { perm[i] = i; }
        do {
            struct cstl_bintree bt;
            cstl_bintree_init(&bt, cmp_elem, NULL, offsetof(struct elem, u.bn));
            for (i = 0; i < n; i++) { cstl_bintree_insert(&bt, new_elem(perm[i] * 2), NULL); }
            /* for some shapes, take one out first, or add a duplicate key */
            if (n >= 3 && (perm[0] + perm[1]) % 3 == 0) {
                struct elem probe; void * x;
                probe.key = perm[1] * 2;
                x = cstl_bintree_erase(&bt, &probe);
                CHECK(x != NULL, "bintree: erase");
                if (x != NULL) { retire_elem(x); }
            } else if (n >= 2 && perm[0] % 2 == 1) {
                cstl_bintree_insert(&bt, new_elem(perm[n - 1] * 2), NULL);
            }
            cstl_bintree_clear(&bt, on_clear, NULL);
            settle();
            bintree_refill_and_check(&bt);
        } while (next_perm(perm, n));
    }
    {
        DECLARE_CSTL_BINTREE(bt, struct elem, u.bn, cmp_elem, NULL);
        cstl_bintree_clear(&bt, on_clear, NULL);        /* never used */
        settle();
        bintree_refill_and_check(&bt);
    }
}

/* ---- red-black tree ---- */
static void rbtree_refill_and_check(struct cstl_rbtree * t)
{
    struct order o = { 0, 0, 0 };
    struct elem probe;
    size_t mn, mx;
    int i;
    CHECK(cstl_rbtree_size(t) == 0, "rbtree: size 0 after clear");
    probe.key = 3;
    CHECK(cstl_rbtree_find(t, &probe, NULL) == NULL, "rbtree: nothing to find after clear");
    CHECK(cstl_rbtree_erase(t, &probe) == NULL, "rbtree: nothing to erase after clear");
    for (i = 0; i < 9; i++) { cstl_rbtree_insert(t, new_elem((i * 5) % 9), NULL); }
    CHECK(cstl_rbtree_size(t) == 9, "rbtree: refill size");
    cstl_rbtree_foreach(t, visit_sorted, &o, CSTL_BINTREE_FOREACH_DIR_FWD);
    CHECK(o.count == 9 && !o.bad, "rbtree: refill order");
    cstl_rbtree_height(t, &mn, &mx);
    CHECK(mx <= 2 * mn && mx <= 5, "rbtree: refill balance");
    cstl_rbtree_clear(t, on_clear, NULL);
    settle();
    CHECK(cstl_rbtree_size(t) == 0, "rbtree: size 0 after second clear");
}

static void test_rbtree(void)
{
    int n;
    ctx = "rbtree";
    for (n = 0; n <= 7; n++) {
        int perm[8], i;
        for (i = 0; i < n; i++) { perm[i] = i; }
        do {
            struct cstl_rbtree t;
            cstl_rbtree_init(&t, cmp_elem, NULL, offsetof(struct elem, u.rn));
            for (i = 0; i < n; i++) { cstl_rbtree_insert(&t, new_elem(perm[i]), NULL); }
            if (n >= 4 && (perm[0] + perm[2]) % 4 == 1) {
                struct elem probe; void * x;
                probe.key = perm[(perm[1] + 1) % n];
                x = cstl_rbtree_erase(&t, &probe);
                CHECK(x != NULL, "rbtree: erase");
                if (x != NULL) { retire_elem(x); }
            }
            cstl_rbtree_clear(&t, on_clear, NULL);
            settle();
            if (n < 6 || perm[0] == 0) { rbtree_refill_and_check(&t); }
        } while (next_perm(perm, n));
    }
}

/* ---- heap ---- */
static void heap_refill_and_check(struct cstl_heap * h)
{
    int i, last = 1 << 30;
    CHECK(cstl_heap_size(h) == 0, "heap: size 0 after clear");
    CHECK(cstl_heap_get(h) == NULL && cstl_heap_pop(h) == NULL, "heap: nothing on top after clear");
    for (i = 0; i < 7; i++) { cstl_heap_push(h, new_elem((i * 3) % 7)); }
    CHECK(cstl_heap_size(h) == 7, "heap: refill size");
    for (i = 0; i < 3; i++) {
        struct elem * e = cstl_heap_pop(h);
        CHECK(e != NULL && e->key <= last, "heap: refill pop order");
        if (e != NULL) { last = e->key; retire_elem(e); }
    }
    cstl_heap_clear(h, on_clear);
    settle();
    CHECK(cstl_heap_size(h) == 0 && cstl_heap_get(h) == NULL, "heap: empty after second clear");
}

static void test_heap(void)
{
    int n, v;
    ctx = "heap";
    for (n = 0; n <= 16; n++) {
        for (v = 0; v < 8; v++) {
            struct cstl_heap h;
            int i, pops;
            cstl_heap_init(&h, cmp_elem, NULL, offsetof(struct elem, u.hn));
            for (i = 0; i < n; i++) {
                int k;
                switch (v) {
                case 0: k = i; break;
                case 1: k = n - i; break;
                case 2: k = 7; break;
                case 3: k = i % 3; break;
                default: k = (int)((unsigned)(i + 1) * 2654435761u * (unsigned)v >> 24); break;
                }
                cstl_heap_push(&h, new_elem(k));
            }
            pops = (v >= 5 && n > 0) ? (v - 4) % (n + 1) : 0;
            for (i = 0; i < pops && i < n; i++) {
                void * e = cstl_heap_pop(&h);
                CHECK(e != NULL, "heap: pop");
                if (e != NULL) { retire_elem(e); }
            }
            cstl_heap_clear(&h, on_clear);
            settle();
            heap_refill_and_check(&h);
        }
    }
}

/* ---- lists ---- */
struct seq { int keys[32]; int n; };
static int visit_seq(void * e, void * p)
{
    struct seq * s = p;
    if (s->n < 32) { s->keys[s->n] = ((struct elem *)e)->key; }
    s->n++;
    return 0;
}

static void test_dlist(void)
{
    int n, v;
    ctx = "dlist";
    for (n = 0; n <= 9; n++) {
        for (v = 0; v < 4; v++) {
            struct cstl_dlist l;
            struct seq s;
            int i;
            cstl_dlist_init(&l, offsetof(struct elem, u.dn));
            for (i = 0; i < n; i++) {
                if ((v & 1) && (i & 1)) { cstl_dlist_push_front(&l, new_elem(i)); }
                else { cstl_dlist_push_back(&l, new_elem(i)); }
            }
            if ((v & 2) && n > 0) { void * e = cstl_dlist_pop_back(&l); retire_elem(e); cstl_dlist_reverse(&l); }
            cstl_dlist_clear(&l, on_clear);
            settle();
            /* like a fresh one */
            CHECK(cstl_dlist_size(&l) == 0, "dlist: size 0 after clear");
            CHECK(cstl_dlist_front(&l) == NULL && cstl_dlist_back(&l) == NULL, "dlist: no ends after clear");
            CHECK(cstl_dlist_pop_front(&l) == NULL && cstl_dlist_pop_back(&l) == NULL, "dlist: nothing to pop after clear");
            s.n = 0;
            CHECK(cstl_dlist_foreach(&l, visit_seq, &s, CSTL_DLIST_FOREACH_DIR_FWD) == 0 && s.n == 0, "dlist: nothing to visit");
            cstl_dlist_push_back(&l, new_elem(2));
            cstl_dlist_push_front(&l, new_elem(1));
            cstl_dlist_push_back(&l, new_elem(3));
            cstl_dlist_insert(&l, cstl_dlist_front(&l), new_elem(9));
            s.n = 0;
            cstl_dlist_foreach(&l, visit_seq, &s, CSTL_DLIST_FOREACH_DIR_FWD);
            CHECK(s.n == 4 && s.keys[0] == 1 && s.keys[1] == 9 && s.keys[2] == 2 && s.keys[3] == 3, "dlist: refill forward");
            s.n = 0;
            cstl_dlist_foreach(&l, visit_seq, &s, CSTL_DLIST_FOREACH_DIR_REV);
            CHECK(s.n == 4 && s.keys[0] == 3 && s.keys[1] == 2 && s.keys[2] == 9 && s.keys[3] == 1, "dlist: refill backward");
            CHECK(cstl_dlist_size(&l) == 4, "dlist: refill size");
            cstl_dlist_clear(&l, on_clear);
            settle();
            CHECK(cstl_dlist_size(&l) == 0 && cstl_dlist_front(&l) == NULL, "dlist: empty after second clear");
        }
    }
    {
        DECLARE_CSTL_DLIST(l, struct elem, u.dn);
        cstl_dlist_clear(&l, on_clear);
        settle();
        cstl_dlist_push_back(&l, new_elem(5));
        CHECK(cstl_dlist_size(&l) == 1 && cstl_dlist_front(&l) == cstl_dlist_back(&l), "dlist: declared list");
        cstl_dlist_clear(&l, on_clear);
        settle();
    }
}

static void test_slist(void)
{
    int n, v;
    ctx = "slist";
    for (n = 0; n <= 9; n++) {
        for (v = 0; v < 4; v++) {
            struct cstl_slist l;
            struct seq s;
            int i;
            cstl_slist_init(&l, offsetof(struct elem, u.sn));
            for (i = 0; i < n; i++) {
                if ((v & 1) && (i & 1)) { cstl_slist_push_front(&l, new_elem(i)); }
                else { cstl_slist_push_back(&l, new_elem(i)); }
            }
            if ((v & 2) && n > 0) { void * e = cstl_slist_pop_front(&l); retire_elem(e); cstl_slist_reverse(&l); }
            cstl_slist_clear(&l, on_clear);
            settle();
            CHECK(cstl_slist_size(&l) == 0, "slist: size 0 after clear");
            CHECK(cstl_slist_front(&l) == NULL && cstl_slist_back(&l) == NULL, "slist: no ends after clear");
            CHECK(cstl_slist_pop_front(&l) == NULL, "slist: nothing to pop after clear");
            s.n = 0;
            CHECK(cstl_slist_foreach(&l, visit_seq, &s) == 0 && s.n == 0, "slist: nothing to visit");
            cstl_slist_push_back(&l, new_elem(2));
            cstl_slist_push_front(&l, new_elem(1));
            cstl_slist_push_back(&l, new_elem(3));
            s.n = 0;
            cstl_slist_foreach(&l, visit_seq, &s);
            CHECK(s.n == 3 && s.keys[0] == 1 && s.keys[1] == 2 && s.keys[2] == 3, "slist: refill order");
            CHECK(cstl_slist_size(&l) == 3 && ((struct elem *)cstl_slist_back(&l))->key == 3, "slist: refill size/back");
            cstl_slist_clear(&l, on_clear);
            settle();
            CHECK(cstl_slist_size(&l) == 0 && cstl_slist_front(&l) == NULL, "slist: empty after second clear");
        }
    }
}

/* ---- map: keys and values are elements in pages of their own ---- */
static int map_pairs;
static void on_map_clear(void * it, void * priv)
{
    const cstl_map_iterator_t * i = it;
    const struct elem * k = i->key;
    struct elem * v = i->val;
    CHECK(priv == the_priv, "map: priv passed through");
    CHECK(k != NULL && v != NULL, "map: iterator carries key and value");
    if (k != NULL && v != NULL) {
        CHECK(v->key == k->key + 1000, "map: key and value belong together");
        hand_over((void *)k);
        hand_over(v);
        map_pairs++;
    }
}

static void map_fill(cstl_map_t * m, const int * keys, int n)
{
    int i;
    for (i = 0; i < n; i++) {
        struct elem * k = new_elem(keys[i]), * v = new_elem(keys[i] + 1000);
        const int r = cstl_map_insert(m, k, v, NULL);
        CHECK(r == 0, "map: insert");
        if (r != 0) { retire_elem(k); retire_elem(v); }
    }
}

static void test_map(void)
{
    int n;
    ctx = "map";
    for (n = 0; n <= 6; n++) {
        int perm[8], i;
        for (i = 0; i < n; i++) { perm[i] = i; }
        do {
            static const int again[] = { 5, 1, 4, 2, 3 };
            cstl_map_t m;
            cstl_map_iterator_t it;
            struct elem probe;
            cstl_map_init(&m, cmp_elem, NULL);
            map_fill(&m, perm, n);
            if (n >= 3 && perm[0] == 1) {
                probe.key = perm[2];
                CHECK(cstl_map_erase(&m, &probe, &it) == 0, "map: erase");
                retire_elem((void *)it.key); retire_elem(it.val);
            }
            map_pairs = 0; the_priv = &m;
            cstl_map_clear(&m, on_map_clear, the_priv);
            settle();
            CHECK(cstl_map_size(&m) == 0, "map: size 0 after clear");
            probe.key = 0;
            cstl_map_find(&m, &probe, &it);
            CHECK(cstl_map_iterator_eq(&it, cstl_map_iterator_end(&m)), "map: nothing to find after clear");
            map_fill(&m, again, 5);
            CHECK(cstl_map_size(&m) == 5, "map: refill size");
            for (i = 1; i <= 5; i++) {
                probe.key = i;
                cstl_map_find(&m, &probe, &it);
                CHECK(!cstl_map_iterator_eq(&it, cstl_map_iterator_end(&m))
                      && ((struct elem *)it.val)->key == i + 1000, "map: refill find");
            }
            map_pairs = 0;
            cstl_map_clear(&m, on_map_clear, the_priv);
            settle();
            CHECK(map_pairs == 5 && cstl_map_size(&m) == 0, "map: second clear");
            /* a clear without a callback is allowed, too */
            {
                struct elem * k = new_elem(1), * v = new_elem(1001);
                CHECK(cstl_map_insert(&m, k, v, NULL) == 0, "map: insert");
                cstl_map_clear(&m, NULL, NULL);
                CHECK(cstl_map_size(&m) == 0, "map: clear without callback");
                retire_elem(k); retire_elem(v);
            }
        } while (next_perm(perm, n));
    }
}

int main(void)
{
    pagesz = (size_t)sysconf(_SC_PAGESIZE);
    arena = mmap(NULL, pagesz * NPAGES, PROT_NONE, MAP_PRIVATE | MAP_ANONYMOUS, -1, 0);
    if (arena == MAP_FAILED) { perror("mmap"); return 2; }

    test_bintree();
    test_rbtree();
    test_heap();
    test_dlist();
    test_slist();
    test_map();

    if (fails) {
        fprintf(stderr, "%d failure(s)\n", fails);
        return 1;
    }
    printf("ok: %lu clears, %lu hand-overs\n", nclears, ncallbacks);
    return 0;
}
