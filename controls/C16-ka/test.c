/*
 * C16 / change a: vector capacity changes (reserve, shrink_to_fit, growth)
 * under injected allocation failures, driven only through the public API.
 *
 * build (from the worktree root, after `make build`):
 *   gcc -std=c99 -D_POSIX_C_SOURCE=199309L -Wall -Wextra -Iinclude -o _keep/a/test _keep/a/test.c build/libcstl.a -lm -Wl,--wrap=malloc,--wrap=realloc,--wrap=calloc,--wrap=free
 * run:
 *   ./_keep/a/test
 */
#include "cstl/vector.h"
#include "cstl/string.h"

#include <stdio.h>
#include <stdlib.h>
#include <string.h>

void * __real_malloc(size_t);
void * __real_realloc(void *, size_t);
void * __real_calloc(size_t, size_t);
void __real_free(void *);

static long live, seen, armed;
static unsigned long fail_mask;

static int should_fail(void)
{
    if (armed) {
        const long n = seen++;
        return n < 64 && ((fail_mask >> n) & 1) != 0;
    }
    return 0;
}

void * __wrap_malloc(size_t n)
{
    void * p;
    if (should_fail()) {
        return NULL;
    }
    p = __real_malloc(n);
    live += (p != NULL);
    return p;
}

void * __wrap_calloc(size_t n, size_t m)
{
    void * p;
    if (should_fail()) {
        return NULL;
    }
    p = __real_calloc(n, m);
    live += (p != NULL);
    return p;
}

void * __wrap_realloc(void * o, size_t n)
{
    void * p;
    if (should_fail()) {
        return NULL;
    }
    p = __real_realloc(o, n);
    if (o == NULL) {
        live += (p != NULL);
    } else if (n == 0 && p == NULL) {
        live--;
    }
    return p;
}

void __wrap_free(void * p)
{
    live -= (p != NULL);
    __real_free(p);
}

#define CHECK(X)                                                        \
    do {                                                                \
        if (!(X)) {                                                     \
            printf("FAIL %s:%d mask=%lx: %s\n",                         \
                   __FILE__, __LINE__, fail_mask, #X);                  \
            exit(1);                                                    \
        }                                                               \
    } while (0)

static int icmp(const void * a, const void * b, void * p)
{
    (void)p;
    return *(const int *)a - *(const int *)b;
}

static void check_vec(struct cstl_vector * const v, const size_t n)
{
    size_t i;
    CHECK(cstl_vector_size(v) == n);
    CHECK(cstl_vector_capacity(v) >= n);
    for (i = 0; i < n; i++) {
        CHECK(*(int *)cstl_vector_at(v, i) == (int)(1000 + i));
    }
}

/* grow to n elements without risking the documented abort() */
static void safe_grow(struct cstl_vector * const v, const size_t n)
{
    const long a = armed;
    size_t i = cstl_vector_size(v);
    armed = 0;
    cstl_vector_resize(v, n);
    armed = a;
    for (; i < n; i++) {
        *(int *)cstl_vector_at(v, i) = (int)(1000 + i);
    }
}

static void try_reserve(struct cstl_vector * const v, const size_t want)
{
    const size_t cap = cstl_vector_capacity(v);
    const size_t n = cstl_vector_size(v);
    cstl_vector_reserve(v, want);
    /* either it worked or nothing happened */
    CHECK(cstl_vector_capacity(v) == cap
          || cstl_vector_capacity(v) >= want);
    if (want <= cap) {
        CHECK(cstl_vector_capacity(v) == cap);
    }
    check_vec(v, n);
}

static void try_shrink(struct cstl_vector * const v)
{
    const size_t cap = cstl_vector_capacity(v);
    const size_t n = cstl_vector_size(v);
    cstl_vector_shrink_to_fit(v);
    CHECK(cstl_vector_capacity(v) == cap || cstl_vector_capacity(v) == n);
    check_vec(v, n);
}

static void vector_script(void)
{
    DECLARE_CSTL_VECTOR(v, int);
    size_t i;

    try_shrink(&v);                 /* empty, nothing to do */
    try_reserve(&v, 4);
    safe_grow(&v, 3);
    try_reserve(&v, 2);             /* a decrease is ignored */
    try_reserve(&v, 40);
    safe_grow(&v, 25);
    try_shrink(&v);
    try_reserve(&v, 26);
    safe_grow(&v, 26);
    try_shrink(&v);

    /* the container must stay fully usable: sort, search, reverse */
    cstl_vector_reverse(&v);
    cstl_vector_sort(&v, icmp, NULL);
    check_vec(&v, 26);
    for (i = 0; i < 26; i++) {
        int k = (int)(1000 + i);
        CHECK(cstl_vector_search(&v, &k, icmp, NULL) == (ssize_t)i);
    }

    /* shrinking the contents never allocates */
    cstl_vector_resize(&v, 5);
    check_vec(&v, 5);
    try_shrink(&v);
    try_reserve(&v, 9);
    safe_grow(&v, 9);

    /* down to nothing and shrink: an empty vector with storage */
    cstl_vector_resize(&v, 0);
    try_shrink(&v);
    try_reserve(&v, 3);
    safe_grow(&v, 2);
    check_vec(&v, 2);

    cstl_vector_clear(&v);
    CHECK(cstl_vector_size(&v) == 0 && cstl_vector_capacity(&v) == 0);
}

static void string_script(void)
{
    DECLARE_CSTL_STRING(string, s);
    size_t cap;

    CHECK(strcmp(cstl_string_str(&s), "") == 0);
    cstl_string_reserve(&s, 8);
    CHECK(cstl_string_size(&s) == 0);
    CHECK(strcmp(cstl_string_str(&s), "") == 0);

    armed--;
    cstl_string_set_str(&s, "hello, world");
    armed++;
    cap = cstl_string_capacity(&s);
    cstl_string_reserve(&s, 100);
    CHECK(cstl_string_capacity(&s) == cap || cstl_string_capacity(&s) >= 100);
    CHECK(cstl_string_size(&s) == 12);
    CHECK(strcmp(cstl_string_str(&s), "hello, world") == 0);

    armed--;
    cstl_string_append_str(&s, "!!");
    cstl_string_insert_str(&s, 0, ">> ");
    armed++;
    CHECK(strcmp(cstl_string_str(&s), ">> hello, world!!") == 0);
    CHECK(cstl_string_find_ch(&s, 'w', 0) == 10);

    cstl_string_erase(&s, 0, 3);
    CHECK(strcmp(cstl_string_str(&s), "hello, world!!") == 0);
    cstl_string_clear(&s);
}

int main(void)
{
    unsigned long m;
    long total;

    /* count the allocations of a failure-free run */
    fail_mask = 0;
    armed = 1; seen = 0;
    vector_script();
    string_script();
    armed = 0;
    total = seen;
    CHECK(live == 0);
    CHECK(total > 4 && total < 20);

    /* every subset of the armed allocations failing */
    for (m = 1; m < (1ul << total); m++) {
        fail_mask = m;
        armed = 1; seen = 0;
        vector_script();
        string_script();
        armed = 0;
        CHECK(live == 0);
    }

    printf("ok: %ld armed allocations, %lu failure subsets\n",
           total, (1ul << total) - 1);
    return 0;
}
