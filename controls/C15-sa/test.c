/*
 * Property C15: clear hands over each element exactly once and never
 * touches it again; afterwards the container is empty and as good as new.
 *
 * Containers: bintree, rbtree, heap, slist, dlist, map.
 *
 * Only the public API is used. The allocator is wrapped at link time
 * (-Wl,--wrap=malloc,--wrap=free) so that
 *   - allocation failures can be injected into cstl_map_insert(), and
 *   - it can be shown that nothing allocated on behalf of a container
 *     survives its clear.
 *
 * Nothing here depends on the ORDER in which clear hands elements over,
 * on what the container object looks like WHILE clear is running, on how
 * many blocks the map allocates, or on what the callback receives as its
 * second argument where the API has no parameter for it.
 */
#include <stdio.h>
#include <stdlib.h>
#include <string.h>
#include <stdint.h>

#include "cstl/bintree.h"
#include "cstl/rbtree.h"
#include "cstl/heap.h"
#include "cstl/slist.h"
#include "cstl/dlist.h"
#include "cstl/map.h"

/* ------------------------------------------------------------------ */
/* allocator wrapping                                                  */
/* ------------------------------------------------------------------ */

void * __real_malloc(size_t);
void __real_free(void *);

static long live_blocks;
static int fail_armed;
static long fail_countdown;
static long fail_repeat;

void * __wrap_malloc(size_t n)
{
    void * p;

    if (fail_armed != 0) {
        if (fail_countdown == 0) {
            if (fail_repeat > 0) {
                fail_repeat--;
                return NULL;
            }
        } else {
            fail_countdown--;
        }
    }

    p = __real_malloc(n);
    if (p != NULL) {
        live_blocks++;
    }
    return p;
}

void __wrap_free(void * p)
{
    if (p != NULL) {
        live_blocks--;
    }
    __real_free(p);
}

/* ------------------------------------------------------------------ */
/* failure reporting                                                   */
/* ------------------------------------------------------------------ */

static const char * scenario = "?";

#define FAIL(...)                                                       \
    do {                                                                \
        fprintf(stderr, "C15 FAIL [%s] %s:%d: ",                        \
                scenario, __FILE__, __LINE__);                          \
        fprintf(stderr, __VA_ARGS__);                                   \
        fprintf(stderr, "\n");                                          \
        exit(1);                                                        \
    } while (0)

#define CHECK(c, ...)                           \
    do {                                        \
        if (!(c)) {                             \
            FAIL(__VA_ARGS__);                  \
        }                                       \
    } while (0)

static void * xmalloc(const size_t n)
{
    void * const p = malloc(n);
    if (p == NULL) {
        FAIL("test ran out of memory");
    }
    return p;
}

/* deterministic pseudo random numbers */
static uint32_t rng_state = 12345;
static uint32_t rnd(void)
{
    rng_state = rng_state * 1664525u + 1013904223u;
    return rng_state >> 8;
}

/* ------------------------------------------------------------------ */
/* elements and the registry of everything ever put into a container   */
/* ------------------------------------------------------------------ */

#define MAGIC_ELEM 0x454c454du
#define MAGIC_KEY  0x4b45594bu
#define MAGIC_VAL  0x56414c56u
#define GUARD0     0x13572468u
#define GUARD1     0x24681357u

struct elem
{
    uint32_t guard0;
    uint32_t magic;
    int key;
    int id;
    struct cstl_bintree_node bn;
    struct cstl_rbtree_node rn;
    struct cstl_heap_node hn;
    struct cstl_slist_node sn;
    struct cstl_dlist_node dn;
    uint32_t guard1;
};

struct mkey
{
    uint32_t magic;
    int k;
    int id;
    char pad[48];
};

struct mval
{
    uint32_t magic;
    int id;
    int payload;
    char pad[48];
};

enum { ST_LIVE = 1, ST_HANDED, ST_GONE };

struct rec
{
    void * p;
    void * p2;
    int state;
    int owner;
    int key;
};

#define MAXREC 70000
static struct rec recs[MAXREC];
static int nrecs;

#define MAXOWNER 64
static int clearing[MAXOWNER];
static long owner_calls[MAXOWNER];
static int next_owner;

static int new_owner(void)
{
    CHECK(next_owner < MAXOWNER, "too many owners");
    clearing[next_owner] = 0;
    owner_calls[next_owner] = 0;
    return next_owner++;
}

static int new_rec(void * const p, void * const p2, const int owner,
                   const int key)
{
    CHECK(nrecs < MAXREC, "registry full");
    recs[nrecs].p = p;
    recs[nrecs].p2 = p2;
    recs[nrecs].state = ST_LIVE;
    recs[nrecs].owner = owner;
    recs[nrecs].key = key;
    return nrecs++;
}

static struct elem * new_elem(const int owner, const int key)
{
    struct elem * const e = xmalloc(sizeof(*e));

    /* whatever the library does not set must not matter */
    memset(e, 0xEE, sizeof(*e));
    e->guard0 = GUARD0;
    e->guard1 = GUARD1;
    e->magic = MAGIC_ELEM;
    e->key = key;
    e->id = new_rec(e, NULL, owner, key);
    return e;
}

/* the test itself removed this element with erase/pop and owns it again */
static void test_owns(struct elem * const e)
{
    CHECK(e->id >= 0 && e->id < nrecs && recs[e->id].p == e,
          "erase/pop returned a stranger");
    CHECK(recs[e->id].state == ST_LIVE, "erase/pop returned a dead element");
    CHECK(e->magic == MAGIC_ELEM && e->guard0 == GUARD0
          && e->guard1 == GUARD1 && e->key == recs[e->id].key,
          "element damaged");
    recs[e->id].state = ST_GONE;
    memset(e, 0xDD, sizeof(*e));
    free(e);
}

/* ------------------------------------------------------------------ */
/* what the callback does with the memory it has been handed           */
/* ------------------------------------------------------------------ */

enum
{
    M_FREE,     /* poison and free at once */
    M_QUAR,     /* poison and keep; must still be poisoned afterwards */
    M_REUSE,    /* poison, then link the memory into ANOTHER container */
    M_RECYCLE,  /* free, allocate again at once, fill, must stay filled */
    M_NMODES
};

static int mode = M_FREE;

struct tomb
{
    struct cstl_dlist_node dn;
    size_t sz;
};

struct held
{
    struct held * next;
    void * p;
    size_t sz;
    unsigned char fill;
};

static struct held * held_list;
static long held_count;
static DECLARE_CSTL_DLIST(graveyard, struct tomb, dn);
static long disposed;

static void hold(void * const p, const size_t sz, const unsigned char fill)
{
    struct held * const h = xmalloc(sizeof(*h));
    h->p = p;
    h->sz = sz;
    h->fill = fill;
    h->next = held_list;
    held_list = h;
    held_count++;
}

static void dispose(void * const p, const size_t sz)
{
    disposed++;

    memset(p, 0xA5, sz);

    switch (mode) {
    case M_FREE:
        free(p);
        break;
    case M_QUAR:
        hold(p, sz, 0xA5);
        break;
    case M_REUSE: {
        struct tomb * const t = p;
        CHECK(sz >= sizeof(*t), "object too small for a tomb");
        memset(p, 0x5A, sz);
        t->sz = sz;
        /* the element's memory now belongs to another container */
        if ((disposed & 1) != 0) {
            cstl_dlist_push_back(&graveyard, t);
        } else {
            cstl_dlist_push_front(&graveyard, t);
        }
        break;
    }
    case M_RECYCLE: {
        void * q;
        free(p);
        q = xmalloc(sz);
        memset(q, 0xC3, sz);
        hold(q, sz, 0xC3);
        break;
    }
    default:
        FAIL("bad mode");
    }
}

static int tomb_visit(void * const e, void * const p)
{
    const struct tomb * const t = e;
    const unsigned char * const b = e;
    size_t i;

    for (i = sizeof(*t); i < t->sz; i++) {
        CHECK(b[i] == 0x5A, "memory written after it was handed over "
              "(reused block, byte %lu)", (unsigned long)i);
    }
    (*(long *)p)++;
    return 0;
}

static void tomb_free(void * const e, void * const nil)
{
    (void)nil;
    free(e);
}

/* every block handed over so far must be exactly as the callback left it */
static void settle_disposals(const long expect)
{
    long n = 0;

    CHECK(disposed == expect, "handed over %ld blocks, expected %ld",
          disposed, expect);

    while (held_list != NULL) {
        struct held * const h = held_list;
        const unsigned char * const b = h->p;
        size_t i;

        for (i = 0; i < h->sz; i++) {
            CHECK(b[i] == h->fill,
                  "memory written after it was handed over (byte %lu is "
                  "%02x, not %02x)", (unsigned long)i, b[i], h->fill);
        }
        held_list = h->next;
        free(h->p);
        free(h);
        n++;
    }
    CHECK(n == held_count, "held list damaged");
    held_count = 0;

    n = 0;
    cstl_dlist_foreach(&graveyard, tomb_visit, &n, CSTL_DLIST_FOREACH_DIR_FWD);
    CHECK((size_t)n == cstl_dlist_size(&graveyard), "graveyard damaged");
    if (mode == M_REUSE) {
        CHECK(n == expect, "graveyard holds %ld, expected %ld", n, expect);
    } else {
        CHECK(n == 0, "graveyard not empty");
    }
    n = 0;
    cstl_dlist_foreach(&graveyard, tomb_visit, &n, CSTL_DLIST_FOREACH_DIR_REV);
    CHECK((size_t)n == cstl_dlist_size(&graveyard), "graveyard damaged");
    cstl_dlist_clear(&graveyard, tomb_free);
    CHECK(cstl_dlist_size(&graveyard) == 0, "graveyard not cleared");

    disposed = 0;
}

/* ------------------------------------------------------------------ */
/* bystanders: other containers the callbacks work with                */
/* ------------------------------------------------------------------ */

static int poke;            /* callbacks use the bystanders */

static char cmp_cookie, clr_cookie, map_cmp_cookie, map_clr_cookie;

static int mkey_cmp(const void * const a, const void * const b, void * const p)
{
    const struct mkey * const ka = a, * const kb = b;

    CHECK(p == &map_cmp_cookie, "map compare: wrong private pointer");
    CHECK(ka->magic == MAGIC_KEY && kb->magic == MAGIC_KEY,
          "map compared a key that is not live");
    return (ka->k > kb->k) - (ka->k < kb->k);
}

static cstl_map_t by_map;
static int by_map_next, by_map_first;
static DECLARE_CSTL_SLIST(by_slist, struct elem, sn);

static void bystander_poke(void)
{
    struct mkey * k;
    struct mval * v;
    cstl_map_iterator_t i;
    struct elem * e;

    k = xmalloc(sizeof(*k));
    v = xmalloc(sizeof(*v));
    k->magic = MAGIC_KEY;
    k->k = by_map_next++;
    k->id = -1;
    v->magic = MAGIC_VAL;
    v->payload = k->k * 7;
    v->id = -1;
    CHECK(cstl_map_insert(&by_map, k, v, &i) == 0, "bystander insert");
    CHECK(i.key == k && i.val == v, "bystander insert iterator");

    if (cstl_map_size(&by_map) > 5) {
        struct mkey probe;
        probe.magic = MAGIC_KEY;
        probe.k = by_map_first++;
        CHECK(cstl_map_erase(&by_map, &probe, &i) == 0, "bystander erase");
        CHECK(((const struct mkey *)i.key)->k == probe.k
              && ((struct mval *)i.val)->payload == probe.k * 7,
              "bystander map damaged");
        free((void *)i.key);
        free(i.val);
    }
    CHECK(cstl_map_size(&by_map) == (size_t)(by_map_next - by_map_first),
          "bystander map size");

    e = xmalloc(sizeof(*e));
    memset(e, 0, sizeof(*e));
    e->key = by_map_next;
    e->id = -1;
    cstl_slist_push_back(&by_slist, e);
    if (cstl_slist_size(&by_slist) > 3) {
        struct elem * const f = cstl_slist_pop_front(&by_slist);
        CHECK(f != NULL && f->key == e->key - 3, "bystander slist damaged");
        free(f);
    }
}

static void by_map_clr(void * const obj, void * const priv)
{
    const cstl_map_iterator_t * const i = obj;
    const struct mkey * const k = i->key;
    struct mval * const v = i->val;

    CHECK(k->magic == MAGIC_KEY && v->magic == MAGIC_VAL
          && v->payload == k->k * 7, "bystander map damaged");
    (*(long *)priv)++;
    free((void *)k);
    free(v);
}

static void plain_free(void * const e, void * const nil)
{
    (void)nil;
    free(e);
}

static void bystander_finish(void)
{
    long n = 0;
    const size_t sz = cstl_map_size(&by_map);

    cstl_map_clear(&by_map, by_map_clr, &n);
    CHECK((size_t)n == sz && cstl_map_size(&by_map) == 0,
          "bystander map clear");
    by_map_first = by_map_next;
    cstl_slist_clear(&by_slist, plain_free);
    CHECK(cstl_slist_size(&by_slist) == 0, "bystander slist clear");
}

/* ------------------------------------------------------------------ */
/* the five intrusive containers behind one interface                  */
/* ------------------------------------------------------------------ */

enum kind { K_BIN, K_RB, K_HEAP, K_SL, K_DL, K_NKINDS };
static const char * const kind_name[] = {
    "bintree", "rbtree", "heap", "slist", "dlist"
};

static int elem_cmp(const void * const a, const void * const b, void * const p)
{
    const struct elem * const ea = a, * const eb = b;

    CHECK(p == &cmp_cookie, "compare: wrong private pointer");
    CHECK(ea->magic == MAGIC_ELEM && eb->magic == MAGIC_ELEM,
          "an element that is not live was passed to the compare function");
    return (ea->key > eb->key) - (ea->key < eb->key);
}

/* objects that only ever see the static initialisers */
static DECLARE_CSTL_BINTREE(s_bt, struct elem, bn, elem_cmp, &cmp_cookie);
static DECLARE_CSTL_RBTREE(s_rb, struct elem, rn, elem_cmp, &cmp_cookie);
static DECLARE_CSTL_HEAP(s_hp, struct elem, hn, elem_cmp, &cmp_cookie);
static DECLARE_CSTL_SLIST(s_sl, struct elem, sn);
static DECLARE_CSTL_DLIST(s_dl, struct elem, dn);

struct box
{
    enum kind k;
    int owner;
    long added;

    struct cstl_bintree * bt;
    struct cstl_rbtree * rb;
    struct cstl_heap * hp;
    struct cstl_slist * sl;
    struct cstl_dlist * dl;

    unsigned char fence0[32];
    union
    {
        struct cstl_bintree bt;
        struct cstl_rbtree rb;
        struct cstl_heap hp;
        struct cstl_slist sl;
        struct cstl_dlist dl;
    } own;
    unsigned char fence1[32];
};

static size_t box_size(const struct box * const b)
{
    switch (b->k) {
    case K_BIN: return cstl_bintree_size(b->bt);
    case K_RB: return cstl_rbtree_size(b->rb);
    case K_HEAP: return cstl_heap_size(b->hp);
    case K_SL: return cstl_slist_size(b->sl);
    case K_DL: return cstl_dlist_size(b->dl);
    default: break;
    }
    FAIL("bad kind");
}

/* flavour 0: the statically initialised object; 1: initialised by call */
static void box_open(struct box * const b, const enum kind k,
                     const int flavour)
{
    memset(b, 0, sizeof(*b));
    memset(b->fence0, 0x77, sizeof(b->fence0));
    memset(b->fence1, 0x77, sizeof(b->fence1));
    memset(&b->own, 0xBB, sizeof(b->own));
    b->k = k;
    b->owner = new_owner();

    if (flavour == 0) {
        b->bt = &s_bt; b->rb = &s_rb; b->hp = &s_hp;
        b->sl = &s_sl; b->dl = &s_dl;
    } else {
        b->bt = &b->own.bt; b->rb = &b->own.rb; b->hp = &b->own.hp;
        b->sl = &b->own.sl; b->dl = &b->own.dl;
        switch (k) {
        case K_BIN:
            cstl_bintree_init(b->bt, elem_cmp, &cmp_cookie,
                              offsetof(struct elem, bn));
            break;
        case K_RB:
            cstl_rbtree_init(b->rb, elem_cmp, &cmp_cookie,
                             offsetof(struct elem, rn));
            break;
        case K_HEAP:
            cstl_heap_init(b->hp, elem_cmp, &cmp_cookie,
                           offsetof(struct elem, hn));
            break;
        case K_SL:
            cstl_slist_init(b->sl, offsetof(struct elem, sn));
            break;
        case K_DL:
            cstl_dlist_init(b->dl, offsetof(struct elem, dn));
            break;
        default:
            FAIL("bad kind");
        }
    }
    CHECK(box_size(b) == 0, "%s not empty when opened", kind_name[k]);
}

static void box_fences(const struct box * const b)
{
    size_t i;
    for (i = 0; i < sizeof(b->fence0); i++) {
        CHECK(b->fence0[i] == 0x77 && b->fence1[i] == 0x77,
              "memory around the %s object was written", kind_name[b->k]);
    }
}

/* how: lists only; even: back, odd: front */
static struct elem * box_add(struct box * const b, const int key,
                             const int how)
{
    struct elem * const e = new_elem(b->owner, key);
    const size_t sz = box_size(b);

    switch (b->k) {
    case K_BIN:
        if ((how & 1) != 0) {
            /* with the parent hint the documentation offers */
            const void * par = NULL;
            (void)cstl_bintree_find(b->bt, e, &par);
            cstl_bintree_insert(b->bt, e, NULL);
            (void)par;
        } else {
            cstl_bintree_insert(b->bt, e, NULL);
        }
        break;
    case K_RB: cstl_rbtree_insert(b->rb, e, NULL); break;
    case K_HEAP: cstl_heap_push(b->hp, e); break;
    case K_SL:
        if ((how & 1) != 0) {
            cstl_slist_push_front(b->sl, e);
        } else {
            cstl_slist_push_back(b->sl, e);
        }
        break;
    case K_DL:
        if ((how & 1) != 0) {
            cstl_dlist_push_front(b->dl, e);
        } else {
            cstl_dlist_push_back(b->dl, e);
        }
        break;
    default:
        FAIL("bad kind");
    }
    CHECK(box_size(b) == sz + 1, "%s size after insert", kind_name[b->k]);
    b->added++;
    return e;
}

/* remove one element the ordinary way; returns 0 if there was none */
static int box_take(struct box * const b, const int key)
{
    struct elem probe, * e = NULL;
    const size_t sz = box_size(b);

    memset(&probe, 0, sizeof(probe));
    probe.magic = MAGIC_ELEM;
    probe.key = key;

    switch (b->k) {
    case K_BIN: e = cstl_bintree_erase(b->bt, &probe); break;
    case K_RB: e = cstl_rbtree_erase(b->rb, &probe); break;
    case K_HEAP: e = cstl_heap_pop(b->hp); break;
    case K_SL: e = cstl_slist_pop_front(b->sl); break;
    case K_DL:
        if ((key & 1) != 0) {
            e = cstl_dlist_pop_front(b->dl);
        } else {
            e = cstl_dlist_pop_back(b->dl);
        }
        break;
    default:
        FAIL("bad kind");
    }
    if (e == NULL) {
        CHECK(box_size(b) == sz, "%s size after failed removal",
              kind_name[b->k]);
        return 0;
    }
    CHECK(box_size(b) == sz - 1, "%s size after removal", kind_name[b->k]);
    CHECK(recs[e->id].owner == b->owner, "removed a foreign element");
    if (b->k == K_BIN || b->k == K_RB) {
        CHECK(e->key == key, "erase returned the wrong key");
    }
    test_owns(e);
    b->added--;
    return 1;
}

/* ------------------------------------------------------------------ */
/* the callbacks given to clear                                        */
/* ------------------------------------------------------------------ */

static struct box * nested_target;
static void box_clear_checked(struct box * b);

static void handover(struct elem * const e)
{
    struct rec * r;

    CHECK(e != NULL, "callback for NULL");
    CHECK(e->id >= 0 && e->id < nrecs, "callback for something that is "
          "not an element (or for an element handed over before)");
    r = &recs[e->id];
    CHECK(r->p == e, "callback for something that is not an element");
    CHECK(r->state == ST_LIVE, "callback for an element that is not in "
          "the container (state %d)", r->state);
    CHECK(r->owner >= 0 && r->owner < MAXOWNER && clearing[r->owner] != 0,
          "callback for an element of a container that is not being cleared");
    CHECK(e->magic == MAGIC_ELEM && e->guard0 == GUARD0
          && e->guard1 == GUARD1 && e->key == r->key, "element damaged");

    r->state = ST_HANDED;
    owner_calls[r->owner]++;

    if (poke != 0) {
        bystander_poke();
    }

    if (nested_target != NULL) {
        /* clear another container from within the callback */
        struct box * const t = nested_target;
        nested_target = NULL;
        box_clear_checked(t);
    }

    dispose(e, sizeof(*e));
}

static void clr_priv(void * const e, void * const priv)
{
    CHECK(priv == &clr_cookie, "clear passed the wrong private pointer");
    handover(e);
}

static void clr_nopriv(void * const e, void * const priv)
{
    (void)priv;
    handover(e);
}

struct tv
{
    int n, cap;
    int * v;
};

static void tv_add(struct tv * const t, const int x)
{
    if (t->n == t->cap) {
        int * v;
        t->cap = t->cap ? 2 * t->cap : 256;
        v = xmalloc(t->cap * sizeof(*v));
        if (t->n > 0) {
            memcpy(v, t->v, t->n * sizeof(*v));
        }
        free(t->v);
        t->v = v;
    }
    t->v[t->n++] = x;
}

static void tv_done(struct tv * const t)
{
    free(t->v);
    t->v = NULL;
    t->n = t->cap = 0;
}

static int tree_visit(const void * const e, const cstl_bintree_visit_order_t o,
                      void * const p)
{
    const struct elem * const el = e;
    CHECK(el->magic == MAGIC_ELEM, "foreach visited a dead element");
    tv_add(p, el->key);
    tv_add(p, (int)o);
    return 0;
}

static int list_visit(void * const e, void * const p)
{
    const struct elem * const el = e;
    CHECK(el->magic == MAGIC_ELEM, "foreach visited a dead element");
    tv_add(p, el->key);
    return 0;
}

static int never_visit_tree(const void * const e,
                            const cstl_bintree_visit_order_t o, void * const p)
{
    (void)e; (void)o; (void)p;
    FAIL("foreach visits something in an empty tree");
}

static int never_visit_list(void * const e, void * const p)
{
    (void)e; (void)p;
    FAIL("foreach visits something in an empty list");
}

static void never_clr(void * const e, void * const p)
{
    (void)e; (void)p;
    FAIL("clear of an empty container called the callback");
}

/* everything that can be observed about an empty container */
static void box_check_empty(struct box * const b)
{
    struct elem probe;
    const void * par = &probe;
    size_t hmin = 99, hmax = 99;

    memset(&probe, 0, sizeof(probe));
    probe.magic = MAGIC_ELEM;
    probe.key = 3;

    CHECK(box_size(b) == 0, "%s: size is %lu after clear", kind_name[b->k],
          (unsigned long)box_size(b));

    switch (b->k) {
    case K_BIN:
        CHECK(cstl_bintree_find(b->bt, &probe, &par) == NULL && par == NULL,
              "bintree: find after clear");
        CHECK(cstl_bintree_erase(b->bt, &probe) == NULL,
              "bintree: erase after clear");
        CHECK(cstl_bintree_foreach(b->bt, never_visit_tree, NULL,
                                   CSTL_BINTREE_FOREACH_DIR_FWD) == 0
              && cstl_bintree_foreach(b->bt, never_visit_tree, NULL,
                                      CSTL_BINTREE_FOREACH_DIR_REV) == 0,
              "bintree: foreach after clear");
        cstl_bintree_height(b->bt, &hmin, &hmax);
        CHECK(hmin == 0 && hmax == 0, "bintree: height after clear");
        cstl_bintree_clear(b->bt, never_clr, NULL);
        break;
    case K_RB:
        CHECK(cstl_rbtree_find(b->rb, &probe, &par) == NULL && par == NULL,
              "rbtree: find after clear");
        CHECK(cstl_rbtree_erase(b->rb, &probe) == NULL,
              "rbtree: erase after clear");
        CHECK(cstl_rbtree_foreach(b->rb, never_visit_tree, NULL,
                                  CSTL_BINTREE_FOREACH_DIR_FWD) == 0
              && cstl_rbtree_foreach(b->rb, never_visit_tree, NULL,
                                     CSTL_BINTREE_FOREACH_DIR_REV) == 0,
              "rbtree: foreach after clear");
        cstl_rbtree_height(b->rb, &hmin, &hmax);
        CHECK(hmin == 0 && hmax == 0, "rbtree: height after clear");
        cstl_rbtree_clear(b->rb, never_clr, NULL);
        break;
    case K_HEAP:
        CHECK(cstl_heap_get(b->hp) == NULL, "heap: get after clear");
        CHECK(cstl_heap_pop(b->hp) == NULL, "heap: pop after clear");
        cstl_heap_clear(b->hp, never_clr);
        break;
    case K_SL:
        CHECK(cstl_slist_front(b->sl) == NULL
              && cstl_slist_back(b->sl) == NULL, "slist: ends after clear");
        CHECK(cstl_slist_pop_front(b->sl) == NULL, "slist: pop after clear");
        CHECK(cstl_slist_foreach(b->sl, never_visit_list, NULL) == 0,
              "slist: foreach after clear");
        cstl_slist_reverse(b->sl);
        cstl_slist_sort(b->sl, elem_cmp, &cmp_cookie);
        cstl_slist_clear(b->sl, never_clr);
        break;
    case K_DL:
        CHECK(cstl_dlist_front(b->dl) == NULL
              && cstl_dlist_back(b->dl) == NULL, "dlist: ends after clear");
        CHECK(cstl_dlist_pop_front(b->dl) == NULL
              && cstl_dlist_pop_back(b->dl) == NULL, "dlist: pop after clear");
        CHECK(cstl_dlist_foreach(b->dl, never_visit_list, NULL,
                                 CSTL_DLIST_FOREACH_DIR_FWD) == 0
              && cstl_dlist_foreach(b->dl, never_visit_list, NULL,
                                    CSTL_DLIST_FOREACH_DIR_REV) == 0,
              "dlist: foreach after clear");
        CHECK(cstl_dlist_find(b->dl, &probe, elem_cmp, &cmp_cookie,
                              CSTL_DLIST_FOREACH_DIR_FWD) == NULL,
              "dlist: find after clear");
        cstl_dlist_reverse(b->dl);
        cstl_dlist_sort(b->dl, elem_cmp, &cmp_cookie);
        cstl_dlist_clear(b->dl, never_clr);
        break;
    default:
        FAIL("bad kind");
    }
    CHECK(box_size(b) == 0, "%s: size after second clear", kind_name[b->k]);
    box_fences(b);
}

/* clear, and check the callback accounting of this container */
static void box_clear_checked(struct box * const b)
{
    const long expect = b->added;
    int i;

    CHECK(box_size(b) == (size_t)expect, "%s: size before clear",
          kind_name[b->k]);
    CHECK(owner_calls[b->owner] == 0, "owner reused");

    clearing[b->owner] = 1;
    switch (b->k) {
    case K_BIN: cstl_bintree_clear(b->bt, clr_priv, &clr_cookie); break;
    case K_RB: cstl_rbtree_clear(b->rb, clr_priv, &clr_cookie); break;
    case K_HEAP: cstl_heap_clear(b->hp, clr_nopriv); break;
    case K_SL: cstl_slist_clear(b->sl, clr_nopriv); break;
    case K_DL: cstl_dlist_clear(b->dl, clr_nopriv); break;
    default: FAIL("bad kind");
    }
    clearing[b->owner] = 0;

    CHECK(owner_calls[b->owner] == expect,
          "%s: %ld callbacks for %ld elements", kind_name[b->k],
          owner_calls[b->owner], expect);
    for (i = 0; i < nrecs; i++) {
        if (recs[i].owner == b->owner) {
            CHECK(recs[i].state != ST_LIVE,
                  "%s: an element was never handed over", kind_name[b->k]);
        }
    }
    owner_calls[b->owner] = 0;
    b->added = 0;

    box_check_empty(b);
}

/* ------------------------------------------------------------------ */
/* "usable exactly like a freshly initialised one"                     */
/* ------------------------------------------------------------------ */

/*
 * run a fixed script against the container and record everything it lets
 * the caller see; leaves some elements inside
 */
static void box_script(struct box * const b, const int * const keys,
                       const int n, struct tv * const t)
{
    int i;
    size_t hmin, hmax;
    struct elem probe;

    memset(&probe, 0, sizeof(probe));
    probe.magic = MAGIC_ELEM;

    for (i = 0; i < n; i++) {
        (void)box_add(b, keys[i], i);
        tv_add(t, (int)box_size(b));
    }

    switch (b->k) {
    case K_BIN:
    case K_RB:
        for (i = -1; i <= n; i++) {
            const void * par = NULL;
            const struct elem * f;
            probe.key = i;
            if (b->k == K_BIN) {
                f = cstl_bintree_find(b->bt, &probe, &par);
            } else {
                f = cstl_rbtree_find(b->rb, &probe, &par);
            }
            tv_add(t, f != NULL ? f->key : -7);
            tv_add(t, par != NULL ? ((const struct elem *)par)->key : -8);
        }
        if (b->k == K_BIN) {
            cstl_bintree_foreach(b->bt, tree_visit, t,
                                 CSTL_BINTREE_FOREACH_DIR_FWD);
            cstl_bintree_height(b->bt, &hmin, &hmax);
        } else {
            cstl_rbtree_foreach(b->rb, tree_visit, t,
                                CSTL_BINTREE_FOREACH_DIR_FWD);
            cstl_rbtree_height(b->rb, &hmin, &hmax);
        }
        tv_add(t, (int)hmin);
        tv_add(t, (int)hmax);
        if (n > 0) {
            tv_add(t, box_take(b, keys[0]));
            tv_add(t, box_take(b, keys[n / 2]));
        }
        if (b->k == K_BIN) {
            cstl_bintree_foreach(b->bt, tree_visit, t,
                                 CSTL_BINTREE_FOREACH_DIR_REV);
        } else {
            cstl_rbtree_foreach(b->rb, tree_visit, t,
                                CSTL_BINTREE_FOREACH_DIR_REV);
        }
        break;
    case K_HEAP:
        for (i = 0; i < n / 2; i++) {
            const struct elem * const top = cstl_heap_get(b->hp);
            tv_add(t, top->key);
            tv_add(t, box_take(b, 0));
        }
        if (n > 0) {
            tv_add(t, ((const struct elem *)cstl_heap_get(b->hp))->key);
        }
        break;
    case K_SL:
        cstl_slist_foreach(b->sl, list_visit, t);
        cstl_slist_reverse(b->sl);
        cstl_slist_foreach(b->sl, list_visit, t);
        if (n > 1) {
            tv_add(t, box_take(b, 0));
            tv_add(t, ((struct elem *)cstl_slist_front(b->sl))->key);
            tv_add(t, ((struct elem *)cstl_slist_back(b->sl))->key);
        }
        cstl_slist_sort(b->sl, elem_cmp, &cmp_cookie);
        cstl_slist_foreach(b->sl, list_visit, t);
        break;
    case K_DL:
        cstl_dlist_foreach(b->dl, list_visit, t, CSTL_DLIST_FOREACH_DIR_FWD);
        cstl_dlist_foreach(b->dl, list_visit, t, CSTL_DLIST_FOREACH_DIR_REV);
        cstl_dlist_reverse(b->dl);
        cstl_dlist_foreach(b->dl, list_visit, t, CSTL_DLIST_FOREACH_DIR_FWD);
        if (n > 2) {
            tv_add(t, box_take(b, 0));
            tv_add(t, box_take(b, 1));
            tv_add(t, ((struct elem *)cstl_dlist_front(b->dl))->key);
            tv_add(t, ((struct elem *)cstl_dlist_back(b->dl))->key);
        }
        cstl_dlist_sort(b->dl, elem_cmp, &cmp_cookie);
        cstl_dlist_foreach(b->dl, list_visit, t, CSTL_DLIST_FOREACH_DIR_REV);
        break;
    default:
        FAIL("bad kind");
    }
    tv_add(t, (int)box_size(b));
}

/* the cleared container must now behave like a brand new one */
static void box_check_reusable(struct box * const b, const int n)
{
    struct box fresh;
    struct tv ta = { 0, 0, NULL }, tb = { 0, 0, NULL };
    int keys[40];
    int i;

    CHECK(n <= 40, "script too long");
    for (i = 0; i < n; i++) {
        keys[i] = rnd() % (n + (n + 1) / 2);
    }

    box_open(&fresh, b->k, 1);
    /* the cleared object is a new owner now, for the accounting */
    b->owner = new_owner();

    box_script(b, keys, n, &ta);
    box_script(&fresh, keys, n, &tb);

    CHECK(ta.n == tb.n && (ta.n == 0
                           || memcmp(ta.v, tb.v, ta.n * sizeof(*ta.v)) == 0),
          "%s: a cleared container does not behave like a new one",
          kind_name[b->k]);

    box_clear_checked(b);
    box_clear_checked(&fresh);

    tv_done(&ta);
    tv_done(&tb);
}

/* ------------------------------------------------------------------ */
/* scenario frame                                                      */
/* ------------------------------------------------------------------ */

static long scen_live;
static long scenarios_run;

static void scen_begin(const char * const name, const int m, const int pk)
{
    scenario = name;
    mode = m;
    poke = pk;
    nrecs = 0;
    next_owner = 0;
    nested_target = NULL;
    disposed = 0;
    scen_live = live_blocks;
    scenarios_run++;
}

static void scen_end(void)
{
    int i;
    long handed = 0;

    for (i = 0; i < nrecs; i++) {
        CHECK(recs[i].state == ST_HANDED || recs[i].state == ST_GONE,
              "an element is unaccounted for at the end");
        if (recs[i].state == ST_HANDED) {
            handed += recs[i].p2 != NULL ? 2 : 1;
        }
    }
    settle_disposals(handed);

    if (poke == 0) {
        /* nothing allocated for a cleared container may be left */
        CHECK(live_blocks == scen_live, "%ld blocks outlive the clear",
              live_blocks - scen_live);
    }
}

/* ------------------------------------------------------------------ */
/* intrusive containers: scenarios                                     */
/* ------------------------------------------------------------------ */

static int next_perm(int * const a, const int n)
{
    int i = n - 2, j = n - 1, t;

    while (i >= 0 && a[i] >= a[i + 1]) {
        i--;
    }
    if (i < 0) {
        return 0;
    }
    while (a[j] <= a[i]) {
        j--;
    }
    t = a[i]; a[i] = a[j]; a[j] = t;
    for (i = i + 1, j = n - 1; i < j; i++, j--) {
        t = a[i]; a[i] = a[j]; a[j] = t;
    }
    return 1;
}

static unsigned long combo;

/* build from a key sequence, clear, prove reusable */
static void run_sequence(const enum kind k, const int * const keys,
                         const int n, const int takes)
{
    struct box b;
    int i;
    const int m = (int)(combo % M_NMODES);
    const int flavour = (int)((combo / M_NMODES) & 1);
    const int pk = (int)((combo / (2 * M_NMODES)) % 3 == 0);

    combo++;

    scen_begin(kind_name[k], m, pk);
    box_open(&b, k, flavour);
    for (i = 0; i < n; i++) {
        (void)box_add(&b, keys[i], (keys[i] + i / 2) & 1);
    }
    for (i = 0; i < takes && i < n; i++) {
        (void)box_take(&b, keys[(i * 5 + 1) % n]);
    }
    box_clear_checked(&b);
    box_check_reusable(&b, (int)(combo % 9));
    box_check_empty(&b);
    scen_end();
}

static void all_small_states(void)
{
    int k, n, i;
    int keys[16];

    for (k = 0; k < K_NKINDS; k++) {
        /* every insertion order of up to 7 distinct keys: all tree shapes */
        const int maxn = (k == K_BIN || k == K_RB || k == K_HEAP) ? 7 : 5;

        for (n = 0; n <= maxn; n++) {
            for (i = 0; i < n; i++) {
                keys[i] = i;
            }
            do {
                run_sequence(k, keys, n, 0);
                if (n >= 3 && n <= 6) {
                    run_sequence(k, keys, n, 1);
                    run_sequence(k, keys, n, n / 2);
                }
            } while (next_perm(keys, n));
        }

        /* equal keys: every sequence over {0,1,2} up to length 6 */
        for (n = 1; n <= 6; n++) {
            int total = 1, c;
            for (i = 0; i < n; i++) {
                total *= 3;
            }
            for (c = 0; c < total; c++) {
                int x = c;
                for (i = 0; i < n; i++) {
                    keys[i] = x % 3;
                    x /= 3;
                }
                run_sequence(k, keys, n, c % 3);
            }
        }

        /* every size up to 40 */
        for (n = 0; n <= 40; n++) {
            int big[40];
            for (i = 0; i < n; i++) {
                big[i] = rnd() % 64;
            }
            run_sequence(k, big, n, 0);
            run_sequence(k, big, n, n / 3);
        }
    }
}

/* long random histories, several clears of the same object */
static void random_histories(void)
{
    int k, round;

    for (k = 0; k < K_NKINDS; k++) {
        for (round = 0; round < 60; round++) {
            struct box b;
            int cycle;

            scen_begin(kind_name[k], round % M_NMODES, round % 5 == 0);
            box_open(&b, k, round & 1);

            for (cycle = 0; cycle < 4; cycle++) {
                const int ops = rnd() % 120;
                int i;

                for (i = 0; i < ops; i++) {
                    if (rnd() % 3 != 0) {
                        (void)box_add(&b, rnd() % 50, rnd());
                    } else {
                        (void)box_take(&b, rnd() % 50);
                    }
                }
                if (k == K_SL && cycle == 1) {
                    cstl_slist_reverse(b.sl);
                    cstl_slist_sort(b.sl, elem_cmp, &cmp_cookie);
                }
                if (k == K_DL && cycle == 1) {
                    cstl_dlist_sort(b.dl, elem_cmp, &cmp_cookie);
                    cstl_dlist_reverse(b.dl);
                }
                box_clear_checked(&b);
                b.owner = new_owner();
            }
            box_check_reusable(&b, 12);
            scen_end();
        }
    }
}

/* shapes recursion does not like, and sizes beyond the small scope */
static void large_and_degenerate(void)
{
    int k, shape;

    for (k = 0; k < K_NKINDS; k++) {
        for (shape = 0; shape < 4; shape++) {
            struct box b;
            const int n = 3000;
            int i;

            scen_begin(kind_name[k], shape % M_NMODES, 0);
            box_open(&b, k, shape & 1);
            for (i = 0; i < n; i++) {
                int key;
                switch (shape) {
                case 0: key = i; break;                 /* right spine */
                case 1: key = n - i; break;             /* left spine */
                case 2: key = (i & 1) ? i : n - i; break;       /* zig-zag */
                default: key = rnd() % 1000; break;
                }
                (void)box_add(&b, key, i);
            }
            box_clear_checked(&b);
            box_check_reusable(&b, 20);
            scen_end();
        }
    }
}

/* swapping and concatenating cleared objects */
static void cleared_objects_travel(void)
{
    int m;

    for (m = 0; m < M_NMODES; m++) {
        struct box a, b;
        int i;

        scen_begin("swap", m, 0);

        box_open(&a, K_BIN, 1);
        box_open(&b, K_BIN, 1);
        for (i = 0; i < 9; i++) {
            (void)box_add(&a, (i * 5) % 9, 0);
        }
        box_clear_checked(&a);
        for (i = 0; i < 6; i++) {
            (void)box_add(&b, (i * 5) % 6, 0);
        }
        cstl_bintree_swap(a.bt, b.bt);
        { const int o = a.owner; a.owner = b.owner; b.owner = o; }
        a.added = b.added; b.added = 0;
        box_check_empty(&b);
        box_clear_checked(&a);
        box_check_reusable(&a, 5);
        box_check_reusable(&b, 5);

        box_open(&a, K_RB, 1);
        box_open(&b, K_RB, 1);
        for (i = 0; i < 9; i++) {
            (void)box_add(&a, (i * 5) % 9, 0);
        }
        box_clear_checked(&a);
        for (i = 0; i < 6; i++) {
            (void)box_add(&b, (i * 5) % 6, 0);
        }
        cstl_rbtree_swap(a.rb, b.rb);
        { const int o = a.owner; a.owner = b.owner; b.owner = o; }
        a.added = b.added; b.added = 0;
        box_check_empty(&b);
        box_clear_checked(&a);
        box_check_reusable(&a, 5);

        box_open(&a, K_HEAP, 1);
        box_open(&b, K_HEAP, 1);
        for (i = 0; i < 9; i++) {
            (void)box_add(&a, (i * 5) % 9, 0);
        }
        box_clear_checked(&a);
        for (i = 0; i < 6; i++) {
            (void)box_add(&b, (i * 5) % 6, 0);
        }
        cstl_heap_swap(a.hp, b.hp);
        { const int o = a.owner; a.owner = b.owner; b.owner = o; }
        a.added = b.added; b.added = 0;
        box_check_empty(&b);
        box_clear_checked(&a);
        box_check_reusable(&b, 5);

        box_open(&a, K_SL, 1);
        box_open(&b, K_SL, 1);
        for (i = 0; i < 5; i++) {
            (void)box_add(&a, i, i);
        }
        box_clear_checked(&a);
        for (i = 0; i < 4; i++) {
            (void)box_add(&b, i, i);
        }
        cstl_slist_swap(a.sl, b.sl);
        { const int o = a.owner; a.owner = b.owner; b.owner = o; }
        a.added = b.added; b.added = 0;
        box_check_empty(&b);
        /* concatenate onto, and from, a cleared list */
        cstl_slist_concat(b.sl, a.sl);
        { const int o = a.owner; a.owner = b.owner; b.owner = o; }
        b.added = a.added; a.added = 0;
        box_check_empty(&a);
        cstl_slist_concat(b.sl, a.sl);
        CHECK(box_size(&b) == 4, "slist concat of a cleared list");
        box_clear_checked(&b);
        box_check_reusable(&a, 6);
        box_check_reusable(&b, 6);

        box_open(&a, K_DL, 1);
        box_open(&b, K_DL, 1);
        for (i = 0; i < 5; i++) {
            (void)box_add(&a, i, i);
        }
        box_clear_checked(&a);
        for (i = 0; i < 4; i++) {
            (void)box_add(&b, i, i);
        }
        cstl_dlist_swap(a.dl, b.dl);
        { const int o = a.owner; a.owner = b.owner; b.owner = o; }
        a.added = b.added; b.added = 0;
        box_check_empty(&b);
        cstl_dlist_concat(b.dl, a.dl);
        { const int o = a.owner; a.owner = b.owner; b.owner = o; }
        b.added = a.added; a.added = 0;
        box_check_empty(&a);
        cstl_dlist_concat(b.dl, a.dl);
        CHECK(box_size(&b) == 4, "dlist concat of a cleared list");
        box_clear_checked(&b);
        box_check_reusable(&a, 6);
        box_check_reusable(&b, 6);

        scen_end();
    }
}

/* a callback that clears ANOTHER container, of every kind */
static void nested_clears(void)
{
    int ko, ki, m = 0;

    for (ko = 0; ko < K_NKINDS; ko++) {
        for (ki = 0; ki < K_NKINDS; ki++) {
            int no, ni;
            for (no = 1; no <= 6; no += 2) {
                for (ni = 0; ni <= 6; ni += 3) {
                    struct box outer, inner;
                    int i;

                    scen_begin("nested", m++ % M_NMODES, (no + ni) & 1);
                    /* both may be of one kind: one static, one not */
                    box_open(&outer, ko, 0);
                    box_open(&inner, ki, 1);
                    for (i = 0; i < no; i++) {
                        (void)box_add(&outer, (i * 3) % no, i);
                    }
                    for (i = 0; i < ni; i++) {
                        (void)box_add(&inner, (i * 5) % 7, i);
                    }
                    nested_target = &inner;
                    box_clear_checked(&outer);
                    CHECK(nested_target == NULL, "nested clear did not run");
                    box_check_empty(&inner);
                    box_check_reusable(&inner, 4);
                    box_check_reusable(&outer, 4);
                    scen_end();
                }
            }
        }
    }
}

/* ------------------------------------------------------------------ */
/* a second element type living in the same program                    */
/* ------------------------------------------------------------------ */

struct small
{
    struct cstl_bintree_node bn;    /* node first, key behind it */
    struct cstl_slist_node sn;
    short key;
    char live;
};

static int small_cmp(const void * const a, const void * const b, void * const p)
{
    const struct small * const sa = a, * const sb = b;
    CHECK(p == NULL, "small compare: private pointer");
    CHECK(sa->live == 1 && sb->live == 1, "small compare: dead element");
    return sa->key - sb->key;
}

static long small_calls;
static struct box * small_nested;

static void small_clr(void * const e, void * const p)
{
    struct small * const s = e;
    (void)p;
    CHECK(s->live == 1, "small element handed over twice");
    small_calls++;
    if (small_nested != NULL) {
        struct box * const t = small_nested;
        small_nested = NULL;
        box_clear_checked(t);
    }
    memset(s, 0xA5, sizeof(*s));
    free(s);
}

static void two_element_types(void)
{
    int n, m;

    for (m = 0; m < M_NMODES; m++) {
        for (n = 0; n <= 12; n++) {
            DECLARE_CSTL_BINTREE(sbt, struct small, bn, small_cmp, NULL);
            DECLARE_CSTL_SLIST(ssl, struct small, sn);
            struct box big;
            int i;

            scen_begin("two types", m, 0);
            box_open(&big, n % K_NKINDS, 1);
            for (i = 0; i < n; i++) {
                struct small * s = xmalloc(sizeof(*s));
                s->key = (short)((i * 7) % 13);
                s->live = 1;
                cstl_bintree_insert(&sbt, s, NULL);
                s = xmalloc(sizeof(*s));
                s->key = (short)i;
                s->live = 1;
                cstl_slist_push_front(&ssl, s);
                (void)box_add(&big, i % 5, i);
            }

            small_calls = 0;
            small_nested = &big;
            cstl_bintree_clear(&sbt, small_clr, NULL);
            CHECK(small_calls == n, "small bintree: %ld callbacks for %d",
                  small_calls, n);
            CHECK(cstl_bintree_size(&sbt) == 0, "small bintree size");
            if (n == 0) {
                CHECK(small_nested == &big, "callback without element");
                small_nested = NULL;
                box_clear_checked(&big);
            }
            CHECK(small_nested == NULL, "nested clear did not run");

            small_calls = 0;
            cstl_slist_clear(&ssl, small_clr);
            CHECK(small_calls == n, "small slist: %ld callbacks for %d",
                  small_calls, n);
            CHECK(cstl_slist_size(&ssl) == 0
                  && cstl_slist_front(&ssl) == NULL, "small slist state");

            box_check_reusable(&big, 5);
            scen_end();
        }
    }
}

/* ------------------------------------------------------------------ */
/* the map                                                             */
/* ------------------------------------------------------------------ */

#define MAPKEYS 24

struct mbox
{
    cstl_map_t * m;
    cstl_map_t own;
    int owner;
    int id_of[MAPKEYS];     /* registry id of the pair under each key */
    long count;
};

static cstl_map_t static_map;   /* initialised once, cleared many times */

static void map_handover(void * const obj, void * const priv)
{
    const cstl_map_iterator_t * const i = obj;
    struct mkey * k;
    struct mval * v;
    struct rec * r;

    CHECK(priv == &map_clr_cookie, "map clear: wrong private pointer");
    CHECK(i != NULL, "map clear: no iterator");
    k = (struct mkey *)i->key;
    v = i->val;
    CHECK(k != NULL && v != NULL, "map clear: empty iterator");
    CHECK(k->magic == MAGIC_KEY, "map clear: callback for a key that is "
          "not in the map (or was handed over before)");
    CHECK(k->id >= 0 && k->id < nrecs, "map clear: strange key");
    r = &recs[k->id];
    CHECK(r->p == k && r->p2 == v, "map clear: key and value do not match");
    CHECK(r->state == ST_LIVE, "map clear: pair handed over twice");
    CHECK(clearing[r->owner] != 0, "map clear: pair of another map");
    CHECK(v->magic == MAGIC_VAL && v->id == k->id
          && v->payload == k->k * 3 + 1 && k->k == r->key,
          "map clear: pair damaged");

    r->state = ST_HANDED;
    owner_calls[r->owner]++;

    if (poke != 0) {
        bystander_poke();
    }
    if (nested_target != NULL) {
        struct box * const t = nested_target;
        nested_target = NULL;
        box_clear_checked(t);
    }

    /* value first in half of the cases */
    if ((k->k & 1) != 0) {
        dispose(v, sizeof(*v));
        dispose(k, sizeof(*k));
    } else {
        dispose(k, sizeof(*k));
        dispose(v, sizeof(*v));
    }
}

static void mbox_open(struct mbox * const b, const int flavour)
{
    int i;

    memset(b, 0, sizeof(*b));
    b->owner = new_owner();
    for (i = 0; i < MAPKEYS; i++) {
        b->id_of[i] = -1;
    }
    if (flavour == 0) {
        b->m = &static_map;
    } else {
        memset(&b->own, 0xBB, sizeof(b->own));
        b->m = &b->own;
        cstl_map_init(b->m, mkey_cmp, &map_cmp_cookie);
    }
    CHECK(cstl_map_size(b->m) == 0, "map not empty when opened");
}

/* fail: -1 no injection; otherwise let that many allocations succeed */
static int mbox_insert(struct mbox * const b, const int key, const int fail,
                       const int repeat)
{
    struct mkey * const k = xmalloc(sizeof(*k));
    struct mval * const v = xmalloc(sizeof(*v));
    cstl_map_iterator_t it;
    const size_t sz = cstl_map_size(b->m);
    int res;

    memset(k, 0xEE, sizeof(*k));
    memset(v, 0xEE, sizeof(*v));
    k->magic = MAGIC_KEY;
    k->k = key;
    v->magic = MAGIC_VAL;
    v->payload = key * 3 + 1;
    k->id = v->id = -1;

    if (fail >= 0) {
        fail_countdown = fail;
        fail_repeat = repeat;
        fail_armed = 1;
    }
    res = cstl_map_insert(b->m, k, v, &it);
    fail_armed = 0;

    if (b->id_of[key] >= 0) {
        CHECK(res == 1, "insert of an existing key returned %d", res);
        CHECK(it.key == recs[b->id_of[key]].p
              && it.val == recs[b->id_of[key]].p2,
              "insert of an existing key: iterator");
        CHECK(cstl_map_size(b->m) == sz, "size after duplicate insert");
        free(k);
        free(v);
    } else if (res == 0) {
        CHECK(it.key == k && it.val == v, "insert: iterator");
        CHECK(!cstl_map_iterator_eq(&it, cstl_map_iterator_end(b->m)),
              "insert: iterator is end");
        CHECK(cstl_map_size(b->m) == sz + 1, "size after insert");
        k->id = v->id = new_rec(k, v, b->owner, key);
        b->id_of[key] = k->id;
        b->count++;
    } else {
        cstl_map_iterator_t f;
        CHECK(res == -1 && fail >= 0, "insert returned %d", res);
        CHECK(cstl_map_size(b->m) == sz, "size after failed insert");
        cstl_map_find(b->m, k, &f);
        CHECK(cstl_map_iterator_eq(&f, cstl_map_iterator_end(b->m)),
              "failed insert left the key in the map");
        free(k);
        free(v);
    }
    return res;
}

static void mbox_erase(struct mbox * const b, const int key, const int how)
{
    struct mkey probe;
    cstl_map_iterator_t it;
    const size_t sz = cstl_map_size(b->m);
    const int id = b->id_of[key];

    probe.magic = MAGIC_KEY;
    probe.k = key;

    if (how != 0 && id >= 0) {
        cstl_map_find(b->m, &probe, &it);
        CHECK(!cstl_map_iterator_eq(&it, cstl_map_iterator_end(b->m)),
              "find of a present key");
        CHECK(it.key == recs[id].p && it.val == recs[id].p2, "find: pair");
        cstl_map_erase_iterator(b->m, &it);
    } else {
        const int res = cstl_map_erase(b->m, &probe, &it);
        CHECK(res == (id >= 0 ? 0 : -1), "erase returned %d", res);
        CHECK(cstl_map_iterator_eq(&it, cstl_map_iterator_end(b->m)),
              "erase: iterator is not end");
        if (id >= 0) {
            CHECK(it.key == recs[id].p && it.val == recs[id].p2,
                  "erase: pair");
        }
    }

    if (id >= 0) {
        CHECK(cstl_map_size(b->m) == sz - 1, "size after erase");
        recs[id].state = ST_GONE;
        memset(recs[id].p, 0xDD, sizeof(struct mkey));
        memset(recs[id].p2, 0xDD, sizeof(struct mval));
        free(recs[id].p);
        free(recs[id].p2);
        b->id_of[key] = -1;
        b->count--;
    } else {
        CHECK(cstl_map_size(b->m) == sz, "size after failed erase");
    }
}

static void never_clr_map(void * const e, void * const p)
{
    (void)e; (void)p;
    FAIL("clear of an empty map called the callback");
}

static void mbox_check_contents(struct mbox * const b)
{
    int key;

    CHECK(cstl_map_size(b->m) == (size_t)b->count, "map size");
    for (key = 0; key < MAPKEYS; key++) {
        struct mkey probe;
        cstl_map_iterator_t it;

        probe.magic = MAGIC_KEY;
        probe.k = key;
        cstl_map_find(b->m, &probe, &it);
        if (b->id_of[key] >= 0) {
            CHECK(it.key == recs[b->id_of[key]].p
                  && it.val == recs[b->id_of[key]].p2, "map find: pair");
        } else {
            CHECK(cstl_map_iterator_eq(&it, cstl_map_iterator_end(b->m))
                  && it.key == NULL && it.val == NULL,
                  "map find of an absent key");
        }
    }
}

static void mbox_clear_checked(struct mbox * const b)
{
    int i;

    mbox_check_contents(b);
    CHECK(owner_calls[b->owner] == 0, "owner reused");

    clearing[b->owner] = 1;
    cstl_map_clear(b->m, map_handover, &map_clr_cookie);
    clearing[b->owner] = 0;

    CHECK(owner_calls[b->owner] == b->count, "map: %ld callbacks for %ld "
          "pairs", owner_calls[b->owner], b->count);
    for (i = 0; i < nrecs; i++) {
        if (recs[i].owner == b->owner) {
            CHECK(recs[i].state != ST_LIVE, "map: a pair was never handed "
                  "over");
        }
    }
    for (i = 0; i < MAPKEYS; i++) {
        b->id_of[i] = -1;
    }
    b->count = 0;
    owner_calls[b->owner] = 0;
    b->owner = new_owner();

    mbox_check_contents(b);
    cstl_map_clear(b->m, never_clr_map, NULL);
    mbox_check_contents(b);
    mbox_erase(b, 3, 0);
}

static void mbox_check_reusable(struct mbox * const b, const int n)
{
    struct mbox fresh;
    int i;

    mbox_open(&fresh, 1);
    for (i = 0; i < n; i++) {
        const int key = rnd() % MAPKEYS;
        const int ra = mbox_insert(b, key, -1, 0);
        const int rb = mbox_insert(&fresh, key, -1, 0);
        CHECK(ra == rb, "a cleared map does not behave like a new one");
        if (i % 4 == 3) {
            const int gone = rnd() % MAPKEYS;
            mbox_erase(b, gone, i & 4);
            mbox_erase(&fresh, gone, i & 4);
        }
        CHECK(cstl_map_size(b->m) == cstl_map_size(fresh.m),
              "a cleared map does not behave like a new one (size)");
    }
    for (i = 0; i < MAPKEYS; i++) {
        CHECK((b->id_of[i] >= 0) == (fresh.id_of[i] >= 0),
              "a cleared map does not behave like a new one (contents)");
    }
    mbox_clear_checked(b);
    mbox_clear_checked(&fresh);
}

static void map_scenarios(void)
{
    int n, i, round;
    int keys[8];

    /* every insertion order of up to 6 keys, with and without erasures */
    for (n = 0; n <= 6; n++) {
        for (i = 0; i < n; i++) {
            keys[i] = i * 3;
        }
        do {
            int variant;
            for (variant = 0; variant < (n > 1 ? 3 : 1); variant++) {
                struct mbox b;

                scen_begin("map", (int)(combo % M_NMODES),
                           (int)(combo % 7 == 0));
                combo++;
                mbox_open(&b, (int)(combo & 1));
                for (i = 0; i < n; i++) {
                    (void)mbox_insert(&b, keys[i], -1, 0);
                }
                if (variant >= 1) {
                    mbox_erase(&b, keys[1], variant - 1);
                }
                if (variant == 2) {
                    mbox_erase(&b, keys[0], 1);
                    (void)mbox_insert(&b, keys[0], -1, 0);
                    (void)mbox_insert(&b, keys[0], -1, 0);
                }
                mbox_clear_checked(&b);
                mbox_check_reusable(&b, (int)(combo % 7));
                scen_end();
            }
        } while (next_perm(keys, n));
    }

    /* every subset of 10 keys */
    for (n = 0; n < 1024; n++) {
        struct mbox b;

        scen_begin("map subsets", n % M_NMODES, n % 11 == 0);
        mbox_open(&b, n & 1);
        for (i = 0; i < 10; i++) {
            if ((n >> i) & 1) {
                (void)mbox_insert(&b, (i * 7) % MAPKEYS, -1, 0);
            }
        }
        mbox_clear_checked(&b);
        if (n % 16 == 0) {
            mbox_check_reusable(&b, 10);
        }
        scen_end();
    }

    /* random histories, allocation failures, repeated clears */
    for (round = 0; round < 400; round++) {
        struct mbox b;
        int cycle;

        scen_begin("map histories", round % M_NMODES, round % 5 == 0);
        mbox_open(&b, round & 1);
        for (cycle = 0; cycle < 3; cycle++) {
            const int ops = rnd() % 80;

            for (i = 0; i < ops; i++) {
                const int key = rnd() % MAPKEYS;
                switch (rnd() % 8) {
                case 0: case 1: case 2: case 3:
                    (void)mbox_insert(&b, key, -1, 0);
                    break;
                case 4:
                    /* the n-th allocation inside insert fails, once or
                       for good */
                    (void)mbox_insert(&b, key, rnd() % 3, 1 + rnd() % 4);
                    break;
                default:
                    mbox_erase(&b, key, rnd() & 1);
                    break;
                }
            }
            if (cycle == 1) {
                /* erased down to nothing, then cleared */
                for (i = 0; i < MAPKEYS; i++) {
                    mbox_erase(&b, i, i & 1);
                }
                CHECK(cstl_map_size(b.m) == 0, "map not drained");
            }
            mbox_clear_checked(&b);
        }
        mbox_check_reusable(&b, 16);
        scen_end();
    }

    /* a map whose every insert had to fight for memory */
    for (round = 0; round < 40; round++) {
        struct mbox b;

        scen_begin("map starved", round % M_NMODES, 0);
        mbox_open(&b, round & 1);
        for (i = 0; i < MAPKEYS * 3; i++) {
            (void)mbox_insert(&b, rnd() % MAPKEYS, rnd() % 2,
                              1 + (round % 3));
            if (i % 5 == 4) {
                mbox_erase(&b, rnd() % MAPKEYS, i & 1);
            }
        }
        mbox_clear_checked(&b);
        mbox_check_reusable(&b, 8);
        scen_end();
    }

    /* map callbacks that clear intrusive containers, and the reverse is
       covered through the bystander map */
    for (round = 0; round < K_NKINDS * 4; round++) {
        struct mbox b;
        struct box inner;

        scen_begin("map nested", round % M_NMODES, round & 1);
        mbox_open(&b, round & 1);
        box_open(&inner, round % K_NKINDS, (round >> 1) & 1);
        for (i = 0; i < 5; i++) {
            (void)mbox_insert(&b, (i * 5) % MAPKEYS, -1, 0);
            (void)box_add(&inner, i % 3, i);
        }
        nested_target = &inner;
        mbox_clear_checked(&b);
        CHECK(nested_target == NULL, "nested clear did not run");
        box_check_reusable(&inner, 5);
        mbox_check_reusable(&b, 5);
        scen_end();
    }

    /* two maps at once, cleared in turn and refilled */
    for (round = 0; round < 20; round++) {
        struct mbox a, b;

        scen_begin("two maps", round % M_NMODES, 0);
        mbox_open(&a, 0);
        mbox_open(&b, 1);
        for (i = 0; i < 30; i++) {
            (void)mbox_insert(&a, rnd() % MAPKEYS, -1, 0);
            (void)mbox_insert(&b, rnd() % MAPKEYS, -1, 0);
        }
        mbox_clear_checked(&a);
        mbox_check_contents(&b);
        for (i = 0; i < 10; i++) {
            (void)mbox_insert(&a, rnd() % MAPKEYS, -1, 0);
        }
        mbox_clear_checked(&b);
        mbox_check_contents(&a);
        mbox_clear_checked(&a);
        scen_end();
    }
}

/* ------------------------------------------------------------------ */

int main(void)
{
    const long live_at_start = live_blocks;

    cstl_map_init(&by_map, mkey_cmp, &map_cmp_cookie);
    cstl_map_init(&static_map, mkey_cmp, &map_cmp_cookie);

    all_small_states();
    random_histories();
    large_and_degenerate();
    cleared_objects_travel();
    nested_clears();
    two_element_types();
    map_scenarios();

    scenario = "end";
    mode = M_FREE;
    bystander_finish();
    cstl_map_clear(&static_map, never_clr_map, NULL);

    CHECK(live_blocks == live_at_start,
          "%ld blocks are still allocated at the end",
          live_blocks - live_at_start);

    printf("C15 ok: %ld scenarios\n", scenarios_run);
    return 0;
}
