/*
 * C03: hash lookups stay exact while the table is incrementally rehashed.
 *
 * Model based test using only the public API of cstl/hash.h.
 *
 *  - two tables (one statically initialised, one via cstl_hash_init())
 *    and a pool of objects; the model is the "where" field of each object
 *  - operations: insert (duplicate keys included), erase of members,
 *    erase of non-members (erased objects, never inserted objects,
 *    members of the *other* table), find with no visitor / accepting
 *    visitor / rejecting visitor, resize (grow, shrink, new hash function,
 *    resize during a pending rehash, failing allocation), forced rehash,
 *    shrink-to-fit, swap
 *  - part 1: exhaustive enumeration of all short operation sequences from
 *    several base states
 *  - part 2: long seeded random histories
 *  - part 3: directed boundary scenarios
 *
 * realloc() is wrapped (-Wl,--wrap=realloc) so that the growth of the
 * bucket array can be made to fail; a failed resize must leave the table
 * undisturbed.
 */
#include "cstl/hash.h"

#include <stdio.h>
#include <stdlib.h>
#include <string.h>
#include <stdint.h>

/* ------------------------------------------------------------------ */
/* allocation failure injection                                        */

void * __real_realloc(void *, size_t);
static int fail_realloc;
static unsigned long failed_reallocs;

void * __wrap_realloc(void * const p, const size_t sz)
{
    if (fail_realloc && sz != 0) {
        failed_reallocs++;
        return NULL;
    }
    return __real_realloc(p, sz);
}

/* ------------------------------------------------------------------ */

#define FAIL(...)                                                       \
    do {                                                                \
        fprintf(stderr, "FAIL %s:%d: ", __FILE__, __LINE__);            \
        fprintf(stderr, __VA_ARGS__);                                   \
        fprintf(stderr, "\n");                                          \
        exit(1);                                                        \
    } while (0)

#define NOBJ    40
#define NTAB    2

struct obj
{
    int id;
    int where;                  /* -1: in no table, else table index */
    size_t key;                 /* key of the last insertion */
    unsigned int seen;          /* scratch for the visitors */
    struct cstl_hash_node hn;
};

/* a second element type, with the node at another offset */
struct aux
{
    struct cstl_hash_node hn;
    int v;
};

static struct obj pool[NOBJ];
static DECLARE_CSTL_HASH(tab0, struct obj, hn);
static struct cstl_hash tab1;
static struct cstl_hash * tab[NTAB] = { &tab0, &tab1 };

/* an unrelated table that the callbacks use while tab[] is being used */
static DECLARE_CSTL_HASH(auxtab, struct aux, hn);
static struct aux auxobj[8];
static unsigned long hashcalls;

static void aux_poke(const size_t k)
{
    /*
     * work on another table from inside a callback of the table
     * under test: lookups, and a remove/insert pair
     */
    struct aux * const a = cstl_hash_find(&auxtab, k % 8, NULL, NULL);
    if (a == NULL || a->v != (int)(k % 8)) {
        FAIL("aux table lost element %lu", (unsigned long)(k % 8));
    }
    if ((hashcalls++ & 7) == 0) {
        cstl_hash_erase(&auxtab, a);
        cstl_hash_insert(&auxtab, k % 8, a);
        if (cstl_hash_size(&auxtab) != 8) {
            FAIL("aux table size");
        }
    }
    if ((hashcalls & 63) == 0) {
        cstl_hash_resize(&auxtab, 1 + (hashcalls >> 6) % 11, NULL);
    }
}

/* ------------------------------------------------------------------ */
/* hash functions                                                      */

static size_t hash_zero(const size_t k, const size_t m)
{
    (void)k; (void)m;
    return 0;
}

static size_t hash_last(const size_t k, const size_t m)
{
    (void)k;
    return m - 1;
}

static size_t hash_rev(const size_t k, const size_t m)
{
    return (m - 1) - (k % m);
}

static size_t hash_third(const size_t k, const size_t m)
{
    return (k / 3) % m;
}

static size_t hash_mix(const size_t k, const size_t m)
{
    size_t x = k * (size_t)2654435761u;
    x ^= x >> 7;
    return x % m;
}

static int in_hash_cb;

static size_t hash_reentrant(const size_t k, const size_t m)
{
    /* a hash function that uses another container while it runs */
    if (!in_hash_cb) {
        in_hash_cb = 1;
        aux_poke(k);
        in_hash_cb = 0;
    }
    return (k ^ (k >> 3)) % m;
}

static cstl_hash_func_t * const hashes[] = {
    NULL, cstl_hash_div, cstl_hash_mul, hash_zero, hash_last,
    hash_rev, hash_third, hash_mix, hash_reentrant,
};
#define NHASH (sizeof(hashes) / sizeof(hashes[0]))

/* ------------------------------------------------------------------ */
/* key sets                                                            */

static const size_t bigkeys[] = {
    0, 1, 2, 3, 5, 7, 8, 15, 16, 17, 31, 32, 33, 63, 64, 100, 255, 256,
    1000, 65535, 65536, 1000003, (size_t)INT32_MAX, (size_t)UINT32_MAX,
    SIZE_MAX, SIZE_MAX - 1, SIZE_MAX / 2, SIZE_MAX / 3,
};
#define NBIG (sizeof(bigkeys) / sizeof(bigkeys[0]))

/* ------------------------------------------------------------------ */
/* visitors                                                            */

struct vctx
{
    int t;                      /* table being searched */
    size_t key;                 /* key being searched */
    const struct obj * want;    /* object to accept, or NULL */
    int accept_nth;             /* accept the n-th offered (1-based), 0 no */
    int offered;
    int poke;
};

static void check_offered(const struct obj * const o, struct vctx * const c)
{
    if (o < pool || o >= pool + NOBJ || o != &pool[o->id]) {
        FAIL("visitor given a pointer that is not an element");
    }
    if (o->where != c->t) {
        FAIL("visitor offered object %d that is not in table %d (where=%d)",
             o->id, c->t, o->where);
    }
    if (o->key != c->key) {
        FAIL("visitor offered object %d with key %lu while seeking %lu",
             o->id, (unsigned long)o->key, (unsigned long)c->key);
    }
    if (o->seen != 0) {
        FAIL("object %d offered twice by one find", o->id);
    }
}

static int visit(const void * const e, void * const p)
{
    struct vctx * const c = p;
    struct obj * const o = (struct obj *)e;

    check_offered(o, c);
    o->seen = 1;
    c->offered++;
    if (c->poke) {
        aux_poke(o->key + c->offered);
    }
    if (c->want != NULL && c->want == o) {
        return 1;
    }
    if (c->accept_nth != 0 && c->offered == c->accept_nth) {
        return 7;               /* any non-zero value accepts */
    }
    return 0;
}

static int count_visit(const void * const e, void * const p)
{
    struct obj * const o = (struct obj *)e;
    struct vctx * const c = p;
    if (o < pool || o >= pool + NOBJ || o != &pool[o->id]) {
        FAIL("foreach gave a pointer that is not an element");
    }
    if (o->where != c->t) {
        FAIL("foreach visited object %d not in table %d", o->id, c->t);
    }
    if (o->seen != 0) {
        FAIL("foreach visited object %d twice", o->id);
    }
    o->seen = 1;
    c->offered++;
    return 0;
}

static void clear_seen(void)
{
    int i;
    for (i = 0; i < NOBJ; i++) {
        pool[i].seen = 0;
    }
}

static int model_count(const int t)
{
    int i, n = 0;
    for (i = 0; i < NOBJ; i++) {
        n += (pool[i].where == t);
    }
    return n;
}

static int model_count_key(const int t, const size_t k)
{
    int i, n = 0;
    for (i = 0; i < NOBJ; i++) {
        n += (pool[i].where == t && pool[i].key == k);
    }
    return n;
}

/* ------------------------------------------------------------------ */
/* checks                                                              */

static void check_size(const int t)
{
    if (cstl_hash_size(tab[t]) != (size_t)model_count(t)) {
        FAIL("table %d reports size %lu, model has %d", t,
             (unsigned long)cstl_hash_size(tab[t]), model_count(t));
    }
}

/* all the find flavours for one key */
static void check_key(const int t, const size_t k, const int poke)
{
    const int n = model_count_key(t, k);
    struct vctx c;
    struct obj * r;
    int i;

    /* no visit function: any live element with the key */
    r = cstl_hash_find(tab[t], k, NULL, NULL);
    if (n == 0) {
        if (r != NULL) {
            FAIL("find(%lu) in table %d returned something, none live",
                 (unsigned long)k, t);
        }
    } else if (r == NULL) {
        FAIL("find(%lu) in table %d returned NULL, %d live",
             (unsigned long)k, t, n);
    } else if (r < pool || r >= pool + NOBJ || r != &pool[r->id]
               || r->where != t || r->key != k) {
        FAIL("find(%lu) in table %d returned a wrong object",
             (unsigned long)k, t);
    }

    /* rejecting visitor: every live element offered exactly once */
    memset(&c, 0, sizeof(c));
    c.t = t; c.key = k; c.poke = poke;
    clear_seen();
    r = cstl_hash_find(tab[t], k, visit, &c);
    if (r != NULL) {
        FAIL("find with rejecting visitor returned an object");
    }
    if (c.offered != n) {
        FAIL("rejecting visitor for key %lu in table %d offered %d of %d",
             (unsigned long)k, t, c.offered, n);
    }

    /* accept the i-th offered */
    for (i = 1; i <= n; i++) {
        memset(&c, 0, sizeof(c));
        c.t = t; c.key = k; c.accept_nth = i;
        clear_seen();
        r = cstl_hash_find(tab[t], k, visit, &c);
        if (r == NULL || r->seen != 1 || c.offered != i
            || r->where != t || r->key != k) {
            FAIL("find accepting offer %d of %d failed", i, n);
        }
    }
    clear_seen();
}

/* object o is found / not found by identity */
static void check_obj(const int t, struct obj * const o)
{
    struct vctx c;
    struct obj * r;

    memset(&c, 0, sizeof(c));
    c.t = t; c.key = o->key; c.want = o;
    clear_seen();
    r = cstl_hash_find(tab[t], o->key, visit, &c);
    if (o->where == t) {
        if (r != o) {
            FAIL("live object %d (key %lu) not found in table %d",
                 o->id, (unsigned long)o->key, t);
        }
    } else if (r != NULL) {
        FAIL("object %d found in table %d but it is not there", o->id, t);
    }
    clear_seen();
}

/* const traversal: does not touch the rehash state */
static void check_foreach(const int t)
{
    struct vctx c;
    memset(&c, 0, sizeof(c));
    c.t = t;
    clear_seen();
    if (cstl_hash_foreach_const(tab[t], count_visit, &c) != 0) {
        FAIL("foreach_const returned non-zero");
    }
    if (c.offered != model_count(t)) {
        FAIL("foreach_const on table %d visited %d, model has %d",
             t, c.offered, model_count(t));
    }
    clear_seen();
}

static int resized[NTAB];       /* table has buckets */
static int nactive = NOBJ;      /* objects that the current phase uses */

static void check_full(const int t)
{
    int i;
    check_size(t);
    check_foreach(t);
    if (!resized[t]) {
        /* no buckets yet: nothing can be looked up */
        return;
    }
    for (i = 0; i < nactive; i++) {
        check_obj(t, &pool[i]);
    }
    for (i = 0; i < nactive; i++) {
        if (pool[i].where == t) {
            check_key(t, pool[i].key, 0);
        }
    }
    check_size(t);
    check_foreach(t);
}

/* ------------------------------------------------------------------ */
/* operations (each keeps the model in step)                           */


static void op_insert(const int t, struct obj * const o, const size_t k)
{
    if (o->where != -1 || !resized[t]) {
        return;
    }
    cstl_hash_insert(tab[t], k, o);
    o->where = t;
    o->key = k;
}

static void op_erase(const int t, struct obj * const o)
{
    /*
     * the object passed may be a member (removed), or not (no-op):
     * erased earlier, never inserted, or a member of the other table
     */
    if (!resized[t]) {
        return;
    }
    cstl_hash_erase(tab[t], o);
    if (o->where == t) {
        o->where = -1;
    }
}

static void op_resize(const int t, const size_t n, cstl_hash_func_t * const f)
{
    cstl_hash_resize(tab[t], n, f);
    if (n > 0) {
        resized[t] = 1;
    }
}

static void op_swap(void)
{
    int i;
    cstl_hash_swap(tab[0], tab[1]);
    for (i = 0; i < NOBJ; i++) {
        if (pool[i].where != -1) {
            pool[i].where = !pool[i].where;
        }
    }
    i = resized[0]; resized[0] = resized[1]; resized[1] = i;
}

static void reset_all(void)
{
    int i;
    for (i = 0; i < NTAB; i++) {
        cstl_hash_clear(tab[i], NULL);
        if (cstl_hash_size(tab[i]) != 0) {
            FAIL("size after clear");
        }
        resized[i] = 0;
    }
    for (i = 0; i < NOBJ; i++) {
        /* never-inserted objects have an all-zero node */
        memset(&pool[i], 0, sizeof(pool[i]));
        pool[i].id = i;
        pool[i].where = -1;
    }
}

/* ------------------------------------------------------------------ */
/* part 1: exhaustive short sequences                                  */

enum { X_INS, X_ERA, X_FIND, X_RESIZE, X_REHASH, X_SHRINK, X_SWAP, X_KEYS };

struct xop
{
    int kind;
    size_t a;
    cstl_hash_func_t * f;
};

/* the alphabet works on table 0, objects 0..5, keys 0..2 */
static const struct xop alphabet[] = {
    { X_INS, 0, NULL }, { X_INS, 1, NULL }, { X_INS, 2, NULL },
    { X_ERA, 0, NULL }, { X_ERA, 1, NULL }, { X_ERA, 3, NULL },
    { X_FIND, 0, NULL }, { X_FIND, 1, NULL }, { X_FIND, 2, NULL },
    { X_RESIZE, 1, NULL }, { X_RESIZE, 2, NULL }, { X_RESIZE, 3, NULL },
    { X_RESIZE, 5, NULL },
    { X_RESIZE, 3, cstl_hash_div }, { X_RESIZE, 3, hash_rev },
    { X_RESIZE, 2, hash_zero }, { X_RESIZE, 4, hash_last },
    { X_REHASH, 0, NULL }, { X_SHRINK, 0, NULL }, { X_SWAP, 0, NULL },
    { X_KEYS, 0, NULL },
};
#define NALPHA ((int)(sizeof(alphabet) / sizeof(alphabet[0])))

static unsigned long xseqs, xops;

static void x_apply(const struct xop * const op)
{
    int i;
    xops++;
    switch (op->kind) {
    case X_INS:
        /* first free object among 0..5 gets the key */
        for (i = 0; i < 6; i++) {
            if (pool[i].where == -1) {
                op_insert(0, &pool[i], op->a);
                break;
            }
        }
        break;
    case X_ERA:
        op_erase(0, &pool[op->a]);
        break;
    case X_FIND:
        if (resized[0]) {
            struct obj * const r = cstl_hash_find(tab[0], op->a, NULL, NULL);
            if ((r != NULL) != (model_count_key(0, op->a) != 0)) {
                FAIL("exhaustive: find(%lu) wrong", (unsigned long)op->a);
            }
            if (r != NULL && (r->where != 0 || r->key != op->a)) {
                FAIL("exhaustive: find(%lu) returned a wrong object",
                     (unsigned long)op->a);
            }
        }
        break;
    case X_RESIZE:
        op_resize(0, op->a, op->f);
        break;
    case X_REHASH:
        cstl_hash_rehash(tab[0]);
        break;
    case X_SHRINK:
        cstl_hash_shrink_to_fit(tab[0]);
        break;
    case X_SWAP:
        op_swap();
        op_swap();              /* and back; contents must survive */
        break;
    case X_KEYS:
        if (resized[0]) {
            check_key(0, 0, 0);
            check_key(0, 1, 0);
        }
        break;
    }
    check_size(0);
}

static void x_base(const int base)
{
    int i;
    reset_all();
    switch (base) {
    case 0:
        /* nothing at all: the first operation may be the first resize */
        break;
    case 1:
        /* settled table with duplicates */
        op_resize(0, 3, cstl_hash_div);
        op_insert(0, &pool[0], 0);
        op_insert(0, &pool[1], 1);
        op_insert(0, &pool[2], 1);
        op_insert(0, &pool[6], 4);
        break;
    case 2:
        /* growth pending, nothing swept yet */
        op_resize(0, 2, cstl_hash_div);
        for (i = 0; i < 3; i++) {
            op_insert(0, &pool[i], i);
        }
        op_insert(0, &pool[6], 1);
        op_insert(0, &pool[7], 5);
        op_resize(0, 5, hash_rev);
        break;
    case 3:
        /* shrink pending, partly swept */
        op_resize(0, 6, cstl_hash_div);
        for (i = 0; i < 3; i++) {
            op_insert(0, &pool[i], i);
        }
        op_insert(0, &pool[6], 2);
        op_insert(0, &pool[7], 5);
        op_insert(0, &pool[8], 11);
        op_resize(0, 2, NULL);
        (void)cstl_hash_find(tab[0], 5, NULL, NULL);
        break;
    case 4:
        /* emptied table with a pending change of hash function */
        op_resize(0, 4, cstl_hash_div);
        op_insert(0, &pool[0], 2);
        op_insert(0, &pool[1], 3);
        op_resize(0, 4, hash_rev);
        op_erase(0, &pool[0]);
        op_erase(0, &pool[1]);
        break;
    }
}

static void exhaustive(const int base, const int depth)
{
    int idx[8];
    int d, i;

    for (i = 0; i < depth; i++) {
        idx[i] = 0;
    }
    nactive = 10;

    for (;;) {
        x_base(base);
        for (d = 0; d < depth; d++) {
            x_apply(&alphabet[idx[d]]);
        }
        check_full(0);
        check_full(1);
        xseqs++;

        /* next sequence */
        for (d = depth - 1; d >= 0; d--) {
            if (++idx[d] < NALPHA) {
                break;
            }
            idx[d] = 0;
        }
        if (d < 0) {
            break;
        }
    }
    nactive = NOBJ;
}

/* ------------------------------------------------------------------ */
/* part 2: seeded random histories                                     */

static uint64_t rng_state;

static unsigned int rnd(void)
{
    rng_state = rng_state * 6364136223846793005ull + 1442695040888963407ull;
    return (unsigned int)(rng_state >> 33);
}

static size_t pick_key(const int mode)
{
    switch (mode) {
    case 0: return rnd() % 4;
    case 1: return rnd() % 16;
    case 2: return bigkeys[rnd() % NBIG];
    default: return (rnd() & 1) ? rnd() % 64 : bigkeys[rnd() % NBIG];
    }
}

static const size_t counts[] = {
    1, 1, 2, 2, 3, 4, 5, 7, 8, 9, 12, 13, 16, 17, 23, 31, 32, 64, 97,
};
#define NCOUNTS (sizeof(counts) / sizeof(counts[0]))

static unsigned long rops;

static void random_history(const uint64_t seed, const int nops)
{
    const int keymode = seed % 4;
    int step;

    rng_state = seed * 0x9e3779b97f4a7c15ull + 12345;
    reset_all();

    for (step = 0; step < nops; step++) {
        const int t = rnd() & 1;
        const unsigned int r = rnd() % 100;
        struct obj * const o = &pool[rnd() % NOBJ];

        rops++;

        if (!resized[t] && r < 80) {
            op_resize(t, counts[rnd() % NCOUNTS], hashes[rnd() % NHASH]);
        } else if (r < 30) {
            op_insert(t, o, pick_key(keymode));
        } else if (r < 34) {
            /* a burst of duplicates */
            const size_t k = pick_key(keymode);
            int i;
            for (i = 0; i < 5; i++) {
                op_insert(t, &pool[rnd() % NOBJ], k);
            }
        } else if (r < 50) {
            op_erase(t, o);
        } else if (r < 62) {
            if (resized[t]) {
                check_key(t, pick_key(keymode), rnd() & 1);
            }
        } else if (r < 72) {
            if (resized[t]) {
                check_obj(t, o);
            }
        } else if (r < 82) {
            op_resize(t, counts[rnd() % NCOUNTS], hashes[rnd() % NHASH]);
        } else if (r < 85) {
            /* several resizes back to back, each landing on a pending one */
            int i;
            const int n = 2 + rnd() % 3;
            for (i = 0; i < n; i++) {
                op_resize(t, counts[rnd() % NCOUNTS], hashes[rnd() % NHASH]);
                if (rnd() & 1) {
                    check_obj(t, &pool[rnd() % NOBJ]);
                }
            }
        } else if (r < 87) {
            /* growth that cannot get memory leaves the table alone */
            const size_t sz0 = cstl_hash_size(tab[t]);
            fail_realloc = 1;
            cstl_hash_resize(tab[t], 1000 + rnd() % 1000, hashes[rnd() % NHASH]);
            fail_realloc = 0;
            if (cstl_hash_size(tab[t]) != sz0) {
                FAIL("failed resize changed the size");
            }
            check_foreach(t);
        } else if (r < 90) {
            cstl_hash_rehash(tab[t]);
        } else if (r < 93) {
            cstl_hash_shrink_to_fit(tab[t]);
        } else if (r < 95) {
            op_swap();
        } else if (r < 96) {
            cstl_hash_resize(tab[t], 0, hashes[rnd() % NHASH]); /* no-op */
        } else if (r < 98) {
            check_foreach(t);
        } else if (r < 99) {
            if (resized[t]) {
                check_full(t);
            }
        } else {
            /* drain by erasing everything, then keep going */
            int i;
            for (i = 0; i < NOBJ; i++) {
                if (pool[i].where == t && (rnd() % 8) != 0) {
                    op_erase(t, &pool[i]);
                }
            }
        }

        check_size(0);
        check_size(1);
    }

    for (step = 0; step < NTAB; step++) {
        if (resized[step]) {
            check_full(step);
        } else {
            check_size(step);
        }
    }
}

/* ------------------------------------------------------------------ */
/* part 3: directed scenarios                                          */

static void lookups_at_every_stage(const size_t from, const size_t to,
                                   cstl_hash_func_t * const f0,
                                   cstl_hash_func_t * const f1,
                                   const int nobj, const int stride)
{
    /*
     * for every number s of single-key lookups performed after the
     * resize, do s lookups and then verify the entire table
     */
    int s, i;

    for (s = 0; s <= (int)(from > to ? from : to) + 2; s++) {
        reset_all();
        op_resize(0, from, f0);
        for (i = 0; i < nobj; i++) {
            op_insert(0, &pool[i], (size_t)(i * stride) % 11);
        }
        op_resize(0, to, f1);
        for (i = 0; i < s; i++) {
            const size_t k = (size_t)(i * 3) % 11;
            struct obj * const r = cstl_hash_find(tab[0], k, NULL, NULL);
            if ((r != NULL) != (model_count_key(0, k) != 0)) {
                FAIL("stage %d: find(%lu) wrong", s, (unsigned long)k);
            }
            if ((i % 3) == 1) {
                /* mutate during the sweep */
                op_erase(0, &pool[i % nobj]);
                op_insert(0, &pool[i % nobj], (size_t)(i + s) % 11);
            }
        }
        if (s & 1) {
            /* land another resize on the one in progress */
            op_resize(0, (from + to) / 2 + 1, (s & 2) ? f0 : NULL);
        }
        check_foreach(0);
        check_full(0);
        cstl_hash_rehash(tab[0]);
        check_full(0);
        cstl_hash_shrink_to_fit(tab[0]);
        check_full(0);
    }
}

static void directed(void)
{
    static cstl_hash_func_t * const fs[] = {
        cstl_hash_div, cstl_hash_mul, hash_zero, hash_last, hash_rev,
        hash_third, hash_mix, hash_reentrant,
    };
    const size_t nf = sizeof(fs) / sizeof(fs[0]);
    size_t a, b;
    int i;

    for (a = 0; a < nf; a++) {
        for (b = 0; b < nf; b++) {
            lookups_at_every_stage(4, 9, fs[a], fs[b], 20, 1);
            lookups_at_every_stage(9, 4, fs[a], fs[b], 20, 3);
            lookups_at_every_stage(7, 7, fs[a], fs[b], 30, 5);
            lookups_at_every_stage(1, 13, fs[a], fs[b], NOBJ, 7);
            lookups_at_every_stage(13, 1, fs[a], fs[b], NOBJ, 2);
        }
    }

    /* resizes of an empty table, then use */
    reset_all();
    op_resize(0, 5, NULL);
    op_resize(0, 2, cstl_hash_div);
    op_resize(0, 9, hash_rev);
    check_full(0);
    for (i = 0; i < 10; i++) {
        op_insert(0, &pool[i], (size_t)i % 4);
    }
    check_full(0);
    for (i = 0; i < 10; i++) {
        op_erase(0, &pool[i]);
    }
    check_full(0);
    op_resize(0, 3, hash_last);
    op_resize(0, 17, NULL);
    for (i = 0; i < NOBJ; i++) {
        op_insert(0, &pool[i], bigkeys[i % NBIG]);
        check_obj(0, &pool[i]);
    }
    check_full(0);

    /* all elements share one key; erase each exact object mid-sweep */
    reset_all();
    op_resize(0, 8, cstl_hash_div);
    for (i = 0; i < NOBJ; i++) {
        op_insert(0, &pool[i], 42);
    }
    op_resize(0, 3, hash_mix);
    for (i = 0; i < NOBJ; i += 2) {
        op_erase(0, &pool[i]);
        op_erase(0, &pool[i]);          /* twice: second is a no-op */
        check_obj(0, &pool[i]);
        check_obj(0, &pool[i + 1]);
        if (i == 10) {
            op_resize(0, 31, cstl_hash_mul);
        }
        if (i == 20) {
            op_swap();
            check_full(1);
            op_swap();
        }
    }
    check_full(0);
    if (cstl_hash_size(tab[0]) != NOBJ / 2) {
        FAIL("size after erasing half");
    }

    /* table 1 is initialised with cstl_hash_init(), never resized: size */
    reset_all();
    check_size(1);
    cstl_hash_rehash(tab[1]);
    cstl_hash_shrink_to_fit(tab[1]);
    cstl_hash_resize(tab[1], 0, NULL);
    check_size(1);
    check_foreach(1);
}

/* ------------------------------------------------------------------ */

int main(void)
{
    size_t i, j;
    uint64_t seed;

    /* the stock hash functions stay in range for the values used */
    for (i = 0; i < NBIG; i++) {
        for (j = 0; j < NCOUNTS; j++) {
            if (cstl_hash_mul(bigkeys[i], counts[j]) >= counts[j]
                || cstl_hash_div(bigkeys[i], counts[j]) >= counts[j]) {
                FAIL("stock hash function out of range");
            }
        }
    }

    for (i = 0; i < 64; i++) {
        for (j = 0; j < NCOUNTS; j++) {
            if (cstl_hash_mul(i, counts[j]) >= counts[j]) {
                FAIL("cstl_hash_mul out of range");
            }
        }
    }

    cstl_hash_init(&tab1, offsetof(struct obj, hn));

    cstl_hash_resize(&auxtab, 5, cstl_hash_div);
    for (i = 0; i < 8; i++) {
        auxobj[i].v = (int)i;
        cstl_hash_insert(&auxtab, i, &auxobj[i]);
    }

    /* part 1 */
    exhaustive(0, 4);
    exhaustive(1, 4);
    exhaustive(2, 4);
    exhaustive(3, 4);
    exhaustive(4, 4);
    exhaustive(2, 5);

    /* part 2 */
    for (seed = 1; seed <= 400; seed++) {
        random_history(seed, 1500);
    }
    for (seed = 1000; seed < 1010; seed++) {
        random_history(seed, 40000);
    }

    /* part 3 */
    directed();

    reset_all();
    cstl_hash_clear(&auxtab, NULL);

    if (failed_reallocs == 0) {
        FAIL("allocation failure was never injected");
    }

    printf("C03 ok: %lu exhaustive sequences (%lu ops), %lu random ops, "
           "%lu refused allocations\n",
           xseqs, xops, rops, failed_reallocs);
    return 0;
}
