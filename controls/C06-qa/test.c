/*
 * C06 / change a: fast paths and early exits in the reference counting
 * (sole-reference teardown without read-modify-write, lock() on a dead
 * block without taking the spin flag).
 *
 * Only the public API is used. The program checks, single-threaded and with
 * real threads, that the clear function runs exactly once per allocation,
 * only after the last owner is gone, and that a successful lock yields
 * memory that stays intact until that owner is reset.
 */
#include "cstl/memory.h"

#include <pthread.h>
#include <stdatomic.h>
#include <stdint.h>
#include <stdio.h>
#include <string.h>

#define LIVE 0x5a5a5a5au
#define DEAD 0xdeaddeadu
#define WORDS 16

static atomic_uint cleared;
static atomic_uint bad;

#define CHECK(c) do { if (!(c)) { atomic_fetch_add(&bad, 1); \
    fprintf(stderr, "%s:%d: %s\n", __FILE__, __LINE__, #c); } } while (0)

static void clr(void * const mem, void * const priv)
{
    uint32_t * const w = mem;
    unsigned i;
    CHECK(priv == NULL);
    for (i = 0; i < WORDS; i++) {
        CHECK(w[i] == LIVE);
        w[i] = DEAD;
    }
    atomic_fetch_add(&cleared, 1);
}

static void fill(cstl_shared_ptr_t * const sp)
{
    uint32_t * const w = cstl_shared_ptr_get(sp);
    unsigned i;
    for (i = 0; i < WORDS; i++) {
        w[i] = LIVE;
    }
}

static void check_live(const cstl_shared_ptr_t * const sp)
{
    const uint32_t * const w = cstl_shared_ptr_get_const(sp);
    unsigned i;
    CHECK(w != NULL);
    for (i = 0; w != NULL && i < WORDS; i++) {
        CHECK(w[i] == LIVE);
    }
}

static void sequential(void)
{
    DECLARE_CSTL_SHARED_PTR(s1);
    DECLARE_CSTL_SHARED_PTR(s2);
    DECLARE_CSTL_WEAK_PTR(w1);
    DECLARE_CSTL_WEAK_PTR(w2);
    unsigned base = atomic_load(&cleared);

    /* resetting empty objects is harmless */
    cstl_shared_ptr_reset(&s1);
    cstl_weak_ptr_reset(&w1);
    cstl_weak_ptr_lock(&w1, &s1);
    CHECK(cstl_shared_ptr_get(&s1) == NULL);
    CHECK(cstl_shared_ptr_unique(&s1));

    /* sole reference: alloc + reset */
    cstl_shared_ptr_alloc(&s1, WORDS * sizeof(uint32_t), clr);
    fill(&s1);
    CHECK(cstl_shared_ptr_unique(&s1));
    cstl_shared_ptr_reset(&s1);
    CHECK(cstl_shared_ptr_get(&s1) == NULL);
    CHECK(atomic_load(&cleared) == base + 1);

    /* re-alloc over a live sole reference */
    cstl_shared_ptr_alloc(&s1, WORDS * sizeof(uint32_t), clr);
    fill(&s1);
    cstl_shared_ptr_alloc(&s1, WORDS * sizeof(uint32_t), clr);
    CHECK(atomic_load(&cleared) == base + 2);
    fill(&s1);

    /* two owners, one weak */
    cstl_shared_ptr_share(&s1, &s2);
    cstl_weak_ptr_from(&w1, &s1);
    cstl_weak_ptr_from(&w2, &s2);
    CHECK(!cstl_shared_ptr_unique(&s1));
    cstl_shared_ptr_reset(&s1);
    CHECK(atomic_load(&cleared) == base + 2);
    check_live(&s2);
    cstl_weak_ptr_lock(&w1, &s1);
    check_live(&s1);
    CHECK(cstl_shared_ptr_get(&s1) == cstl_shared_ptr_get(&s2));
    cstl_shared_ptr_reset(&s1);
    cstl_shared_ptr_reset(&s2);
    CHECK(atomic_load(&cleared) == base + 3);

    /* dead block, two weak pointers left: lock fails, repeatedly */
    cstl_weak_ptr_lock(&w2, &s2);
    CHECK(cstl_shared_ptr_get(&s2) == NULL);
    cstl_weak_ptr_lock(&w1, &s1);
    CHECK(cstl_shared_ptr_get(&s1) == NULL);
    cstl_weak_ptr_lock(&w1, &s2);
    CHECK(cstl_shared_ptr_get(&s2) == NULL);
    cstl_weak_ptr_swap(&w1, &w2);
    cstl_weak_ptr_lock(&w2, &s1);
    CHECK(cstl_shared_ptr_get(&s1) == NULL);
    cstl_weak_ptr_reset(&w2);
    cstl_weak_ptr_lock(&w1, &s2);
    CHECK(cstl_shared_ptr_get(&s2) == NULL);
    cstl_weak_ptr_reset(&w1); /* last reference of any kind */
    CHECK(atomic_load(&cleared) == base + 3);
    /* a weak pointer made from an empty shared pointer is empty */
    cstl_weak_ptr_from(&w2, &s2);
    cstl_weak_ptr_lock(&w2, &s1);
    CHECK(cstl_shared_ptr_get(&s1) == NULL);
    cstl_weak_ptr_reset(&w2);

    /* owner goes last, after the weak pointer */
    cstl_shared_ptr_alloc(&s1, WORDS * sizeof(uint32_t), clr);
    fill(&s1);
    cstl_weak_ptr_from(&w1, &s1);
    CHECK(!cstl_shared_ptr_unique(&s1));
    cstl_weak_ptr_reset(&w1);
    CHECK(cstl_shared_ptr_unique(&s1));
    check_live(&s1);
    cstl_shared_ptr_reset(&s1);
    CHECK(atomic_load(&cleared) == base + 4);
}

/*
 * threaded part: the main thread owns the allocation; each worker has its
 * own shared and weak pointer objects
 */
#define NTHR 4
#define ROUNDS 200
#define ITERS 2000

struct worker
{
    pthread_t thr;
    pthread_barrier_t * go;
    cstl_shared_ptr_t sp;
    cstl_weak_ptr_t wp;
    unsigned id, hits, misses;
};

static void * work(void * const arg)
{
    struct worker * const w = arg;
    cstl_shared_ptr_t t;
    cstl_weak_ptr_t u;
    unsigned i;
    int dead = 0;

    cstl_shared_ptr_init(&t);
    cstl_weak_ptr_init(&u);

    pthread_barrier_wait(w->go);

    for (i = 0; i < ITERS; i++) {
        switch ((i + w->id) % 4) {
        case 0:
            cstl_weak_ptr_lock(&w->wp, &t);
            if (cstl_shared_ptr_get(&t) != NULL) {
                CHECK(!dead);
                check_live(&t);
                w->hits++;
            } else {
                dead = 1;
                w->misses++;
            }
            break;
        case 1:
            if (cstl_shared_ptr_get(&w->sp) != NULL) {
                check_live(&w->sp);
                cstl_shared_ptr_share(&w->sp, &t);
                check_live(&t);
                cstl_weak_ptr_from(&u, &t);
            }
            break;
        case 2:
            if (cstl_shared_ptr_get(&t) != NULL) {
                check_live(&t);
            }
            cstl_shared_ptr_reset(&t);
            cstl_weak_ptr_reset(&u);
            break;
        case 3:
            if (i > ITERS / 2 + w->id * 7) {
                /* drop the long-lived owner part way through */
                if (cstl_shared_ptr_get(&w->sp) != NULL) {
                    check_live(&w->sp);
                }
                cstl_shared_ptr_reset(&w->sp);
            }
            break;
        }
    }

    if (cstl_shared_ptr_get(&t) != NULL) {
        check_live(&t);
    }
    cstl_shared_ptr_reset(&t);
    cstl_weak_ptr_reset(&u);
    cstl_shared_ptr_reset(&w->sp);
    /* everybody has dropped ownership only after the barrier below */
    return NULL;
}

static void threaded(void)
{
    unsigned r, i;
    unsigned long hits = 0, misses = 0;

    for (r = 0; r < ROUNDS; r++) {
        struct worker w[NTHR];
        pthread_barrier_t go;
        DECLARE_CSTL_SHARED_PTR(root);
        const unsigned base = atomic_load(&cleared);

        cstl_shared_ptr_alloc(&root, WORDS * sizeof(uint32_t), clr);
        fill(&root);

        pthread_barrier_init(&go, NULL, NTHR + 1);
        for (i = 0; i < NTHR; i++) {
            w[i].go = &go;
            w[i].id = i;
            w[i].hits = w[i].misses = 0;
            cstl_shared_ptr_init(&w[i].sp);
            cstl_weak_ptr_init(&w[i].wp);
            /* odd workers start with an owner, all with a weak pointer */
            if ((i + r) % 2 == 1) {
                cstl_shared_ptr_share(&root, &w[i].sp);
            }
            cstl_weak_ptr_from(&w[i].wp, &root);
            pthread_create(&w[i].thr, NULL, work, &w[i]);
        }

        pthread_barrier_wait(&go);
        /* the main thread drops its ownership while the workers run */
        cstl_shared_ptr_reset(&root);

        for (i = 0; i < NTHR; i++) {
            pthread_join(w[i].thr, NULL);
            hits += w[i].hits;
            misses += w[i].misses;
        }
        pthread_barrier_destroy(&go);

        /* no owner is left: cleared exactly once */
        CHECK(atomic_load(&cleared) == base + 1);

        for (i = 0; i < NTHR; i++) {
            DECLARE_CSTL_SHARED_PTR(t);
            cstl_weak_ptr_lock(&w[i].wp, &t);
            CHECK(cstl_shared_ptr_get(&t) == NULL);
            cstl_weak_ptr_reset(&w[i].wp);
        }
        CHECK(atomic_load(&cleared) == base + 1);
    }

    printf("threaded: %lu successful locks, %lu failed locks\n", hits, misses);
}

int main(void)
{
    sequential();
    threaded();
    if (atomic_load(&bad) != 0) {
        printf("FAIL (%u)\n", atomic_load(&bad));
        return 1;
    }
    printf("OK\n");
    return 0;
}
