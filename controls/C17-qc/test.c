/*
 * C17 / c: rehashing with in-range functions never aborts and never loses
 * or duplicates an element; rehashing with an out-of-range one aborts.
 *
 * Part 1 is a randomised, model-based run: random inserts (many duplicate
 * keys), erases, keyed lookups, const traversals, forced rehashes, shrinks
 * and resizes to random geometries with a rotating set of valid hash
 * functions, including ones that keep most nodes in the bucket they are
 * already in (identity on small keys, constant, "last bucket"). After every
 * step that may move nodes the table is compared with the model: a keyed
 * lookup without a visit function returns SOME live element with that key
 * (or NULL when there is none), a lookup with a visit function finds each
 * particular element, the traversal sees each live element exactly once.
 * Every value the hash functions return is checked to be in [0, m).
 *
 * Part 2 (children): a function that is out of range (m, m + 1, SIZE_MAX)
 * for one key that is in the table is installed by a resize; then either a
 * keyed operation on that key, a forced rehash or a traversal must abort;
 * operations on other keys may or may not get that far, but if they return
 * they must return the right answer.
 *
 * Nothing depends on chain order, on which duplicate a lookup reports, or
 * on the number or order of hash function invocations.
 */
#include "cstl/hash.h"

#include <stdio.h>
#include <stdlib.h>
#include <stdint.h>
#include <signal.h>
#include <unistd.h>
#include <sys/wait.h>

#define CHECK(X) do { if (!(X)) { \
    fprintf(stderr, "FAIL %s:%d: %s\n", __FILE__, __LINE__, #X); \
    exit(1); } } while (0)

static uint64_t rng_state = 0x9e3779b97f4a7c15ull;
static uint64_t rng(void)
{
    rng_state ^= rng_state >> 12;
    rng_state ^= rng_state << 25;
    rng_state ^= rng_state >> 27;
    return rng_state * 0x2545f4914f6cdd1dull;
}

struct item
{
    struct cstl_hash_node hn;
    size_t key;
    int in, seen;
};

#define N 400
#define NKEY 60
static struct item items[N];
static unsigned int per_key[NKEY];
static unsigned long results;

static size_t in_range(const size_t r, const size_t m)
{
    CHECK(m >= 1 && r < m);
    results++;
    return r;
}
#define RANGE(R, M) in_range(R, M)

static size_t f_div(const size_t k, const size_t m)
{
    return RANGE(cstl_hash_div(k, m), m);
}
static size_t f_mul(const size_t k, const size_t m)
{
    return RANGE(cstl_hash_mul(k, m), m);
}
static size_t f_zero(const size_t k, const size_t m)
{
    (void)k;
    return RANGE((size_t)0, m);
}
static size_t f_last(const size_t k, const size_t m)
{
    (void)k;
    return RANGE(m - 1, m);
}
static size_t f_clamp(const size_t k, const size_t m)
{
    /* identity on small keys: growing the table moves almost nothing */
    return RANGE(k < m ? k : m - 1, m);
}
static size_t f_half(const size_t k, const size_t m)
{
    return RANGE((k / 2) % m, m);
}

static cstl_hash_func_t * const funcs[] = {
    f_div, f_mul, f_zero, f_last, f_clamp, f_half, NULL, NULL,
};

static int same_item(const void * const e, void * const p)
{
    return e == p;
}

static int mark_visit(const void * const e, void * const p)
{
    struct item * const it = (struct item *)e;
    CHECK(it >= items && it < items + N && it->in && !it->seen);
    it->seen = 1;
    ++*(size_t *)p;
    return 0;
}

static void audit(struct cstl_hash * const h)
{
    size_t i, n = 0, live = 0;

    for (i = 0; i < NKEY; i++) {
        const struct item * const it = cstl_hash_find(h, i * 7, NULL, NULL);
        if (per_key[i] == 0) {
            CHECK(it == NULL);
        } else {
            CHECK(it != NULL && it >= items && it < items + N);
            CHECK(it->in && it->key == i * 7);
        }
    }
    CHECK(cstl_hash_find(h, 5, NULL, NULL) == NULL);

    for (i = 0; i < N; i++) {
        void * const f = cstl_hash_find(h, items[i].key, same_item, &items[i]);
        CHECK(f == (items[i].in ? &items[i] : NULL));
        live += items[i].in;
        items[i].seen = 0;
    }
    CHECK(cstl_hash_size(h) == live);

    cstl_hash_foreach_const(h, mark_visit, &n);
    CHECK(n == live);
}

static void part1(void)
{
    DECLARE_CSTL_HASH(h, struct item, hn);
    unsigned int step;
    size_t i;

    for (i = 0; i < N; i++) {
        items[i].key = (size_t)(rng() % NKEY) * 7;
    }

    cstl_hash_resize(&h, 10, f_clamp);

    for (step = 0; step < 6000; step++) {
        const unsigned int what = rng() % 100;
        struct item * const it = &items[rng() % N];

        if (what < 45) {
            if (!it->in) {
                cstl_hash_insert(&h, it->key, it);
                it->in = 1;
                per_key[it->key / 7]++;
            }
        } else if (what < 80) {
            if (it->in) {
                cstl_hash_erase(&h, it);
                it->in = 0;
                per_key[it->key / 7]--;
            }
        } else if (what < 90) {
            void * const f = cstl_hash_find(&h, it->key, same_item, it);
            CHECK(f == (it->in ? it : NULL));
        } else if (what < 94) {
            size_t count = 1 + rng() % 97;
            if (rng() % 4 == 0) {
                count = 1 + rng() % 4;
            }
            cstl_hash_resize(&h, count, funcs[rng() % 8]);
            audit(&h);
        } else if (what < 96) {
            cstl_hash_rehash(&h);
            audit(&h);
        } else if (what < 98) {
            cstl_hash_shrink_to_fit(&h);
            audit(&h);
        } else {
            audit(&h);
        }
    }

    audit(&h);
    cstl_hash_clear(&h, NULL);
}

/* ---- fail-stop ---- */

static size_t bad_key, bad_excess;
static int bad_max;

static size_t f_bad(const size_t k, const size_t m)
{
    if (k == bad_key) {
        return bad_max ? SIZE_MAX : m + bad_excess;
    }
    return k % m;
}

static int noop_visit(void * const e, void * const p)
{
    (void)e; (void)p;
    return 0;
}

static void child(const unsigned int op)
{
    DECLARE_CSTL_HASH(h, struct item, hn);
    size_t i;

    /* 30 elements, keys 100..109 three times each, in 4 buckets */
    cstl_hash_resize(&h, 4, cstl_hash_div);
    for (i = 0; i < 30; i++) {
        items[i].key = 100 + i % 10;
        cstl_hash_insert(&h, items[i].key, &items[i]);
    }
    bad_key = 104;

    /* same bucket count, new function: everything has to be re-placed */
    cstl_hash_resize(&h, (op & 1) ? 4 : 9, f_bad);

    switch (op / 2) {
    case 0: cstl_hash_find(&h, 104, NULL, NULL); break;
    case 1: cstl_hash_erase(&h, &items[14]); break;
    case 2: cstl_hash_insert(&h, 104, &items[30]); break;
    case 3: cstl_hash_rehash(&h); break;
    case 4: cstl_hash_foreach(&h, noop_visit, NULL); break;
    case 5:
        /* other keys: right answer or abort, and in the end abort */
        for (i = 0; i < 30; i++) {
            if (items[i].key != 104) {
                CHECK(cstl_hash_find(&h, items[i].key, same_item, &items[i])
                      == &items[i]);
            }
        }
        CHECK(cstl_hash_find(&h, 99, NULL, NULL) == NULL);
        cstl_hash_rehash(&h);
        break;
    default: break;
    }

    /* not reached if the library is fail-stop */
    _exit(0);
}

static unsigned int part2(void)
{
    unsigned int b, op, n = 0;

    for (b = 0; b < 3; b++) {
        bad_excess = (b == 1);
        bad_max = (b == 2);

        for (op = 0; op < 12; op++) {
            pid_t pid;
            int st;

            fflush(NULL);
            pid = fork();
            CHECK(pid >= 0);
            if (pid == 0) {
                child(op);
            }
            CHECK(waitpid(pid, &st, 0) == pid);
            if (!WIFSIGNALED(st) || WTERMSIG(st) != SIGABRT) {
                fprintf(stderr, "FAIL: bad=%u op=%u: status %#x, "
                        "expected SIGABRT\n", b, op, st);
                exit(1);
            }
            n++;
        }
    }

    return n;
}

int main(void)
{
    unsigned int n;

    part1();
    n = part2();

    printf("ok: %lu in-range hash results, %u fail-stop cases aborted\n",
           results, n);
    return 0;
}
