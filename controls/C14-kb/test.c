/*
 * C14 negative control (b): exercising test.
 *
 * build + run (from the worktree root):
 *   make build && gcc -std=c99 -D_POSIX_C_SOURCE=199309L -Wall -Iinclude -o _keep/b/test _keep/b/test.c build/libcstl.a -lm -Wl,--wrap=malloc -Wl,--wrap=free && ./_keep/b/test
 *
 * Model-based test of cstl_array_{alloc,set,slice,unslice,reset,release,at,
 * data,size} through the public API only. Four array objects are driven next
 * to a model (buffer handle, offset, length per object; base/count/size/
 * reference count per buffer handle) by directed scenarios and by seeded
 * random histories. malloc/free are wrapped (ld --wrap) to
 *   - know which heap blocks are live, so that every address returned by
 *     cstl_array_at can be checked to lie inside a live block (or inside the
 *     externally supplied buffer),
 *   - detect double/foreign frees and leaks, and check that the block holding
 *     an internally allocated buffer is gone once its last user is gone,
 *   - inject allocation failures ("a failed allocation leaves the object
 *     empty"), without assuming which of the library's allocations fails.
 * abort() is observed with a SIGABRT handler that siglongjmp()s back.
 * Exit status 0 on success.
 */
#include <stdio.h>
#include <stdlib.h>
#include <string.h>
#include <stdint.h>
#include <signal.h>
#include <setjmp.h>

#include "cstl/array.h"

/* ---- failure reporting ---- */
static unsigned long fails;
#define CHECK(C)                                                        \
    do {                                                                \
        if (!(C)) {                                                     \
            fails++;                                                    \
            if (fails < 20) {                                           \
                fprintf(stderr, "%s:%d: check failed: %s\n",            \
                        __FILE__, __LINE__, #C);                        \
            }                                                           \
        }                                                               \
    } while (0)

/* ---- heap tracking ---- */
void * __real_malloc(size_t);

#define MAXBLK 4096
static struct blk
{
    unsigned char * p;
    size_t sz;
    int live;
} blks[MAXBLK];
static size_t nblks;
static long fail_countdown;     /* >0: the n-th malloc from now fails */
static int fail_fired;

void * __wrap_malloc(size_t sz)
{
    void * p;
    if (fail_countdown > 0 && --fail_countdown == 0) {
        fail_fired = 1;
        return NULL;
    }
    p = __real_malloc(sz);
    if (p != NULL) {
        if (nblks == MAXBLK) {
            fprintf(stderr, "block table full\n");
            exit(2);
        }
        blks[nblks].p = p;
        blks[nblks].sz = sz;
        blks[nblks].live = 1;
        nblks++;
    }
    return p;
}

/*
 * freed blocks are poisoned and quarantined (never handed back to the
 * real allocator), so that no address is ever reused: "is this address
 * inside a live block" then is an exact question
 */
void __wrap_free(void * p)
{
    size_t i;
    if (p == NULL) {
        return;
    }
    for (i = nblks; i > 0; i--) {
        if (blks[i - 1].live && blks[i - 1].p == (unsigned char *)p) {
            blks[i - 1].live = 0;
            memset(p, 0xdd, blks[i - 1].sz);
            return;
        }
    }
    /* double free, or free of something that never came from malloc */
    CHECK(!"free() of a block that is not live");
}

static size_t live_blocks(void)
{
    size_t i, n = 0;
    for (i = 0; i < nblks; i++) {
        n += blks[i].live;
    }
    return n;
}

/* is [p, p+len) inside one live heap block? */
static int in_live_block(const void * const p, const size_t len)
{
    const unsigned char * const c = p;
    size_t i;
    for (i = 0; i < nblks; i++) {
        if (blks[i].live && c >= blks[i].p
            && c + len <= blks[i].p + blks[i].sz) {
            return 1;
        }
    }
    return 0;
}

/* ---- abort catching ---- */
static sigjmp_buf abort_env;
static void on_abort(int sig)
{
    (void)sig;
    siglongjmp(abort_env, 1);
}

/*
 * each of these returns 1 if the wrapped call aborted and 0 if it returned.
 * (sigsetjmp is only used as the whole controlling expression of an if.)
 */
static int aborts_at(cstl_array_t * const a, const size_t i,
                     void ** const out)
{
    if (sigsetjmp(abort_env, 1) != 0) {
        return 1;
    }
    *out = cstl_array_at(a, i);
    return 0;
}

static int aborts_slice(cstl_array_t * const a, const size_t beg,
                        const size_t end, cstl_array_t * const s)
{
    if (sigsetjmp(abort_env, 1) != 0) {
        return 1;
    }
    cstl_array_slice(a, beg, end, s);
    return 0;
}

static int aborts_unslice(cstl_array_t * const s, cstl_array_t * const a)
{
    if (sigsetjmp(abort_env, 1) != 0) {
        return 1;
    }
    cstl_array_unslice(s, a);
    return 0;
}

static int aborts_alloc(cstl_array_t * const a, const size_t nm,
                        const size_t sz)
{
    if (sigsetjmp(abort_env, 1) != 0) {
        return 1;
    }
    cstl_array_alloc(a, nm, sz);
    return 0;
}

static int aborts_set(cstl_array_t * const a, void * const buf,
                      const size_t nm, const size_t sz)
{
    if (sigsetjmp(abort_env, 1) != 0) {
        return 1;
    }
    cstl_array_set(a, buf, nm, sz);
    return 0;
}

static int aborts_release(cstl_array_t * const a, void ** const buf)
{
    if (sigsetjmp(abort_env, 1) != 0) {
        return 1;
    }
    cstl_array_release(a, buf);
    return 0;
}

/* ---- the model ---- */
#define NOBJ    4
#define NEXT    3
#define EXTLEN  96

static cstl_array_t A[NOBJ];

struct mbuf
{
    int ext;                    /* index of external memory, or -1 */
    unsigned char * base;
    size_t nm, sz;
    int refs;
};
#define MAXBUF 4096
static struct mbuf B[MAXBUF];
static size_t nbufs;

static struct
{
    long buf;                   /* index into B, or -1: empty */
    size_t off, len;
} M[NOBJ];

static uint64_t extmem[NEXT][EXTLEN / 8];

static void drop(const int i)
{
    const long b = M[i].buf;
    M[i].buf = -1;
    M[i].off = M[i].len = 0;
    if (b >= 0) {
        B[b].refs--;
    }
}

/* after a library call: dead internal buffers must have been given back */
static void check_dead(const long b)
{
    if (b >= 0 && B[b].refs == 0 && B[b].ext < 0 && B[b].nm > 0) {
        CHECK(!in_live_block(B[b].base, 1));
    }
}

static void verify(void)
{
    int i;
    size_t nlive = 0, b;

    for (i = 0; i < NOBJ; i++) {
        size_t k;
        const size_t len = M[i].len;
        void * got = NULL;

        CHECK(cstl_array_size(&A[i]) == len);
        if (M[i].buf < 0) {
            CHECK(cstl_array_data(&A[i]) == NULL);
            CHECK(len == 0);
        } else {
            const struct mbuf * const mb = &B[M[i].buf];
            CHECK(cstl_array_data(&A[i]) == mb->base);
            CHECK(M[i].off <= mb->nm && len <= mb->nm - M[i].off);
            for (k = 0; k < len; k++) {
                unsigned char * const want =
                    mb->base + (M[i].off + k) * mb->sz;
                if (k > 40 && k + 3 < len) {
                    continue;
                }
                CHECK(!aborts_at(&A[i], k, &got));
                CHECK(got == want);
                if (mb->ext < 0) {
                    CHECK(in_live_block(want, mb->sz));
                } else {
                    CHECK(want >= (unsigned char *)extmem[mb->ext]
                          && want + mb->sz
                          <= (unsigned char *)extmem[mb->ext] + EXTLEN);
                }
                /* the element is really usable memory */
                memset(want, (int)(k + i), mb->sz);
            }
        }
        /* every other index aborts */
        CHECK(aborts_at(&A[i], len, &got));
        CHECK(aborts_at(&A[i], len + 1, &got));
        CHECK(aborts_at(&A[i], SIZE_MAX, &got));
        CHECK(aborts_at(&A[i], SIZE_MAX / 2 + 1, &got));
        CHECK(aborts_at(&A[i], SIZE_MAX - len, &got));
        (void)got;
    }

    for (b = 0; b < nbufs; b++) {
        nlive += (B[b].refs > 0);
    }
    if (nlive == 0) {
        CHECK(live_blocks() == 0);      /* nothing leaked */
    } else {
        CHECK(live_blocks() > 0);
    }
}

static long new_buf(const int ext, unsigned char * const base,
                    const size_t nm, const size_t sz)
{
    if (nbufs == MAXBUF) {
        fprintf(stderr, "too many buffers\n");
        exit(2);
    }
    B[nbufs].ext = ext;
    B[nbufs].base = base;
    B[nbufs].nm = nm;
    B[nbufs].sz = sz;
    B[nbufs].refs = 1;
    return (long)nbufs++;
}

/* ---- operations ---- */
static void op_alloc(const int i, const size_t nm, const size_t sz,
                     const long fail_at)
{
    const long old = M[i].buf;
    const int representable =
        nm <= (SIZE_MAX - 4 * sizeof(void *)) / sz;   /* sz >= 1 */
    const int huge = representable && nm > (1u << 20) / sz;

    fail_fired = 0;
    fail_countdown = huge ? 0 : fail_at;
    CHECK(!aborts_alloc(&A[i], nm, sz));
    fail_countdown = 0;

    drop(i);
    check_dead(old);

    if (!representable || fail_fired
        || (huge && cstl_array_data(&A[i]) == NULL)) {
        /* a failed allocation leaves the object empty */
        CHECK(cstl_array_size(&A[i]) == 0);
        CHECK(cstl_array_data(&A[i]) == NULL);
    } else {
        unsigned char * const base = cstl_array_data(&A[i]);
        CHECK(base != NULL);
        CHECK(in_live_block(base, nm * sz));
        M[i].buf = new_buf(-1, base, nm, sz);
        M[i].off = 0;
        M[i].len = nm;
    }
}

static void op_set(const int i, const int e, const size_t nm, const size_t sz,
                   const long fail_at)
{
    const long old = M[i].buf;

    fail_fired = 0;
    fail_countdown = fail_at;
    CHECK(!aborts_set(&A[i], extmem[e], nm, sz));
    fail_countdown = 0;

    drop(i);
    check_dead(old);

    if (fail_fired) {
        CHECK(cstl_array_size(&A[i]) == 0);
        CHECK(cstl_array_data(&A[i]) == NULL);
    } else {
        M[i].buf = new_buf(e, (unsigned char *)extmem[e], nm, sz);
        M[i].off = 0;
        M[i].len = nm;
    }
}

static void op_slice(const int i, const size_t beg, const size_t end,
                     const int j)
{
    const long b = M[i].buf;
    const int bad = b < 0 || end < beg || end > B[b].nm - M[i].off;
    const int aborted = aborts_slice(&A[i], beg, end, &A[j]);

    CHECK(aborted == bad);
    if (!bad && !aborted) {
        const long old = M[j].buf;
        const size_t off = M[i].off + beg;
        B[b].refs++;
        drop(j);
        M[j].buf = b;
        M[j].off = off;
        M[j].len = end - beg;
        check_dead(old);
    }
}

static void op_unslice(const int i, const int j)
{
    const long b = M[i].buf;
    const int bad = b < 0;
    const int aborted = aborts_unslice(&A[i], &A[j]);

    CHECK(aborted == bad);
    if (!bad && !aborted) {
        const long old = M[j].buf;
        B[b].refs++;
        drop(j);
        M[j].buf = b;
        M[j].off = 0;
        M[j].len = B[b].nm;
        check_dead(old);
    }
}

static void op_reset(const int i)
{
    const long old = M[i].buf;
    cstl_array_reset(&A[i]);
    drop(i);
    check_dead(old);
}

static void op_release(const int i, const int with_out)
{
    const long b = M[i].buf;
    void * got = (void *)&got;

    CHECK(!aborts_release(&A[i], with_out ? &got : NULL));
    if (b >= 0 && B[b].ext >= 0 && B[b].refs == 1) {
        /* sole remaining user of an external buffer: handed back */
        if (with_out) {
            CHECK(got == (void *)B[b].base);
        }
        drop(i);
    } else {
        /* reports NULL and changes nothing */
        if (with_out) {
            CHECK(got == NULL);
        }
    }
}

static void reset_all(void)
{
    int i;
    for (i = 0; i < NOBJ; i++) {
        op_reset(i);
    }
    verify();
    CHECK(live_blocks() == 0);
    /* quarantined addresses are never reused, so they can be forgotten */
    nblks = 0;
    nbufs = 0;
}

static unsigned long rng_state;
static unsigned rnd(void)
{
    rng_state = rng_state * 6364136223846793005UL + 1442695040888963407UL;
    return (unsigned)(rng_state >> 33);
}

/* slice bounds from the interesting set for object i */
static size_t pick_bound(const int i)
{
    const long b = M[i].buf;
    const size_t nm = b >= 0 ? B[b].nm : 5;
    const size_t off = M[i].off, len = M[i].len;
    switch (rnd() % 16) {
    case 0: return 0;
    case 1: return len;
    case 2: return nm;
    case 3: return nm + 1;
    case 4: return nm - off;
    case 5: return nm - off + 1;
    case 6: return SIZE_MAX;
    case 7: return SIZE_MAX - 1;
    case 8: return SIZE_MAX - off;
    case 9: return SIZE_MAX - off + 1;
    case 10: return SIZE_MAX / 2 + 1;
    case 11: return len + 1;
    default: return len ? rnd() % (len + 1) : rnd() % 3;
    }
}

static void random_op(void)
{
    static const size_t SZ[] = { 1, 2, 4, 8, 3, 12, 24 };
    const int i = rnd() % NOBJ, j = rnd() % NOBJ;
    const size_t sz = SZ[rnd() % 7];

    switch (rnd() % 12) {
    case 0: {
        size_t nm = rnd() % 20;
        switch (rnd() % 10) {
        case 0: nm = SIZE_MAX; break;
        case 1: nm = SIZE_MAX / sz; break;
        case 2: nm = SIZE_MAX / sz + 1; break;
        case 3: nm = SIZE_MAX / sz - 1; break;
        case 4: nm = (SIZE_MAX - 64) / sz; break;
        case 5: nm = SIZE_MAX / 2 + 1; break;
        default: break;
        }
        op_alloc(i, nm, sz, (rnd() % 4 == 0) ? 1 + rnd() % 3 : 0);
        break;
    }
    case 1:
        op_set(i, rnd() % NEXT, EXTLEN / sz - rnd() % 3, sz,
               (rnd() % 5 == 0) ? 1 + rnd() % 3 : 0);
        break;
    case 2: case 3: case 4: case 5: {
        const size_t beg = pick_bound(i), end = pick_bound(i);
        op_slice(i, beg, end, (rnd() % 3 == 0) ? i : j);
        break;
    }
    case 6: case 7:
        op_unslice(i, (rnd() % 3 == 0) ? i : j);
        break;
    case 8:
        op_reset(i);
        break;
    case 9: case 10:
        op_release(i, rnd() % 4 != 0);
        break;
    default: {
        /* an in-range slice, so that non-zero offsets are common */
        const size_t len = M[i].len;
        if (len > 1) {
            const size_t beg = 1 + rnd() % (len - 1);
            op_slice(i, beg, beg + rnd() % (len - beg + 1), j);
        }
        break;
    }
    }
}

int main(void)
{
    struct sigaction sa;
    unsigned seed;
    int i;

    memset(&sa, 0, sizeof(sa));
    sa.sa_handler = on_abort;
    sigemptyset(&sa.sa_mask);
    sigaction(SIGABRT, &sa, NULL);

    for (i = 0; i < NOBJ; i++) {
        cstl_array_init(&A[i]);
        M[i].buf = -1;
    }
    verify();

    /* directed: re-allocate / re-target an object that is a slice at off>0 */
    op_alloc(0, 10, 4, 0); verify();
    op_slice(0, 6, 10, 0); verify();            /* in place, off 6, len 4 */
    op_slice(0, 0, 5, 1); verify();             /* passes the buffer end  */
    op_slice(0, 2, 4, 1); verify();             /* off 8, len 2           */
    op_alloc(0, 3, 8, 0); verify();             /* must start at off 0    */
    op_slice(0, 0, 3, 0); verify();
    op_slice(0, 1, 3, 0); verify();
    op_set(0, 0, 12, 8, 0); verify();           /* re-target a slice      */
    op_slice(0, 0, 12, 2); verify();
    op_release(0, 1); verify();                 /* two users: NULL        */
    op_reset(2); verify();
    op_release(1, 1); verify();                 /* internal buffer: NULL  */
    op_release(0, 1); verify();                 /* sole user: handed back */
    op_release(0, 1); verify();                 /* empty: NULL            */
    op_slice(1, 1, 0, 3); verify();             /* end < beg              */
    op_slice(1, SIZE_MAX, SIZE_MAX, 3); verify();
    op_slice(1, 1, SIZE_MAX, 3); verify();
    op_slice(1, 2, 2, 3); verify();             /* empty slice at the end */
    op_unslice(3, 3); verify();
    op_unslice(0, 3); verify();                 /* empty source: abort    */
    op_alloc(3, SIZE_MAX, 2, 0); verify();      /* not representable      */
    op_alloc(1, SIZE_MAX / 8, 8, 0); verify();
    op_alloc(2, 7, 3, 1); verify();             /* first malloc fails     */
    op_alloc(2, 7, 3, 2); verify();             /* second malloc fails    */
    op_alloc(2, 0, 4, 0); verify();             /* no elements            */
    op_slice(2, 0, 0, 1); verify();
    op_slice(2, 0, 1, 1); verify();
    reset_all();

    /* seeded random histories */
    for (seed = 1; seed <= 300; seed++) {
        unsigned step;
        rng_state = seed * 0x9e3779b97f4a7c15UL;
        for (step = 0; step < 250; step++) {
            random_op();
            verify();
        }
        reset_all();
    }

    if (fails != 0) {
        fprintf(stderr, "FAILED: %lu checks\n", fails);
        return 1;
    }
    printf("ok\n");
    return 0;
}
