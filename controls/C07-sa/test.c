/*
 * C07: the heap always yields a maximum element
 *
 * Standalone test, public API only (cstl/heap.h). Every heap operation
 * is mirrored in a trivially correct model (a flag per element plus a
 * linear scan for the maximum) and every result of the library is checked
 * against it.
 */

#include "cstl/heap.h"

#include <stdio.h>
#include <stdlib.h>
#include <string.h>
#include <limits.h>
#include <stdint.h>

#define CHECK(COND)                                                     \
    do {                                                                \
        if (!(COND)) {                                                  \
            fprintf(stderr, "%s:%d: check failed: %s\n",                \
                    __FILE__, __LINE__, #COND);                         \
            exit(1);                                                    \
        }                                                               \
    } while (0)

/* small deterministic generator; rand() is left alone */
static uint64_t rng_state;
static void rng_seed(const uint64_t s)
{
    rng_state = s * 2862933555777941757ULL + 3037000493ULL;
}
static uint32_t rng(void)
{
    rng_state ^= rng_state << 13;
    rng_state ^= rng_state >> 7;
    rng_state ^= rng_state << 17;
    return (uint32_t)(rng_state >> 16);
}

/* ------------------------------------------------------------------ */
/* element type 1: node in the middle of the element                  */

struct item
{
    char pad0[5];
    int prio;
    int in;             /* model: currently in the heap */
    unsigned long serial;
    struct cstl_heap_node hn;
    char pad1[3];
    unsigned int canary;
};

#define ITEM_CANARY     0x5ca1ab1eu

static unsigned long item_cmp_calls;

static int item_cmp(const void * const a, const void * const b,
                    void * const priv)
{
    const struct item * const x = a, * const y = b;

    /* the comparison must only ever see live, pushed elements */
    CHECK(x->canary == ITEM_CANARY && y->canary == ITEM_CANARY);
    CHECK(x->in == 1 && y->in == 1);
    CHECK(priv == (void *)&item_cmp_calls);

    item_cmp_calls++;
    return (x->prio > y->prio) - (x->prio < y->prio);
}

/*
 * the model: a set of items, some of which are in the heap
 */
struct model
{
    struct cstl_heap * h;
    struct item * items;
    size_t nitems;
    size_t count;
};

static void model_init(struct model * const m, struct cstl_heap * const h,
                       const size_t n)
{
    size_t i;

    m->h = h;
    m->nitems = n;
    m->count = 0;
    m->items = malloc(n * sizeof(*m->items));
    CHECK(m->items != NULL);
    /* deliberately fill with garbage: push must not depend on content */
    memset(m->items, 0xa5, n * sizeof(*m->items));
    for (i = 0; i < n; i++) {
        m->items[i].in = 0;
        m->items[i].canary = ITEM_CANARY;
        m->items[i].serial = i;
    }
}

static void model_fini(struct model * const m)
{
    free(m->items);
    m->items = NULL;
}

static int model_max(const struct model * const m)
{
    int max = INT_MIN;
    size_t i;

    for (i = 0; i < m->nitems; i++) {
        if (m->items[i].in && m->items[i].prio > max) {
            max = m->items[i].prio;
        }
    }
    return max;
}

static int model_owns(const struct model * const m,
                      const struct item * const it)
{
    return it >= m->items && it < m->items + m->nitems
        && ((uintptr_t)it - (uintptr_t)m->items) % sizeof(*it) == 0;
}

static void model_check_get(const struct model * const m)
{
    const struct item * const it = cstl_heap_get(m->h);

    CHECK(cstl_heap_size(m->h) == m->count);
    if (m->count == 0) {
        CHECK(it == NULL);
    } else {
        CHECK(it != NULL);
        CHECK(model_owns(m, it));
        CHECK(it->in == 1);
        CHECK(it->canary == ITEM_CANARY);
        CHECK(it->prio == model_max(m));
    }
    /* get does not change anything */
    CHECK(cstl_heap_size(m->h) == m->count);
    CHECK(cstl_heap_get(m->h) == it);
}

static struct item * model_free_item(struct model * const m)
{
    size_t i;

    for (i = 0; i < m->nitems; i++) {
        if (!m->items[i].in) {
            return &m->items[i];
        }
    }
    return NULL;
}

static void model_push(struct model * const m, struct item * const it,
                       const int prio)
{
    CHECK(it != NULL && it->in == 0);
    it->prio = prio;
    it->in = 1;
    /* the node itself holds garbage from whatever happened before */
    cstl_heap_push(m->h, it);
    m->count++;
    model_check_get(m);
}

static struct item * model_pop(struct model * const m)
{
    struct item * const it = cstl_heap_pop(m->h);

    if (m->count == 0) {
        CHECK(it == NULL);
        CHECK(cstl_heap_size(m->h) == 0);
        CHECK(cstl_heap_get(m->h) == NULL);
        return NULL;
    }

    CHECK(it != NULL);
    CHECK(model_owns(m, it));
    CHECK(it->in == 1);
    CHECK(it->canary == ITEM_CANARY);
    CHECK(it->prio == model_max(m));

    it->in = 0;
    m->count--;
    /* the element is the caller's again: scribble over its node */
    memset(&it->hn, 0x3c + (int)(it->serial & 3), sizeof(it->hn));

    model_check_get(m);
    return it;
}

static void model_drain(struct model * const m)
{
    int last = INT_MAX;

    while (m->count > 0) {
        const struct item * const it = model_pop(m);
        CHECK(it->prio <= last);
        last = it->prio;
    }
    CHECK(model_pop(m) == NULL);
    CHECK(model_pop(m) == NULL);
}

/* ------------------------------------------------------------------ */
/* 1. closure over all short op sequences                             */

static void run_sequence(const unsigned int * const ops, const size_t n,
                         const int * const prios, const int use_static)
{
    static struct cstl_heap sh =
        CSTL_HEAP_INITIALIZER(struct item, hn, item_cmp, &item_cmp_calls);
    struct cstl_heap lh;
    struct cstl_heap * h;
    struct model m;
    size_t i;

    if (use_static) {
        h = &sh;
        CHECK(cstl_heap_size(h) == 0);
    } else {
        h = &lh;
        memset(h, 0x77, sizeof(*h));
        cstl_heap_init(h, item_cmp, &item_cmp_calls,
                       offsetof(struct item, hn));
    }

    model_init(&m, h, n + 1);
    model_check_get(&m);

    for (i = 0; i < n; i++) {
        if (ops[i] == 0) {
            model_pop(&m);
        } else {
            model_push(&m, model_free_item(&m), prios[ops[i] - 1]);
        }
    }

    model_drain(&m);
    model_fini(&m);
}

static void test_closure(void)
{
    static const int prios[][3] = {
        { 0, 1, 2 },
        { INT_MIN, 0, INT_MAX },
        { -1, -1, 7 },
    };
    unsigned int ops[10];
    size_t len, p;

    for (p = 0; p < sizeof(prios) / sizeof(prios[0]); p++) {
        const size_t maxlen = (p == 0) ? 9 : 7;

        for (len = 0; len <= maxlen; len++) {
            unsigned long code, total = 1;
            size_t i;

            for (i = 0; i < len; i++) {
                total *= 4;
            }
            for (code = 0; code < total; code++) {
                unsigned long c = code;
                for (i = 0; i < len; i++, c /= 4) {
                    ops[i] = c % 4;
                }
                run_sequence(ops, len, prios[p], (int)(code & 1));
            }
        }
    }
}

/* ------------------------------------------------------------------ */
/* 2. every multiset of small priorities, every heap size up to 9,    */
/*    pushed in every order (sizes up to 7) and then drained          */

static void permute(struct model * const m, int * const v, const size_t k,
                    const size_t n)
{
    size_t i;

    if (k == n) {
        for (i = 0; i < n; i++) {
            model_push(m, model_free_item(m), v[i]);
        }
        /* pop half, push them again, drain */
        for (i = 0; i < n / 2; i++) {
            model_pop(m);
        }
        for (i = 0; i < n / 2; i++) {
            model_push(m, model_free_item(m), v[i]);
        }
        model_drain(m);
        return;
    }

    for (i = k; i < n; i++) {
        int t;
        t = v[k]; v[k] = v[i]; v[i] = t;
        permute(m, v, k + 1, n);
        t = v[k]; v[k] = v[i]; v[i] = t;
    }
}

static void test_permutations(void)
{
    size_t n;

    for (n = 1; n <= 7; n++) {
        unsigned int dup;

        /* dup: how many distinct values, from all equal to all distinct */
        for (dup = 1; dup <= n; dup += (n > 5) ? 2 : 1) {
            DECLARE_CSTL_HEAP(h, struct item, hn, item_cmp, &item_cmp_calls);
            struct model m;
            int v[8];
            size_t i;

            for (i = 0; i < n; i++) {
                v[i] = (int)(i % dup) - 2;
            }
            model_init(&m, &h, n);
            permute(&m, v, 0, n);
            model_fini(&m);
        }
    }
}

/* ------------------------------------------------------------------ */
/* 3. long seeded random interleavings on larger heaps                */

static int random_prio(const unsigned int kind)
{
    switch (kind) {
    case 0: return 0;                           /* all equal */
    case 1: return (int)(rng() % 2);
    case 2: return (int)(rng() % 5) - 2;
    case 3: return (int)(rng() % 1000);
    case 4: {
        static const int b[] = {
            INT_MIN, INT_MIN + 1, -1, 0, 1, INT_MAX - 1, INT_MAX
        };
        return b[rng() % (sizeof(b) / sizeof(b[0]))];
    }
    default: return (int)rng();
    }
}

static void test_random(const uint64_t seed, const size_t cap,
                        const unsigned long nops, const unsigned int kind)
{
    struct cstl_heap h;
    struct model m;
    struct item ** freelist;
    size_t nfree, i;
    unsigned long op;
    unsigned int bias = 50;

    rng_seed(seed);
    cstl_heap_init(&h, item_cmp, &item_cmp_calls, offsetof(struct item, hn));
    model_init(&m, &h, cap);

    freelist = malloc(cap * sizeof(*freelist));
    CHECK(freelist != NULL);
    for (i = 0; i < cap; i++) {
        freelist[i] = &m.items[i];
    }
    nfree = cap;

    for (op = 0; op < nops; op++) {
        /* drift between growing and shrinking phases */
        if (op % 257 == 0) {
            bias = 20 + rng() % 61;
        }

        if (nfree > 0 && (m.count == 0 ? rng() % 8 != 0
                          : rng() % 100 < bias)) {
            /* pick a random free item */
            const size_t k = rng() % nfree;
            struct item * const it = freelist[k];
            freelist[k] = freelist[--nfree];
            model_push(&m, it, random_prio(kind));
        } else {
            struct item * const it = model_pop(&m);
            if (it != NULL) {
                freelist[nfree++] = it;
            }
        }
    }

    model_drain(&m);
    free(freelist);
    model_fini(&m);
}

/* ------------------------------------------------------------------ */
/* 4. monotone and saw-tooth fills: every push goes to the root,      */
/*    or stays at the bottom; sizes around powers of two              */

static void test_patterns(void)
{
    static const size_t sizes[] = {
        1, 2, 3, 4, 5, 6, 7, 8, 9, 15, 16, 17, 31, 32, 33,
        63, 64, 65, 127, 128, 129, 255, 256, 257, 1000
    };
    size_t s;
    unsigned int pat;

    for (s = 0; s < sizeof(sizes) / sizeof(sizes[0]); s++) {
        const size_t n = sizes[s];

        for (pat = 0; pat < 6; pat++) {
            struct cstl_heap h;
            struct model m;
            size_t i, j;

            cstl_heap_init(&h, item_cmp, &item_cmp_calls,
                           offsetof(struct item, hn));
            model_init(&m, &h, n + 2);

            for (i = 0; i < n; i++) {
                int v;
                switch (pat) {
                case 0: v = (int)i; break;              /* ascending */
                case 1: v = -(int)i; break;             /* descending */
                case 2: v = 42; break;                  /* all equal */
                case 3: v = (int)(i / 3); break;        /* runs of ties */
                case 4: v = (i % 2) ? (int)i : -(int)i; break;
                default: v = (int)((i * 7919) % 13); break;
                }
                model_push(&m, model_free_item(&m), v);
            }

            /* oscillate around the current size: pop/push, push/pop */
            for (j = 0; j < 8; j++) {
                model_pop(&m);
                model_pop(&m);
                model_push(&m, model_free_item(&m), (int)j - 4);
                model_push(&m, model_free_item(&m), INT_MAX);
                model_push(&m, model_free_item(&m), INT_MIN);
                model_pop(&m);
            }

            model_drain(&m);

            /* the drained heap is usable again */
            model_push(&m, model_free_item(&m), 1);
            model_push(&m, model_free_item(&m), 1);
            model_drain(&m);

            model_fini(&m);
        }
    }
}

/* ------------------------------------------------------------------ */
/* 5. several heaps, different element types, a comparison function   */
/*    that itself uses another heap, clear and swap in between        */

struct rec
{
    struct cstl_heap_node node;         /* node first */
    double key;
    int in;
};

static struct cstl_heap aux_heap;
static struct rec aux_recs[16];
static unsigned int aux_cnt;

static int aux_cmp(const void * const a, const void * const b,
                   void * const priv)
{
    const struct rec * const x = a, * const y = b;
    (void)priv;
    CHECK(x->in && y->in);
    return (x->key > y->key) - (x->key < y->key);
}

static double aux_max(void)
{
    double max = -1e300;
    size_t i;
    for (i = 0; i < 16; i++) {
        if (aux_recs[i].in && aux_recs[i].key > max) {
            max = aux_recs[i].key;
        }
    }
    return max;
}

/*
 * comparison function for struct rec in the outer heap that pushes to
 * and pops from a different heap while the outer operation is running
 */
static int rec_cmp_busy(const void * const a, const void * const b,
                        void * const priv)
{
    const struct rec * const x = a, * const y = b;
    size_t i;

    CHECK(priv == (void *)&aux_heap);
    CHECK(x->in && y->in);

    if (cstl_heap_size(&aux_heap) < 16 && aux_cnt % 3 != 2) {
        for (i = 0; aux_recs[i].in; i++)
            ;
        aux_recs[i].key = (double)((aux_cnt * 37) % 11) / 2.0;
        aux_recs[i].in = 1;
        cstl_heap_push(&aux_heap, &aux_recs[i]);
    } else {
        const double max = aux_max();
        struct rec * const r = cstl_heap_pop(&aux_heap);
        if (r != NULL) {
            CHECK(r->in && r->key == max);
            r->in = 0;
        }
    }
    aux_cnt++;
    if (cstl_heap_size(&aux_heap) > 0) {
        const struct rec * const r = cstl_heap_get(&aux_heap);
        CHECK(r != NULL && r->in && r->key == aux_max());
    } else {
        CHECK(cstl_heap_get(&aux_heap) == NULL);
    }

    return (x->key > y->key) - (x->key < y->key);
}

static unsigned int cleared;
static void rec_clear(void * const e, void * const priv)
{
    struct rec * const r = e;
    (void)priv;
    CHECK(r->in == 1);
    r->in = 0;
    cleared++;
}

static void item_clear(void * const e, void * const priv)
{
    struct item * const it = e;
    (void)priv;
    CHECK(it->in == 1);
    it->in = 0;
    cleared++;
}

static void test_mixed(void)
{
    static struct cstl_heap outer =
        CSTL_HEAP_INITIALIZER(struct rec, node, rec_cmp_busy, &aux_heap);
    struct rec recs[40];
    struct cstl_heap ha, hb;
    struct model ma, mb;
    size_t i, round;
    unsigned int n;

    cstl_heap_init(&aux_heap, aux_cmp, NULL, offsetof(struct rec, node));
    memset(recs, 0, sizeof(recs));

    rng_seed(99);
    for (round = 0; round < 50; round++) {
        n = 0;
        for (i = 0; i < 40; i++) {
            double max = -1e300;
            size_t j;

            recs[i].key = (double)(rng() % 9);
            recs[i].in = 1;
            cstl_heap_push(&outer, &recs[i]);
            n++;
            CHECK(cstl_heap_size(&outer) == n);

            for (j = 0; j <= i; j++) {
                if (recs[j].in && recs[j].key > max) {
                    max = recs[j].key;
                }
            }
            CHECK(((const struct rec *)cstl_heap_get(&outer))->key == max);

            if (i % 4 == 3) {
                struct rec * const r = cstl_heap_pop(&outer);
                CHECK(r != NULL && r->in && r->key == max);
                r->in = 0;
                n--;
                CHECK(cstl_heap_size(&outer) == n);
            }
        }

        if (round % 2 == 0) {
            double last = 1e300;
            while (n > 0) {
                struct rec * const r = cstl_heap_pop(&outer);
                CHECK(r != NULL && r->in && r->key <= last);
                last = r->key;
                r->in = 0;
                n--;
            }
        } else {
            cleared = 0;
            cstl_heap_clear(&outer, rec_clear);
            CHECK(cleared == n);
        }
        CHECK(cstl_heap_size(&outer) == 0);
        CHECK(cstl_heap_get(&outer) == NULL);
        CHECK(cstl_heap_pop(&outer) == NULL);
    }

    /* empty the auxiliary heap */
    {
        double last = 1e300;
        struct rec * r;
        while ((r = cstl_heap_pop(&aux_heap)) != NULL) {
            CHECK(r->in && r->key <= last && r->key == aux_max());
            last = r->key;
            r->in = 0;
        }
        CHECK(cstl_heap_size(&aux_heap) == 0);
    }

    /*
     * swap: two heaps of items with different sizes; after the swap
     * each name refers to the other content and both keep working
     */
    for (round = 0; round < 40; round++) {
        const size_t na = round % 9, nb = (round * 5) % 23;

        cstl_heap_init(&ha, item_cmp, &item_cmp_calls,
                       offsetof(struct item, hn));
        cstl_heap_init(&hb, item_cmp, &item_cmp_calls,
                       offsetof(struct item, hn));
        model_init(&ma, &ha, na + 8);
        model_init(&mb, &hb, nb + 8);

        for (i = 0; i < na; i++) {
            model_push(&ma, model_free_item(&ma), (int)(rng() % 4));
        }
        for (i = 0; i < nb; i++) {
            model_push(&mb, model_free_item(&mb), (int)(rng() % 40));
        }

        cstl_heap_swap(&ha, &hb);
        ma.h = &hb;
        mb.h = &ha;
        model_check_get(&ma);
        model_check_get(&mb);

        for (i = 0; i < 6; i++) {
            model_push(&ma, model_free_item(&ma), (int)(rng() % 4));
            model_pop(&mb);
            model_push(&mb, model_free_item(&mb), (int)(rng() % 40));
            model_pop(&ma);
            model_push(&ma, model_free_item(&ma), 2);
        }

        if (round % 3 == 0) {
            /* swap back, with itself in between */
            cstl_heap_swap(&hb, &ha);
            ma.h = &ha;
            mb.h = &hb;
            model_check_get(&ma);
            model_check_get(&mb);
        }

        if (round % 2 == 0) {
            cleared = 0;
            cstl_heap_clear(ma.h, item_clear);
            CHECK(cleared == ma.count);
            ma.count = 0;
            model_check_get(&ma);
            /* cleared heap is as after init */
            model_push(&ma, model_free_item(&ma), 5);
            model_push(&ma, model_free_item(&ma), 6);
            model_push(&ma, model_free_item(&ma), 5);
        }

        model_drain(&ma);
        model_drain(&mb);
        model_fini(&ma);
        model_fini(&mb);
    }
}

int main(void)
{
    unsigned int kind;
    uint64_t seed;

    test_closure();
    test_permutations();
    test_patterns();

    for (kind = 0; kind < 6; kind++) {
        for (seed = 1; seed <= 3; seed++) {
            test_random(seed * 1000 + kind, 12, 4000, kind);
            test_random(seed * 2000 + kind, 100, 6000, kind);
            test_random(seed * 3000 + kind, 1500, 12000, kind);
        }
    }

    test_mixed();

    CHECK(item_cmp_calls > 0);
    printf("C07 ok\n");
    return 0;
}
