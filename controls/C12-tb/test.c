/*
 * C12: a doubly-linked list equals a reference sequence in both directions.
 *
 * Standalone test that uses only the public API of cstl/dlist.h.
 *
 * Every element carries TWO list nodes at different offsets, so that the
 * same element can sit in one list of "family 0" (anchored by n0) and in
 * one list of "family 1" (anchored by n1) at the same time. Each family
 * has three lists; every list has an array model. After every operation
 * all lists are compared with their models by a front-to-back and a
 * back-to-front traversal, front(), back() and size().
 *
 * The node of an element that leaves a list is overwritten with garbage
 * immediately (also from inside foreach and clear callbacks), since the
 * library has no business looking at it any more.
 */

#include <stdio.h>
#include <stdlib.h>
#include <string.h>
#include <stddef.h>

#include "cstl/dlist.h"

#define NF      2       /* families (node offsets) */
#define NL      3       /* lists per family */
#define MAXE    96      /* elements in the pool */

struct elem
{
    int id;
    int val;
    struct cstl_dlist_node n0;
    char pad[40];
    struct cstl_dlist_node n1;
    int where[NF];
};

static struct elem pool[MAXE];
static int npool = MAXE;

static struct cstl_dlist * L[NF][NL];
static int M[NF][NL][MAXE];
static int ML[NF][NL];

static unsigned long nops, nchecks;

#define FAIL(...)                                                       \
    do {                                                                \
        fprintf(stderr, "FAIL %s:%d: ", __FILE__, __LINE__);            \
        fprintf(stderr, __VA_ARGS__);                                   \
        fprintf(stderr, "\n");                                          \
        exit(1);                                                        \
    } while (0)

#define CHECK(C)                                                        \
    do { if (!(C)) { FAIL("%s", #C); } } while (0)

/* simple deterministic generator */
static unsigned long long rng_state = 88172645463325252ULL;
static unsigned int rnd(void)
{
    rng_state ^= rng_state << 13;
    rng_state ^= rng_state >> 7;
    rng_state ^= rng_state << 17;
    return (unsigned int)(rng_state >> 11);
}

static size_t node_off(const int f)
{
    return (f == 0) ? offsetof(struct elem, n0) : offsetof(struct elem, n1);
}

static void poison(struct elem * const e, const int f)
{
    memset((f == 0) ? &e->n0 : &e->n1, 0xa5, sizeof(struct cstl_dlist_node));
}

static void pool_reset(const int n, const int vmod)
{
    int i, f;

    npool = n;
    for (i = 0; i < MAXE; i++) {
        pool[i].id = i;
        pool[i].val = (i * 13 + 3) % vmod;
        memset(pool[i].pad, i, sizeof(pool[i].pad));
        for (f = 0; f < NF; f++) {
            pool[i].where[f] = -1;
            poison(&pool[i], f);
        }
    }
}

static void lists_reset(void)
{
    int f, i;

    for (f = 0; f < NF; f++) {
        for (i = 0; i < NL; i++) {
            cstl_dlist_init(L[f][i], node_off(f));
            ML[f][i] = 0;
        }
    }
}

/* a free element for family f; lowest id, or a random one */
static struct elem * take_free(const int f, const int random)
{
    int i, cnt = 0;

    for (i = 0; i < npool; i++) {
        if (pool[i].where[f] < 0) {
            if (!random) {
                return &pool[i];
            }
            cnt++;
        }
    }
    if (cnt > 0) {
        int k = rnd() % cnt;
        for (i = 0; i < npool; i++) {
            if (pool[i].where[f] < 0 && k-- == 0) {
                return &pool[i];
            }
        }
    }
    return NULL;
}

/* ---- traversal ------------------------------------------------------- */

struct trav
{
    int ids[MAXE + 1];
    int n;
    int stop_at;        /* stop on the stop_at-th visit (1-based), 0: never */
    int stop_res;
    void * self;
};

static int trav_visit(void * const e, void * const p)
{
    struct trav * const t = p;

    if (t->self != t) {
        FAIL("foreach private pointer mangled");
    }
    if (t->n >= MAXE) {
        FAIL("traversal does not terminate");
    }
    t->ids[t->n++] = ((struct elem *)e)->id;
    if (t->stop_at != 0 && t->n == t->stop_at) {
        return t->stop_res;
    }
    return 0;
}

static int traverse(struct cstl_dlist * const l, struct trav * const t,
                    const cstl_dlist_foreach_dir_t dir,
                    const int stop_at, const int stop_res)
{
    t->n = 0;
    t->stop_at = stop_at;
    t->stop_res = stop_res;
    t->self = t;
    return cstl_dlist_foreach(l, trav_visit, t, dir);
}

static void check_list(const int f, const int i)
{
    struct cstl_dlist * const l = L[f][i];
    const int n = ML[f][i];
    struct trav t;
    int k;

    nchecks++;

    if (cstl_dlist_size(l) != (size_t)n) {
        FAIL("size: list %d/%d has %lu, model %d",
             f, i, (unsigned long)cstl_dlist_size(l), n);
    }
    if (n == 0) {
        CHECK(cstl_dlist_front(l) == NULL);
        CHECK(cstl_dlist_back(l) == NULL);
    } else {
        CHECK(cstl_dlist_front(l) == &pool[M[f][i][0]]);
        CHECK(cstl_dlist_back(l) == &pool[M[f][i][n - 1]]);
    }

    CHECK(traverse(l, &t, CSTL_DLIST_FOREACH_DIR_FWD, 0, 0) == 0);
    if (t.n != n) {
        FAIL("forward traversal of %d/%d: %d elements, model %d", f, i, t.n, n);
    }
    for (k = 0; k < n; k++) {
        if (t.ids[k] != M[f][i][k]) {
            FAIL("forward traversal of %d/%d differs at %d", f, i, k);
        }
        if (pool[t.ids[k]].where[f] != i) {
            FAIL("element %d is in the wrong list", t.ids[k]);
        }
    }

    CHECK(traverse(l, &t, CSTL_DLIST_FOREACH_DIR_REV, 0, 0) == 0);
    if (t.n != n) {
        FAIL("backward traversal of %d/%d: %d elements, model %d",
             f, i, t.n, n);
    }
    for (k = 0; k < n; k++) {
        if (t.ids[k] != M[f][i][n - 1 - k]) {
            FAIL("backward traversal of %d/%d differs at %d", f, i, k);
        }
    }
}

static void check_all(void)
{
    int f, i, e;

    for (f = 0; f < NF; f++) {
        int total = 0, in = 0;
        for (i = 0; i < NL; i++) {
            check_list(f, i);
            total += ML[f][i];
        }
        for (e = 0; e < npool; e++) {
            if (pool[e].where[f] >= 0) {
                in++;
            }
        }
        CHECK(in == total);
    }
    for (e = 0; e < MAXE; e++) {
        int k;
        CHECK(pool[e].id == e);
        for (k = 0; k < (int)sizeof(pool[e].pad); k++) {
            CHECK(pool[e].pad[k] == (char)e);
        }
    }
}

/* ---- model helpers --------------------------------------------------- */

static void m_insert(const int f, const int i, const int pos, const int id)
{
    int * const m = M[f][i];
    memmove(&m[pos + 1], &m[pos], (ML[f][i] - pos) * sizeof(int));
    m[pos] = id;
    ML[f][i]++;
    pool[id].where[f] = i;
}

static int m_remove(const int f, const int i, const int pos)
{
    int * const m = M[f][i];
    const int id = m[pos];
    memmove(&m[pos], &m[pos + 1], (ML[f][i] - pos - 1) * sizeof(int));
    ML[f][i]--;
    pool[id].where[f] = -1;
    return id;
}

/* ---- callbacks ------------------------------------------------------- */

static unsigned long cmp_calls;
static int cmp_token;

static int cmp_val(const void * const a, const void * const b, void * const p)
{
    if (p != &cmp_token) {
        FAIL("compare private pointer mangled");
    }
    cmp_calls++;
    return ((const struct elem *)a)->val - ((const struct elem *)b)->val;
}

/* one of the arguments is the sought object, the other is in the list */
struct seek { int val; const void * obj; };

static int cmp_seek(const void * const a, const void * const b, void * const p)
{
    struct seek * const s = p;
    const struct elem * o;

    if (a == s->obj) {
        o = b;
    } else if (b == s->obj) {
        o = a;
    } else {
        FAIL("find: the sought object is not passed to the comparison");
    }
    if (o->id < 0 || o->id >= MAXE || o != &pool[o->id]) {
        FAIL("find: compared with something that is not an element");
    }
    return (s->val > o->val) - (s->val < o->val);
}

struct fe_erase
{
    int f, i;           /* list being traversed */
    int j;              /* -1: just erase; else move to list j */
    int mod, rem;       /* erase those with val % mod == rem */
    int front;          /* move with push_front instead of push_back */
    int seen[MAXE], nseen;
    int gone[MAXE], ngone;
};

static int fe_erase_visit(void * const e, void * const p)
{
    struct fe_erase * const x = p;
    struct elem * const el = e;

    if (x->nseen >= MAXE) {
        FAIL("foreach does not terminate");
    }
    x->seen[x->nseen++] = el->id;
    if (el->val % x->mod == x->rem) {
        cstl_dlist_erase(L[x->f][x->i], el);
        poison(el, x->f);
        x->gone[x->ngone++] = el->id;
        if (x->j >= 0) {
            if (x->front) {
                cstl_dlist_push_front(L[x->f][x->j], el);
            } else {
                cstl_dlist_push_back(L[x->f][x->j], el);
            }
        }
    }
    return 0;
}

struct clr_ctx
{
    int f, j;           /* j >= 0: take ownership by pushing onto list j */
    int ids[MAXE], n;
};
static struct clr_ctx * clr_cur;

static void clr_cb(void * const e, void * const p)
{
    struct clr_ctx * const c = clr_cur;
    struct elem * const el = e;

    (void)p;
    if (c->n >= MAXE) {
        FAIL("clear does not terminate");
    }
    c->ids[c->n++] = el->id;
    poison(el, c->f);
    if (c->j >= 0) {
        cstl_dlist_push_back(L[c->f][c->j], el);
    }
}

/* ---- operations ------------------------------------------------------ */

enum
{
    OP_PUSHF, OP_PUSHB, OP_POPF, OP_POPB, OP_INS, OP_ERASE, OP_REVERSE,
    OP_SORT, OP_CLEAR, OP_FIND, OP_FE_STOP, OP_FE_ERASE, OP_CONCAT, OP_SWAP,
    OP_NKINDS
};

static int pos_select(const int n, const int arg)
{
    /* arg 0: front, 1: back, 2: middle, else arbitrary */
    switch (arg) {
    case 0: return 0;
    case 1: return n - 1;
    case 2: return n / 2;
    default: return arg % n;
    }
}

static void do_op(const int f, const int kind, const int i, const int j,
                  const int arg, const int random)
{
    struct cstl_dlist * const l = L[f][i];
    const int n = ML[f][i];
    struct elem * e;
    int k;

    nops++;

    switch (kind) {
    case OP_PUSHF:
        if ((e = take_free(f, random)) != NULL) {
            cstl_dlist_push_front(l, e);
            m_insert(f, i, 0, e->id);
        }
        break;

    case OP_PUSHB:
        if ((e = take_free(f, random)) != NULL) {
            cstl_dlist_push_back(l, e);
            m_insert(f, i, n, e->id);
        }
        break;

    case OP_POPF:
        e = cstl_dlist_pop_front(l);
        if (n == 0) {
            CHECK(e == NULL);
        } else {
            CHECK(e == &pool[M[f][i][0]]);
            m_remove(f, i, 0);
            poison(e, f);
        }
        break;

    case OP_POPB:
        e = cstl_dlist_pop_back(l);
        if (n == 0) {
            CHECK(e == NULL);
        } else {
            CHECK(e == &pool[M[f][i][n - 1]]);
            m_remove(f, i, n - 1);
            poison(e, f);
        }
        break;

    case OP_INS:
        if (n > 0 && (e = take_free(f, random)) != NULL) {
            k = pos_select(n, arg);
            cstl_dlist_insert(l, &pool[M[f][i][k]], e);
            m_insert(f, i, k + 1, e->id);
        }
        break;

    case OP_ERASE:
        if (n > 0) {
            k = pos_select(n, arg);
            e = &pool[M[f][i][k]];
            cstl_dlist_erase(l, e);
            m_remove(f, i, k);
            poison(e, f);
        }
        break;

    case OP_REVERSE:
        cstl_dlist_reverse(l);
        for (k = 0; k < n / 2; k++) {
            const int t = M[f][i][k];
            M[f][i][k] = M[f][i][n - 1 - k];
            M[f][i][n - 1 - k] = t;
        }
        break;

    case OP_SORT: {
        struct trav t;
        char seen[MAXE];

        cstl_dlist_sort(l, cmp_val, &cmp_token);
        CHECK(cstl_dlist_size(l) == (size_t)n);
        CHECK(traverse(l, &t, CSTL_DLIST_FOREACH_DIR_FWD, 0, 0) == 0);
        CHECK(t.n == n);
        /* an ordered permutation of the same elements */
        memset(seen, 0, sizeof(seen));
        for (k = 0; k < n; k++) {
            CHECK(pool[t.ids[k]].where[f] == i);
            CHECK(!seen[t.ids[k]]);
            seen[t.ids[k]] = 1;
            if (k > 0) {
                CHECK(pool[t.ids[k - 1]].val <= pool[t.ids[k]].val);
            }
        }
        memcpy(M[f][i], t.ids, n * sizeof(int));
        break;
    }

    case OP_CLEAR: {
        struct clr_ctx c;
        char seen[MAXE];
        const int dst = (arg != 0 && j != i) ? j : -1;

        c.f = f;
        c.j = dst;
        c.n = 0;
        clr_cur = &c;
        cstl_dlist_clear(l, clr_cb);
        clr_cur = NULL;
        CHECK(c.n == n);
        memset(seen, 0, sizeof(seen));
        for (k = 0; k < n; k++) {
            CHECK(pool[c.ids[k]].where[f] == i);
            CHECK(!seen[c.ids[k]]);
            seen[c.ids[k]] = 1;
        }
        ML[f][i] = 0;
        for (k = 0; k < n; k++) {
            pool[c.ids[k]].where[f] = -1;
            if (dst >= 0) {
                /* the order of the callbacks is not specified */
                m_insert(f, dst, ML[f][dst], c.ids[k]);
            }
        }
        break;
    }

    case OP_FIND: {
        struct elem key;
        struct seek s;
        void * exp;

        memset(&key, 0, sizeof(key));
        key.id = -1;
        key.val = arg;
        s.val = arg;
        s.obj = &key;

        exp = NULL;
        for (k = 0; k < n && exp == NULL; k++) {
            if (pool[M[f][i][k]].val == arg) {
                exp = &pool[M[f][i][k]];
            }
        }
        CHECK(cstl_dlist_find(l, &key, cmp_seek, &s,
                              CSTL_DLIST_FOREACH_DIR_FWD) == exp);

        exp = NULL;
        for (k = n - 1; k >= 0 && exp == NULL; k--) {
            if (pool[M[f][i][k]].val == arg) {
                exp = &pool[M[f][i][k]];
            }
        }
        CHECK(cstl_dlist_find(l, &key, cmp_seek, &s,
                              CSTL_DLIST_FOREACH_DIR_REV) == exp);
        break;
    }

    case OP_FE_STOP: {
        /* stop at the arg-th visit, in both directions, with odd results */
        static const int results[] = { 1, -1, 7, -1000, 0x7fffffff };
        struct trav t;
        int r, d;

        for (d = 0; d < 2; d++) {
            const int want = results[(arg + d) % 5];
            const int stop = 1 + arg;

            r = traverse(l, &t,
                         d ? CSTL_DLIST_FOREACH_DIR_REV
                         : CSTL_DLIST_FOREACH_DIR_FWD,
                         stop, want);
            if (stop <= n) {
                CHECK(r == want);
                CHECK(t.n == stop);
            } else {
                CHECK(r == 0);
                CHECK(t.n == n);
            }
            for (k = 0; k < t.n; k++) {
                CHECK(t.ids[k] == M[f][i][d ? n - 1 - k : k]);
            }
        }
        break;
    }

    case OP_FE_ERASE: {
        /*
         * visit every element; the callback removes the visited element
         * (and possibly gives it to another list) if its value matches
         */
        struct fe_erase x;
        const int rev = arg & 1;
        int kept[MAXE], nkept = 0;

        x.f = f;
        x.i = i;
        x.j = (j != i && (arg & 2)) ? j : -1;
        x.front = (arg & 4) != 0;
        x.mod = 2 + ((arg >> 3) % 3);
        x.rem = (arg >> 5) % x.mod;
        x.nseen = x.ngone = 0;

        CHECK(cstl_dlist_foreach(l, fe_erase_visit, &x,
                                 rev ? CSTL_DLIST_FOREACH_DIR_REV
                                 : CSTL_DLIST_FOREACH_DIR_FWD) == 0);
        /* every element was visited once, in order */
        CHECK(x.nseen == n);
        for (k = 0; k < n; k++) {
            CHECK(x.seen[k] == M[f][i][rev ? n - 1 - k : k]);
        }
        for (k = 0; k < n; k++) {
            const int id = M[f][i][k];
            if (pool[id].val % x.mod == x.rem) {
                pool[id].where[f] = -1;
            } else {
                kept[nkept++] = id;
            }
        }
        memcpy(M[f][i], kept, nkept * sizeof(int));
        ML[f][i] = nkept;
        CHECK(x.ngone == n - nkept);
        if (x.j >= 0) {
            for (k = 0; k < x.ngone; k++) {
                m_insert(f, x.j, x.front ? 0 : ML[f][x.j], x.gone[k]);
            }
        }
        break;
    }

    case OP_CONCAT:
        if (i != j) {
            cstl_dlist_concat(l, L[f][j]);
            for (k = 0; k < ML[f][j]; k++) {
                const int id = M[f][j][k];
                M[f][i][ML[f][i]++] = id;
                pool[id].where[f] = i;
            }
            ML[f][j] = 0;
        }
        break;

    case OP_SWAP:
        if (i != j) {
            int tmp[MAXE];
            const int ni = ML[f][i], nj = ML[f][j];

            cstl_dlist_swap(l, L[f][j]);
            memcpy(tmp, M[f][i], ni * sizeof(int));
            memcpy(M[f][i], M[f][j], nj * sizeof(int));
            memcpy(M[f][j], tmp, ni * sizeof(int));
            ML[f][i] = nj;
            ML[f][j] = ni;
            for (k = 0; k < nj; k++) {
                pool[M[f][i][k]].where[f] = i;
            }
            for (k = 0; k < ni; k++) {
                pool[M[f][j][k]].where[f] = j;
            }
        }
        break;

    default:
        FAIL("bad op");
    }
}

/* ---- exhaustive short sequences --------------------------------------- */

struct opdesc { int kind, i, j, arg; };

static const struct opdesc alpha_full[] = {
    { OP_PUSHF, 0, 0, 0 }, { OP_PUSHF, 1, 0, 0 },
    { OP_PUSHB, 0, 0, 0 }, { OP_PUSHB, 1, 0, 0 },
    { OP_POPF, 0, 0, 0 }, { OP_POPF, 1, 0, 0 },
    { OP_POPB, 0, 0, 0 }, { OP_POPB, 1, 0, 0 },
    { OP_INS, 0, 0, 0 }, { OP_INS, 0, 0, 1 }, { OP_INS, 1, 0, 2 },
    { OP_ERASE, 0, 0, 0 }, { OP_ERASE, 0, 0, 1 }, { OP_ERASE, 1, 0, 2 },
    { OP_REVERSE, 0, 0, 0 }, { OP_REVERSE, 1, 0, 0 },
    { OP_SORT, 0, 0, 0 }, { OP_SORT, 1, 0, 0 },
    { OP_CLEAR, 0, 0, 0 }, { OP_CLEAR, 1, 0, 1 },
    { OP_FIND, 0, 0, 1 }, { OP_FIND, 1, 0, 3 },
    { OP_FE_STOP, 0, 0, 0 }, { OP_FE_STOP, 1, 0, 1 },
    { OP_FE_ERASE, 0, 1, 0 }, { OP_FE_ERASE, 0, 1, 1 + 2 },
    { OP_FE_ERASE, 1, 0, 2 + 4 + 8 },
    { OP_CONCAT, 0, 1, 0 }, { OP_CONCAT, 1, 0, 0 },
    { OP_SWAP, 0, 1, 0 },
};

static const struct opdesc alpha_one[] = {
    { OP_PUSHF, 0, 0, 0 }, { OP_PUSHB, 0, 0, 0 },
    { OP_POPF, 0, 0, 0 }, { OP_POPB, 0, 0, 0 },
    { OP_INS, 0, 0, 2 }, { OP_ERASE, 0, 0, 2 },
    { OP_REVERSE, 0, 0, 0 }, { OP_SORT, 0, 0, 0 },
    { OP_FE_ERASE, 0, 1, 1 + 2 + 8 },
};

static void exhaustive(const struct opdesc * const alpha, const int na,
                       const int depth, const int f)
{
    int seq[16];
    int d, k;

    for (d = 0; d <= depth; d++) {
        for (k = 0; k < d; k++) {
            seq[k] = 0;
        }
        for (;;) {
            pool_reset(16, 5);
            lists_reset();
            check_all();
            for (k = 0; k < d; k++) {
                const struct opdesc * const o = &alpha[seq[k]];
                do_op(f, o->kind, o->i, o->j, o->arg, 0);
                check_list(f, 0);
                check_list(f, 1);
            }
            check_all();

            for (k = d - 1; k >= 0; k--) {
                if (++seq[k] < na) {
                    break;
                }
                seq[k] = 0;
            }
            if (k < 0) {
                break;
            }
        }
    }
}

/*
 * every list of length 0..7 over three distinct values (so all orders and
 * all patterns of duplicates), followed by each of the whole-list operations,
 * with a second list of length 0..5 as the partner for swap and concat
 */
static void all_small_lists(const int f)
{
    int n, m, op;
    long code, ncodes;

    for (n = 0; n <= 7; n++) {
        for (ncodes = 1, m = 0; m < n; m++) {
            ncodes *= 3;
        }
        for (code = 0; code < ncodes; code++) {
            for (op = 0; op < 9; op++) {
                for (m = 0; m <= 5; m++) {
                    long c = code;
                    int k;

                    pool_reset(16, 5);
                    lists_reset();
                    for (k = 0; k < n; k++, c /= 3) {
                        pool[k].val = c % 3;
                        cstl_dlist_push_back(L[f][0], &pool[k]);
                        m_insert(f, 0, k, k);
                    }
                    for (k = 0; k < m; k++) {
                        pool[n + k].val = (k * 2) % 3;
                        cstl_dlist_push_front(L[f][2], &pool[n + k]);
                        m_insert(f, 2, 0, n + k);
                    }
                    switch (op) {
                    case 0: do_op(f, OP_REVERSE, 0, 0, 0, 0); break;
                    case 1: do_op(f, OP_SORT, 0, 0, 0, 0); break;
                    case 2: do_op(f, OP_SWAP, 0, 2, 0, 0); break;
                    case 3: do_op(f, OP_CONCAT, 0, 2, 0, 0); break;
                    case 4: do_op(f, OP_CONCAT, 2, 0, 0, 0); break;
                    case 5: do_op(f, OP_CLEAR, 0, 2, 1, 0); break;
                    case 6:
                        do_op(f, OP_FE_ERASE, 0, 2, (int)(code % 64), 0);
                        break;
                    case 7:
                        do_op(f, OP_SORT, 0, 0, 0, 0);
                        do_op(f, OP_REVERSE, 0, 0, 0, 0);
                        do_op(f, OP_SORT, 0, 0, 0, 0);
                        break;
                    case 8:
                        do_op(f, OP_REVERSE, 0, 0, 0, 0);
                        do_op(f, OP_SWAP, 2, 0, 0, 0);
                        do_op(f, OP_REVERSE, 2, 0, 0, 0);
                        do_op(f, OP_CONCAT, 0, 2, 0, 0);
                        break;
                    }
                    check_all();
                    for (k = 0; k < 3; k++) {
                        do_op(f, OP_FIND, 0, 0, k, 0);
                        do_op(f, OP_FIND, 2, 0, k, 0);
                    }
                    for (k = 0; k <= n + m; k++) {
                        do_op(f, OP_FE_STOP, 0, 0, k, 0);
                    }
                    /* and the lists remain usable */
                    do_op(f, OP_PUSHB, 2, 0, 0, 0);
                    do_op(f, OP_PUSHF, 0, 0, 0, 0);
                    do_op(f, OP_PUSHB, 0, 0, 0, 0);
                    do_op(f, OP_POPF, 2, 0, 0, 0);
                    do_op(f, OP_POPB, 2, 0, 0, 0);
                    check_all();
                    if ((op <= 1 || op == 7) && m >= 1) {
                        /* the partner only matters to the other operations */
                        break;
                    }
                }
            }
        }
    }
}

/* ---- long random sequences ------------------------------------------- */

static void random_run(const unsigned long long seed, const long steps,
                       const int nelem, const int vmod)
{
    long s;

    rng_state = seed * 2654435761ULL + 88172645463325252ULL;
    pool_reset(nelem, vmod);
    lists_reset();
    check_all();

    for (s = 0; s < steps; s++) {
        static const int weights[OP_NKINDS] = {
            12, 12, 7, 7, 10, 7, 4, 4, 1, 4, 3, 3, 3, 3
        };
        const int f = rnd() % NF;
        const int i = rnd() % NL;
        int j = rnd() % NL;
        int kind, w, tot = 0;
        int arg = rnd() % 1024;

        for (kind = 0; kind < OP_NKINDS; kind++) {
            tot += weights[kind];
        }
        w = rnd() % tot;
        for (kind = 0; w >= weights[kind]; kind++) {
            w -= weights[kind];
        }
        if (kind == OP_FIND) {
            arg %= vmod + 1;
        } else if (kind == OP_FE_STOP) {
            arg %= ML[f][i] + 2;
        } else if (kind == OP_INS || kind == OP_ERASE) {
            arg += 3;
        } else if (kind == OP_CLEAR) {
            arg &= 1;
        }
        if ((kind == OP_CONCAT || kind == OP_SWAP) && j == i) {
            j = (i + 1) % NL;
        }

        do_op(f, kind, i, j, arg, 1);
        check_list(f, i);
        check_list(f, j);
        if (s % 64 == 0) {
            check_all();
        }
    }
    check_all();

    /* drain everything, alternating ends */
    {
        int f, i;
        for (f = 0; f < NF; f++) {
            for (i = 0; i < NL; i++) {
                while (ML[f][i] > 0) {
                    do_op(f, (ML[f][i] & 1) ? OP_POPF : OP_POPB, i, 0, 0, 1);
                    check_list(f, i);
                }
                do_op(f, OP_POPF, i, 0, 0, 1);
                do_op(f, OP_POPB, i, 0, 0, 1);
            }
        }
        check_all();
    }
}

/* ---- other element types, static initialisers, heap elements --------- */

struct first { struct cstl_dlist_node n; long v; };
struct last  { double d; char c[3]; long v; struct cstl_dlist_node n; };

static DECLARE_CSTL_DLIST(g_first, struct first, n);
static struct cstl_dlist g_arr[2] = {
    CSTL_DLIST_INITIALIZER(g_arr[0], struct last, n),
    CSTL_DLIST_INITIALIZER(g_arr[1], struct elem, n1),
};

static int sum_first(void * const e, void * const p)
{
    *(long *)p = *(long *)p * 10 + ((struct first *)e)->v;
    return 0;
}

static int sum_last(void * const e, void * const p)
{
    *(long *)p = *(long *)p * 10 + ((struct last *)e)->v;
    return 0;
}

static int cmp_first(const void * const a, const void * const b, void * p)
{
    (void)p;
    return (int)(((const struct first *)a)->v - ((const struct first *)b)->v);
}

static int cmp_last_desc(const void * const a, const void * const b, void * p)
{
    (void)p;
    return (int)(((const struct last *)b)->v - ((const struct last *)a)->v);
}

static long digits_first(struct cstl_dlist * const l,
                         const cstl_dlist_foreach_dir_t d)
{
    long s = 0;
    CHECK(cstl_dlist_foreach(l, sum_first, &s, d) == 0);
    return s;
}

static long digits_last(struct cstl_dlist * const l,
                        const cstl_dlist_foreach_dir_t d)
{
    long s = 0;
    CHECK(cstl_dlist_foreach(l, sum_last, &s, d) == 0);
    return s;
}

static void other_types(void)
{
    struct first a[5];
    struct last b[4];
    DECLARE_CSTL_DLIST(loc, struct last, n);
    struct cstl_dlist * const heap = malloc(sizeof(*heap));
    int k;

    CHECK(heap != NULL);
    memset(heap, 0x5a, sizeof(*heap));
    cstl_dlist_init(heap, offsetof(struct first, n));

    /* untouched statically initialised lists are empty and usable */
    CHECK(cstl_dlist_size(&g_first) == 0);
    CHECK(cstl_dlist_front(&g_first) == NULL);
    CHECK(cstl_dlist_back(&g_arr[0]) == NULL);
    CHECK(cstl_dlist_pop_front(&g_arr[0]) == NULL);
    CHECK(cstl_dlist_pop_back(&g_arr[1]) == NULL);
    CHECK(cstl_dlist_pop_back(&loc) == NULL);
    CHECK(digits_first(&g_first, CSTL_DLIST_FOREACH_DIR_FWD) == 0);
    CHECK(digits_last(&loc, CSTL_DLIST_FOREACH_DIR_REV) == 0);
    cstl_dlist_reverse(&g_first);
    cstl_dlist_sort(&g_arr[0], cmp_last_desc, NULL);
    cstl_dlist_reverse(&loc);
    cstl_dlist_concat(&g_arr[0], &loc);
    cstl_dlist_swap(&g_arr[0], &loc);
    CHECK(cstl_dlist_size(&g_arr[0]) == 0 && cstl_dlist_size(&loc) == 0);
    CHECK(cstl_dlist_find(&loc, &b[0], cmp_last_desc, NULL,
                          CSTL_DLIST_FOREACH_DIR_FWD) == NULL);

    for (k = 0; k < 5; k++) {
        a[k].v = k + 1;
        memset(&a[k].n, 0xee, sizeof(a[k].n));
    }
    for (k = 0; k < 4; k++) {
        b[k].v = k + 1;
        b[k].d = 0.5 * k;
        memset(&b[k].n, 0xee, sizeof(b[k].n));
    }

    cstl_dlist_push_back(&g_first, &a[1]);
    cstl_dlist_push_front(&g_first, &a[0]);
    cstl_dlist_insert(&g_first, &a[1], &a[2]);
    cstl_dlist_push_back(heap, &a[3]);
    cstl_dlist_push_back(heap, &a[4]);

    cstl_dlist_push_front(&loc, &b[0]);
    cstl_dlist_push_front(&loc, &b[1]);
    cstl_dlist_push_back(&g_arr[0], &b[2]);
    cstl_dlist_insert(&g_arr[0], &b[2], &b[3]);

    CHECK(digits_first(&g_first, CSTL_DLIST_FOREACH_DIR_FWD) == 123);
    CHECK(digits_first(&g_first, CSTL_DLIST_FOREACH_DIR_REV) == 321);
    CHECK(digits_first(heap, CSTL_DLIST_FOREACH_DIR_FWD) == 45);
    CHECK(digits_last(&loc, CSTL_DLIST_FOREACH_DIR_FWD) == 21);
    CHECK(digits_last(&g_arr[0], CSTL_DLIST_FOREACH_DIR_REV) == 43);

    /* lists of different element types change places */
    cstl_dlist_swap(&g_first, &loc);
    CHECK(cstl_dlist_size(&g_first) == 2 && cstl_dlist_size(&loc) == 3);
    CHECK(digits_last(&g_first, CSTL_DLIST_FOREACH_DIR_FWD) == 21);
    CHECK(digits_last(&g_first, CSTL_DLIST_FOREACH_DIR_REV) == 12);
    CHECK(digits_first(&loc, CSTL_DLIST_FOREACH_DIR_FWD) == 123);
    CHECK(cstl_dlist_front(&g_first) == &b[1]);
    CHECK(cstl_dlist_back(&loc) == &a[2]);

    /* now of the same kind: concat in both pairs */
    cstl_dlist_concat(&loc, heap);
    CHECK(cstl_dlist_size(heap) == 0 && cstl_dlist_size(&loc) == 5);
    CHECK(digits_first(&loc, CSTL_DLIST_FOREACH_DIR_FWD) == 12345);
    CHECK(digits_first(&loc, CSTL_DLIST_FOREACH_DIR_REV) == 54321);
    cstl_dlist_concat(&g_arr[0], &g_first);
    CHECK(digits_last(&g_arr[0], CSTL_DLIST_FOREACH_DIR_FWD) == 3421);
    CHECK(cstl_dlist_size(&g_first) == 0);
    CHECK(cstl_dlist_front(&g_first) == NULL);
    CHECK(cstl_dlist_pop_back(&g_first) == NULL);

    cstl_dlist_sort(&g_arr[0], cmp_last_desc, NULL);
    CHECK(digits_last(&g_arr[0], CSTL_DLIST_FOREACH_DIR_FWD) == 4321);
    CHECK(digits_last(&g_arr[0], CSTL_DLIST_FOREACH_DIR_REV) == 1234);
    cstl_dlist_reverse(&loc);
    CHECK(digits_first(&loc, CSTL_DLIST_FOREACH_DIR_FWD) == 54321);
    cstl_dlist_sort(&loc, cmp_first, NULL);
    CHECK(digits_first(&loc, CSTL_DLIST_FOREACH_DIR_REV) == 54321);
    CHECK(cstl_dlist_find(&loc, &a[3], cmp_first, NULL,
                          CSTL_DLIST_FOREACH_DIR_REV) == &a[3]);

    /* the emptied lists are usable again */
    cstl_dlist_push_back(heap, cstl_dlist_pop_front(&loc));
    cstl_dlist_push_front(heap, cstl_dlist_pop_back(&loc));
    CHECK(digits_first(heap, CSTL_DLIST_FOREACH_DIR_FWD) == 51);
    CHECK(digits_first(&loc, CSTL_DLIST_FOREACH_DIR_FWD) == 234);
    cstl_dlist_swap(heap, &loc);
    CHECK(digits_first(heap, CSTL_DLIST_FOREACH_DIR_REV) == 432);
    CHECK(digits_first(&loc, CSTL_DLIST_FOREACH_DIR_REV) == 15);

    while (cstl_dlist_pop_front(heap) != NULL)
        ;
    while (cstl_dlist_pop_back(&loc) != NULL)
        ;
    while (cstl_dlist_pop_back(&g_arr[0]) != NULL)
        ;
    CHECK(cstl_dlist_size(heap) == 0);
    CHECK(cstl_dlist_size(&loc) == 0);
    CHECK(cstl_dlist_size(&g_arr[0]) == 0);
    free(heap);

    /* g_first took over the other element type on the way; start afresh */
    cstl_dlist_init(&g_first, offsetof(struct first, n));
}

/* elements that live on the heap and are freed from the callbacks */
struct hnode { char tag[5]; struct cstl_dlist_node n; int v; };
static long heap_freed;

static void heap_free(void * const e, void * const p)
{
    (void)p;
    memset(e, 0xdd, sizeof(struct hnode));
    free(e);
    heap_freed++;
}

static int heap_visit(void * const e, void * const p)
{
    struct cstl_dlist * const l = p;
    struct hnode * const h = e;

    if (h->v % 3 == 0) {
        cstl_dlist_erase(l, h);
        heap_free(h, NULL);
    }
    return 0;
}

static int heap_cmp(const void * const a, const void * const b, void * p)
{
    (void)p;
    return ((const struct hnode *)a)->v - ((const struct hnode *)b)->v;
}

static int heap_sorted(void * const e, void * const p)
{
    int * const last = p;
    CHECK(*last <= ((struct hnode *)e)->v);
    *last = ((struct hnode *)e)->v;
    return 0;
}

static void heap_elements(void)
{
    DECLARE_CSTL_DLIST(l, struct hnode, n);
    long made = 0;
    int round, k;

    heap_freed = 0;
    for (round = 0; round < 40; round++) {
        size_t exp = cstl_dlist_size(&l);
        int last = -1;
        const int n = (round * 7) % 23;

        for (k = 0; k < n; k++) {
            struct hnode * const h = malloc(sizeof(*h));
            CHECK(h != NULL);
            h->v = rnd() % 50;
            made++;
            if (k & 1) {
                cstl_dlist_push_front(&l, h);
            } else {
                cstl_dlist_push_back(&l, h);
            }
        }
        exp += n;
        CHECK(cstl_dlist_size(&l) == exp);
        cstl_dlist_sort(&l, heap_cmp, NULL);
        CHECK(cstl_dlist_foreach(&l, heap_sorted, &last,
                                 CSTL_DLIST_FOREACH_DIR_FWD) == 0);
        cstl_dlist_foreach(&l, heap_visit, &l,
                           (round & 1) ? CSTL_DLIST_FOREACH_DIR_REV
                           : CSTL_DLIST_FOREACH_DIR_FWD);
        CHECK(cstl_dlist_size(&l) == (size_t)(made - heap_freed));
        if (round % 5 == 4) {
            cstl_dlist_clear(&l, heap_free);
            CHECK(cstl_dlist_size(&l) == 0);
            CHECK(made == heap_freed);
            CHECK(cstl_dlist_front(&l) == NULL);
        }
    }
    cstl_dlist_clear(&l, heap_free);
    CHECK(made == heap_freed);
    cstl_dlist_clear(&l, heap_free);
    CHECK(made == heap_freed);
}

/* ---- main ------------------------------------------------------------ */

static struct cstl_dlist S0[NL] = {
    CSTL_DLIST_INITIALIZER(S0[0], struct elem, n0),
    CSTL_DLIST_INITIALIZER(S0[1], struct elem, n0),
    CSTL_DLIST_INITIALIZER(S0[2], struct elem, n0),
};

int main(void)
{
    DECLARE_CSTL_DLIST(a1, struct elem, n1);
    struct cstl_dlist b1;
    struct cstl_dlist * const c1 = malloc(sizeof(*c1));
    unsigned long long seed;
    int i;

    CHECK(c1 != NULL);
    memset(&b1, 0xff, sizeof(b1));
    memset(c1, 0x11, sizeof(*c1));
    cstl_dlist_init(&b1, offsetof(struct elem, n1));
    cstl_dlist_init(c1, offsetof(struct elem, n1));

    for (i = 0; i < NL; i++) {
        L[0][i] = &S0[i];
    }
    L[1][0] = &a1;
    L[1][1] = &b1;
    L[1][2] = c1;

    /* first contact is with the statically initialised objects */
    pool_reset(MAXE, 7);
    check_all();
    {
        long s;
        for (s = 0; s < 3000; s++) {
            int j = rnd() % NL;
            const int li = rnd() % NL;
            const int kind = rnd() % OP_NKINDS;
            if (j == li) {
                j = (li + 1) % NL;
            }
            do_op(rnd() % NF, kind, li, j,
                  (kind == OP_FIND) ? (int)(rnd() % 7) : (int)(rnd() % 8), 1);
            check_all();
        }
    }

    other_types();
    heap_elements();

    exhaustive(alpha_full, (int)(sizeof(alpha_full) / sizeof(alpha_full[0])),
               4, 0);
    exhaustive(alpha_full, (int)(sizeof(alpha_full) / sizeof(alpha_full[0])),
               3, 1);
    exhaustive(alpha_one, (int)(sizeof(alpha_one) / sizeof(alpha_one[0])),
               6, 1);
    exhaustive(alpha_one, (int)(sizeof(alpha_one) / sizeof(alpha_one[0])),
               5, 0);

    all_small_lists(0);
    all_small_lists(1);

    for (seed = 1; seed <= 12; seed++) {
        random_run(seed, 40000, 16 + (int)(seed * 6), 3 + (int)(seed % 9));
    }
    random_run(99, 200000, MAXE, 11);

    other_types();
    free(c1);

    printf("ok: %lu operations, %lu list checks\n", nops, nchecks);
    return 0;
}
