/*
 * C11 negative control (c): exercising test.
 *
 * build + run (from the worktree root):
 *   make build && gcc -std=c99 -D_POSIX_C_SOURCE=199309L -Wall -Iinclude -o _keep/c/test _keep/c/test.c build/libcstl.a -lm && ./_keep/c/test
 *
 * Checks, through the public API only (cstl_raw_array_sort / _search /
 * _find / _reverse and the cstl_vector_* wrappers):
 *  - every selector (the 4 named ones, 2 out-of-range ones) yields a
 *    non-decreasing, byte-identical permutation of the input
 *  - element sizes 1,2,4,8 (fast paths) and 3,12 (memcpy path)
 *  - exhaustive arrays of length 0..7 over a 3-letter alphabet, plus large
 *    sorted / reversed / constant / two-valued / organ-pipe inputs
 *  - guard bytes around the array and around the scratch element stay intact
 *  - binary search, linear find and reverse behave as documented
 * Exit status 0 on success.
 */
#include <stdio.h>
#include <stdlib.h>
#include <string.h>
#include <stdint.h>

#include "cstl/array.h"
#include "cstl/vector.h"

#define GUARD   32
#define GBYTE   0xa5

static const cstl_sort_algorithm_t ALGOS[] = {
    CSTL_SORT_ALGORITHM_QUICK,
    CSTL_SORT_ALGORITHM_QUICK_R,
    CSTL_SORT_ALGORITHM_QUICK_M,
    CSTL_SORT_ALGORITHM_HEAP,
    (cstl_sort_algorithm_t)4,
    (cstl_sort_algorithm_t)2897234,
};
#define NALGOS (sizeof(ALGOS) / sizeof(*ALGOS))

static const size_t SIZES[] = { 1, 2, 3, 4, 8, 12 };
#define NSIZES (sizeof(SIZES) / sizeof(*SIZES))

static unsigned long fails;
#define CHECK(C)                                                        \
    do {                                                                \
        if (!(C)) {                                                     \
            fails++;                                                    \
            if (fails < 20) {                                           \
                fprintf(stderr, "%s:%d: check failed: %s\n",            \
                        __FILE__, __LINE__, #C);                        \
            }                                                           \
        }                                                               \
    } while (0)

/* the key of an element is its first byte; the rest is an identity tag */
static int key_cmp(const void * const a, const void * const b, void * const p)
{
    (void)p;
    return (int)*(const unsigned char *)a - (int)*(const unsigned char *)b;
}

static size_t g_size;
static int full_cmp(const void * const a, const void * const b)
{
    return memcmp(a, b, g_size);
}

static void fill(unsigned char * const arr, const size_t n, const size_t size,
                 const unsigned char * const keys)
{
    size_t i, k;
    for (i = 0; i < n; i++) {
        unsigned char * const e = arr + i * size;
        e[0] = keys[i];
        for (k = 1; k < size; k++) {
            e[k] = (unsigned char)((i * 7 + k * 13 + (i >> 8)) & 0xff);
        }
    }
}

static int guards_ok(const unsigned char * const g)
{
    size_t i;
    for (i = 0; i < GUARD; i++) {
        if (g[i] != GBYTE) {
            return 0;
        }
    }
    return 1;
}

/* run one array through sort/search/find/reverse with every selector */
static void run(const unsigned char * const keys, const size_t n,
                const unsigned maxkey)
{
    size_t si, ai;

    for (si = 0; si < NSIZES; si++) {
        const size_t size = SIZES[si];
        const size_t bytes = n * size;
        unsigned char * const blk = malloc(GUARD + bytes + GUARD);
        unsigned char * const tblk = malloc(GUARD + size + GUARD);
        unsigned char * const orig = malloc(bytes + 1);
        unsigned char * const ref = malloc(bytes + 1);
        unsigned char * const arr = blk + GUARD;
        unsigned char * const tmp = tblk + GUARD;

        g_size = size;

        for (ai = 0; ai < NALGOS; ai++) {
            size_t i;
            unsigned k;

            memset(blk, GBYTE, GUARD + bytes + GUARD);
            memset(tblk, GBYTE, GUARD + size + GUARD);
            fill(arr, n, size, keys);
            memcpy(orig, arr, bytes);

            /* linear find on the unsorted array: first match */
            for (k = 0; k <= maxkey + 1; k++) {
                unsigned char probe[16] = { 0 };
                ssize_t want = -1, got;
                probe[0] = (unsigned char)k;
                for (i = 0; i < n; i++) {
                    if (keys[i] == k) {
                        want = i;
                        break;
                    }
                }
                got = cstl_raw_array_find(arr, n, size, probe, key_cmp, NULL);
                CHECK(got == want);
            }

            cstl_raw_array_sort(arr, n, size, key_cmp, NULL,
                                cstl_swap, tmp, ALGOS[ai]);

            CHECK(guards_ok(blk));
            CHECK(guards_ok(arr + bytes));
            CHECK(guards_ok(tblk));
            CHECK(guards_ok(tmp + size));

            for (i = 1; i < n; i++) {
                CHECK(arr[(i - 1) * size] <= arr[i * size]);
            }

            /* byte-identical permutation: compare canonical orderings */
            memcpy(ref, arr, bytes);
            qsort(ref, n, size, full_cmp);
            qsort(orig, n, size, full_cmp);
            CHECK(memcmp(ref, orig, bytes) == 0);

            /* binary search on the sorted array */
            for (k = 0; k <= maxkey + 1; k++) {
                unsigned char probe[16] = { 0 };
                int present = 0;
                ssize_t got;
                probe[0] = (unsigned char)k;
                for (i = 0; i < n; i++) {
                    present |= (keys[i] == k);
                }
                got = cstl_raw_array_search(
                          arr, n, size, probe, key_cmp, NULL);
                if (present) {
                    CHECK(got >= 0 && (size_t)got < n
                          && arr[got * size] == k);
                } else {
                    CHECK(got == -1);
                }
            }

            /* reverse mirrors exactly */
            memcpy(ref, arr, bytes);
            cstl_raw_array_reverse(arr, n, size, cstl_swap, tmp);
            for (i = 0; i < n; i++) {
                CHECK(memcmp(arr + i * size,
                             ref + (n - 1 - i) * size, size) == 0);
            }
            CHECK(guards_ok(blk));
            CHECK(guards_ok(arr + bytes));
            CHECK(guards_ok(tblk));
            CHECK(guards_ok(tmp + size));
        }

        free(blk);
        free(tblk);
        free(orig);
        free(ref);
    }
}

/* the same through the vector wrappers, with 12-byte elements */
struct velem
{
    unsigned char key;
    unsigned char tag[11];
};

static void run_vector(const unsigned char * const keys, const size_t n,
                       const unsigned maxkey)
{
    size_t ai;

    for (ai = 0; ai < NALGOS; ai++) {
        DECLARE_CSTL_VECTOR(v, struct velem);
        struct velem * const orig = malloc((n + 1) * sizeof(*orig));
        struct velem * const ref = malloc((n + 1) * sizeof(*ref));
        size_t i;
        unsigned k;

        g_size = sizeof(struct velem);

        cstl_vector_resize(&v, n);
        if (n > 0) {
            fill(cstl_vector_data(&v), n, sizeof(struct velem), keys);
            memcpy(orig, cstl_vector_data(&v), n * sizeof(*orig));
        }

        if (ai == 2) {
            cstl_vector_sort(&v, key_cmp, NULL);
        } else {
            __cstl_vector_sort(&v, key_cmp, NULL, cstl_swap, ALGOS[ai]);
        }
        CHECK(cstl_vector_size(&v) == n);

        for (i = 1; i < n; i++) {
            CHECK(((struct velem *)cstl_vector_at(&v, i - 1))->key
                  <= ((struct velem *)cstl_vector_at(&v, i))->key);
        }
        if (n > 0) {
            memcpy(ref, cstl_vector_data(&v), n * sizeof(*ref));
            qsort(ref, n, sizeof(*ref), full_cmp);
            qsort(orig, n, sizeof(*orig), full_cmp);
            CHECK(memcmp(ref, orig, n * sizeof(*ref)) == 0);
        }

        for (k = 0; k <= maxkey + 1; k++) {
            struct velem probe;
            ssize_t s, f, first = -1;
            memset(&probe, 0, sizeof(probe));
            probe.key = (unsigned char)k;
            for (i = 0; i < n; i++) {
                if (((struct velem *)cstl_vector_at(&v, i))->key == k) {
                    first = i;
                    break;
                }
            }
            s = cstl_vector_search(&v, &probe, key_cmp, NULL);
            f = cstl_vector_find(&v, &probe, key_cmp, NULL);
            CHECK(f == first);
            if (first >= 0) {
                CHECK(s >= 0 && (size_t)s < n
                      && ((struct velem *)cstl_vector_at(&v, s))->key == k);
            } else {
                CHECK(s == -1);
            }
        }

        if (n > 0) {
            memcpy(ref, cstl_vector_data(&v), n * sizeof(*ref));
        }
        cstl_vector_reverse(&v);
        for (i = 0; i < n; i++) {
            CHECK(memcmp(cstl_vector_at(&v, i),
                         &ref[n - 1 - i], sizeof(*ref)) == 0);
        }

        cstl_vector_clear(&v);
        free(orig);
        free(ref);
    }
}

int main(void)
{
    unsigned char keys[4096];
    size_t n, i;
    unsigned seed;

    /* exhaustive: every array of length 0..7 over the alphabet {0,1,2} */
    for (n = 0; n <= 7; n++) {
        unsigned long code, total = 1;
        for (i = 0; i < n; i++) {
            total *= 3;
        }
        for (code = 0; code < total; code++) {
            unsigned long c = code;
            for (i = 0; i < n; i++) {
                keys[i] = (unsigned char)(c % 3);
                c /= 3;
            }
            for (seed = 0; seed < 2; seed++) {
                srand(seed + 1);
                run(keys, n, 2);
            }
            if (n >= 6 || code % 7 == 0) {
                run_vector(keys, n, 2);
            }
        }
    }

    /* large adversarial inputs */
    for (n = 1000; n <= 1537; n += 537) {
        for (i = 0; i < n; i++) {
            keys[i] = (unsigned char)(i * 200 / n);         /* sorted */
        }
        run(keys, n, 200);
        run_vector(keys, n, 200);
        for (i = 0; i < n; i++) {
            keys[i] = (unsigned char)((n - 1 - i) * 200 / n); /* reversed */
        }
        run(keys, n, 200);
        run_vector(keys, n, 200);
        for (i = 0; i < n; i++) {
            keys[i] = 9;                                    /* constant */
        }
        run(keys, n, 10);
        run_vector(keys, n, 10);
        for (i = 0; i < n; i++) {
            keys[i] = (unsigned char)((i * 2654435761u >> 7) & 1);
        }                                                   /* two-valued */
        run(keys, n, 2);
        run_vector(keys, n, 2);
        for (i = 0; i < n; i++) {
            const size_t d = i < n / 2 ? i : n - 1 - i;     /* organ pipe */
            keys[i] = (unsigned char)(d * 400 / n);
        }
        run(keys, n, 201);
        run_vector(keys, n, 201);
        srand(12345);
        for (i = 0; i < n; i++) {
            keys[i] = (unsigned char)(rand() % 50);         /* random */
        }
        run(keys, n, 50);
        run_vector(keys, n, 50);
    }

    if (fails != 0) {
        fprintf(stderr, "FAILED: %lu checks\n", fails);
        return 1;
    }
    printf("ok\n");
    return 0;
}
