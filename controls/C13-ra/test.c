/*
 * C13: a singly-linked list equals a reference sequence and its tail is
 * the true last element.
 *
 * Model-based test that uses only the public API of cstl/slist.h.
 *
 *   1. exhaustive: every sequence of up to DEPTH1 operations over one list
 *      of initial length 0..5 (every insert/erase position, also relative
 *      to the tail), with and without a push_back "tail probe" after
 *      every step
 *   2. exhaustive: every sequence of up to DEPTH2 operations over two lists
 *      of initial lengths 0..5 x 0..5, including concat and swap
 *   3. seeded random: long sequences over three lists (static initialiser
 *      at file scope, static initialiser on the stack, heap + init())
 *   4. large lists: sort / reverse / concat / swap on thousands of nodes
 *
 * The callbacks (comparator, visitor, clear function) all call back into
 * the library on a different list with a different element type.
 */

#include "cstl/slist.h"

#include <stdio.h>
#include <stdlib.h>
#include <string.h>

#ifndef VARIANT
#define VARIANT "a"
#endif

#define MAXN   96
#define POOL   80
#define NOSTOP ((size_t)-1)

struct item
{
    int key;
    struct cstl_slist_node node;
    int id;
    int cleared;
};

struct other
{
    char pad[40];
    long v;
    struct cstl_slist_node link;
};

struct model
{
    struct cstl_slist * sl;
    struct item * seq[MAXN];
    size_t n;
    struct item sentinel;
};

static char ctx[512];
static unsigned long nchecks;

#define CHECK(C)                                                        \
    do {                                                                \
        nchecks++;                                                      \
        if (!(C)) {                                                     \
            fprintf(stderr, "FAIL %s:%d: %s [%s]\n",                    \
                    __FILE__, __LINE__, #C, ctx);                       \
            exit(1);                                                    \
        }                                                               \
    } while (0)

/* ---- deterministic pseudo random numbers ---- */

static unsigned long long rng_state = 1;

static unsigned int rnd(void)
{
    rng_state = rng_state * 6364136223846793005ULL + 1442695040888963407ULL;
    return (unsigned int)(rng_state >> 33);
}

/* ---- a second list with another element type, used from callbacks ---- */

#define NOTHER 8
static struct other other_pool[NOTHER];
static DECLARE_CSTL_SLIST(aux, struct other, link);
static size_t aux_head, aux_count;
static unsigned long aux_touches;

static void touch_other(void)
{
    aux_touches++;
    if (aux_count < NOTHER && (aux_touches % 3) != 0) {
        struct other * const o = &other_pool[(aux_head + aux_count) % NOTHER];
        o->v = (long)aux_touches;
        cstl_slist_push_back(&aux, o);
        aux_count++;
        CHECK(cstl_slist_back(&aux) == o);
    } else if (aux_count > 0) {
        struct other * const o = cstl_slist_pop_front(&aux);
        CHECK(o == &other_pool[aux_head]);
        aux_head = (aux_head + 1) % NOTHER;
        aux_count--;
    } else {
        CHECK(cstl_slist_pop_front(&aux) == NULL);
    }
    CHECK(cstl_slist_size(&aux) == aux_count);
    if (aux_count == 0) {
        CHECK(cstl_slist_front(&aux) == NULL);
        CHECK(cstl_slist_back(&aux) == NULL);
    } else {
        CHECK(cstl_slist_front(&aux) == &other_pool[aux_head]);
        CHECK(cstl_slist_back(&aux)
              == &other_pool[(aux_head + aux_count - 1) % NOTHER]);
    }
}

/* ---- element pool ---- */

static struct item pool[POOL];
static int in_use[POOL];
static int key_range = 5;

static void pool_reset(void)
{
    int i;
    memset(in_use, 0, sizeof(in_use));
    for (i = 0; i < POOL; i++) {
        pool[i].id = i;
        pool[i].cleared = 0;
    }
}

static struct item * take(void)
{
    int i;
    for (i = 0; i < POOL; i++) {
        if (!in_use[i]) {
            in_use[i] = 1;
            pool[i].key = (int)(rnd() % (unsigned)key_range) - 2;
            return &pool[i];
        }
    }
    return NULL;
}

static void give(struct item * const it)
{
    CHECK(it >= pool && it < pool + POOL);
    CHECK(in_use[it - pool]);
    in_use[it - pool] = 0;
}

/* ---- traversal ---- */

struct collect
{
    struct item * seen[MAXN + 2];
    size_t n;
    size_t stop_at;
    int stop_val;
};

static int collect_visit(void * const e, void * const p)
{
    struct collect * const c = p;

    CHECK(c->n < MAXN + 2);
    c->seen[c->n++] = e;
    touch_other();
    if (c->n - 1 == c->stop_at) {
        return c->stop_val;
    }
    return 0;
}

static void verify(struct model * const m)
{
    static struct collect c;
    size_t i;

    CHECK(cstl_slist_size(m->sl) == m->n);
    CHECK(cstl_slist_front(m->sl) == (m->n ? (void *)m->seq[0] : NULL));
    CHECK(cstl_slist_back(m->sl)
          == (m->n ? (void *)m->seq[m->n - 1] : NULL));

    c.n = 0;
    c.stop_at = NOSTOP;
    c.stop_val = 0;
    CHECK(cstl_slist_foreach(m->sl, collect_visit, &c) == 0);
    CHECK(c.n == m->n);
    for (i = 0; i < m->n; i++) {
        CHECK(c.seen[i] == m->seq[i]);
    }

    if (m->n > 0) {
        c.n = 0;
        c.stop_at = 0;
        c.stop_val = 7;
        CHECK(cstl_slist_foreach(m->sl, collect_visit, &c) == 7);
        CHECK(c.n == 1 && c.seen[0] == m->seq[0]);

        c.n = 0;
        c.stop_at = m->n - 1;
        c.stop_val = -3;
        CHECK(cstl_slist_foreach(m->sl, collect_visit, &c) == -3);
        CHECK(c.n == m->n && c.seen[m->n - 1] == m->seq[m->n - 1]);

        c.n = 0;
        c.stop_at = m->n / 2;
        c.stop_val = 1;
        CHECK(cstl_slist_foreach(m->sl, collect_visit, &c) == 1);
        CHECK(c.n == m->n / 2 + 1);
    }
}

/*
 * push_back must append after the true last element: push a sentinel,
 * look at the whole list, take the sentinel out again.
 */
static void probe(struct model * const m)
{
    struct item * const s = &m->sentinel;

    CHECK(m->n + 1 < MAXN);
    cstl_slist_push_back(m->sl, s);
    m->seq[m->n++] = s;
    verify(m);
    m->n--;
    if (m->n == 0) {
        CHECK(cstl_slist_pop_front(m->sl) == s);
    } else {
        CHECK(cstl_slist_erase_after(m->sl, m->seq[m->n - 1]) == s);
    }
    verify(m);
}

static int do_probe = 1;

static void check_model(struct model * const m)
{
    verify(m);
    if (do_probe) {
        probe(m);
    }
}

/* ---- callbacks ---- */

static int cmp_cookie;
static unsigned long cmp_calls;

static int cmp_item(const void * const a, const void * const b, void * const p)
{
    const struct item * const ia = a;
    const struct item * const ib = b;

    CHECK(p == &cmp_cookie);
    cmp_calls++;
    touch_other();
    return (ia->key > ib->key) - (ia->key < ib->key);
}

static size_t clear_calls;

static void clr_item(void * const e, void * const p)
{
    struct item * const it = e;

    (void)p;
    it->cleared++;
    clear_calls++;
    touch_other();
}

/* ---- operations on list + model ---- */

static void m_push_front(struct model * const m)
{
    struct item * const it = take();
    CHECK(it != NULL && m->n + 2 < MAXN);
    cstl_slist_push_front(m->sl, it);
    memmove(&m->seq[1], &m->seq[0], m->n * sizeof(m->seq[0]));
    m->seq[0] = it;
    m->n++;
}

static void m_push_back(struct model * const m)
{
    struct item * const it = take();
    CHECK(it != NULL && m->n + 2 < MAXN);
    cstl_slist_push_back(m->sl, it);
    m->seq[m->n++] = it;
}

static void m_insert_after(struct model * const m, const size_t pos)
{
    struct item * const it = take();
    CHECK(it != NULL && m->n + 2 < MAXN && pos < m->n);
    cstl_slist_insert_after(m->sl, m->seq[pos], it);
    memmove(&m->seq[pos + 2], &m->seq[pos + 1],
            (m->n - pos - 1) * sizeof(m->seq[0]));
    m->seq[pos + 1] = it;
    m->n++;
}

static void m_erase_after(struct model * const m, const size_t pos)
{
    struct item * r;
    CHECK(pos + 1 < m->n);
    r = cstl_slist_erase_after(m->sl, m->seq[pos]);
    CHECK(r == m->seq[pos + 1]);
    memmove(&m->seq[pos + 1], &m->seq[pos + 2],
            (m->n - pos - 2) * sizeof(m->seq[0]));
    m->n--;
    give(r);
}

static void m_pop_front(struct model * const m)
{
    struct item * const r = cstl_slist_pop_front(m->sl);
    if (m->n == 0) {
        CHECK(r == NULL);
        CHECK(cstl_slist_size(m->sl) == 0);
        CHECK(cstl_slist_pop_front(m->sl) == NULL);
    } else {
        CHECK(r == m->seq[0]);
        memmove(&m->seq[0], &m->seq[1], (m->n - 1) * sizeof(m->seq[0]));
        m->n--;
        give(r);
    }
}

static void m_reverse(struct model * const m)
{
    size_t i;
    cstl_slist_reverse(m->sl);
    for (i = 0; i < m->n / 2; i++) {
        struct item * const t = m->seq[i];
        m->seq[i] = m->seq[m->n - 1 - i];
        m->seq[m->n - 1 - i] = t;
    }
}

static void m_sort(struct model * const m)
{
    static struct collect c;
    static int mark[POOL];
    const unsigned long before = cmp_calls;
    size_t i;

    cstl_slist_sort(m->sl, cmp_item, &cmp_cookie);
    if (m->n < 2) {
        CHECK(cmp_calls == before);
    }

    /* same elements, each once, in non-decreasing order */
    CHECK(cstl_slist_size(m->sl) == m->n);
    c.n = 0;
    c.stop_at = NOSTOP;
    c.stop_val = 0;
    CHECK(cstl_slist_foreach(m->sl, collect_visit, &c) == 0);
    CHECK(c.n == m->n);
    memset(mark, 0, sizeof(mark));
    for (i = 0; i < m->n; i++) {
        mark[m->seq[i] - pool]++;
    }
    for (i = 0; i < c.n; i++) {
        CHECK(c.seen[i] >= pool && c.seen[i] < pool + POOL);
        CHECK(mark[c.seen[i] - pool] == 1);
        mark[c.seen[i] - pool]--;
        if (i > 0) {
            CHECK(c.seen[i - 1]->key <= c.seen[i]->key);
        }
    }
    for (i = 0; i < c.n; i++) {
        m->seq[i] = c.seen[i];
    }
}

static void m_clear(struct model * const m)
{
    size_t i;

    for (i = 0; i < m->n; i++) {
        m->seq[i]->cleared = 0;
    }
    clear_calls = 0;
    cstl_slist_clear(m->sl, clr_item);
    CHECK(clear_calls == m->n);
    for (i = 0; i < m->n; i++) {
        CHECK(m->seq[i]->cleared == 1);
        give(m->seq[i]);
    }
    m->n = 0;
}

static void m_concat(struct model * const d, struct model * const s)
{
    CHECK(d->n + s->n + 2 < MAXN);
    cstl_slist_concat(d->sl, s->sl);
    memcpy(&d->seq[d->n], &s->seq[0], s->n * sizeof(s->seq[0]));
    d->n += s->n;
    s->n = 0;
}

static void m_swap(struct model * const a, struct model * const b)
{
    static struct item * tmp[MAXN];
    size_t tn;

    cstl_slist_swap(a->sl, b->sl);
    memcpy(tmp, a->seq, sizeof(tmp));
    tn = a->n;
    memcpy(a->seq, b->seq, sizeof(tmp));
    a->n = b->n;
    memcpy(b->seq, tmp, sizeof(tmp));
    b->n = tn;
}

/* ---- single list operation alphabet ---- */

enum
{
    OP_PUSH_FRONT,
    OP_PUSH_BACK,
    OP_POP_FRONT,
    OP_REVERSE,
    OP_SORT,
    OP_CLEAR,
    OP_INS_LAST,    /* insert after the last element */
    OP_INS_LAST1,   /* insert after the last but one */
    OP_ERA_LAST,    /* erase the last element */
    OP_ERA_LAST1,   /* erase the last but one */
    OP_INS0, OP_INS1, OP_INS2, OP_INS3, OP_INS4, OP_INS5,
    OP_ERA0, OP_ERA1, OP_ERA2, OP_ERA3, OP_ERA4,
    OP_SINGLE_COUNT
};

/* returns 0 if the operation is not applicable in the current state */
static int apply_single(struct model * const m, const int op)
{
    switch (op) {
    case OP_PUSH_FRONT: m_push_front(m); return 1;
    case OP_PUSH_BACK: m_push_back(m); return 1;
    case OP_POP_FRONT: m_pop_front(m); return 1;
    case OP_REVERSE: m_reverse(m); return 1;
    case OP_SORT: m_sort(m); return 1;
    case OP_CLEAR: m_clear(m); return 1;
    case OP_INS_LAST:
        if (m->n < 1) return 0;
        m_insert_after(m, m->n - 1);
        return 1;
    case OP_INS_LAST1:
        if (m->n < 2) return 0;
        m_insert_after(m, m->n - 2);
        return 1;
    case OP_ERA_LAST:
        if (m->n < 2) return 0;
        m_erase_after(m, m->n - 2);
        return 1;
    case OP_ERA_LAST1:
        if (m->n < 3) return 0;
        m_erase_after(m, m->n - 3);
        return 1;
    default:
        if (op >= OP_INS0 && op <= OP_INS5) {
            const size_t pos = (size_t)(op - OP_INS0);
            if (pos >= m->n) return 0;
            m_insert_after(m, pos);
            return 1;
        }
        if (op >= OP_ERA0 && op <= OP_ERA4) {
            const size_t pos = (size_t)(op - OP_ERA0);
            if (pos + 1 >= m->n) return 0;
            m_erase_after(m, pos);
            return 1;
        }
    }
    CHECK(0);
    return 0;
}

static void model_init(struct model * const m, struct cstl_slist * const sl)
{
    memset(m, 0, sizeof(*m));
    m->sl = sl;
    m->sentinel.key = 1000;
    m->sentinel.id = -1;
}

static void model_fill(struct model * const m, const size_t len, const int how)
{
    size_t i;
    for (i = 0; i < len; i++) {
        switch (how % 3) {
        case 0: m_push_back(m); break;
        case 1: m_push_front(m); break;
        default:
            if (m->n == 0) {
                m_push_front(m);
            } else {
                m_insert_after(m, m->n - 1);
            }
            break;
        }
    }
}

/* ---- phase 1: exhaustive, one list ---- */

static unsigned long seqs_run;

static void exhaustive_single(const int depth, const int probing)
{
    size_t len;
    int how;

    do_probe = probing;
    for (len = 0; len <= 5; len++) {
        for (how = 0; how < 3; how++) {
            int ops[8];
            int d, i;
            unsigned long total = 1, code;

            for (d = 1; d <= depth; d++) {
                total = 1;
                for (i = 0; i < d; i++) {
                    total *= OP_SINGLE_COUNT;
                }
                for (code = 0; code < total; code++) {
                    unsigned long c = code;
                    struct cstl_slist list;
                    struct model m;
                    int ok = 1;

                    for (i = 0; i < d; i++) {
                        ops[i] = (int)(c % OP_SINGLE_COUNT);
                        c /= OP_SINGLE_COUNT;
                    }
                    /* only complete sequences of exactly d steps; shorter
                     * ones were already run at a smaller depth */
                    pool_reset();
                    rng_state = 12345 + len;
                    cstl_slist_init(&list, offsetof(struct item, node));
                    model_init(&m, &list);
                    check_model(&m);
                    model_fill(&m, len, how);
                    check_model(&m);
                    for (i = 0; i < d && ok; i++) {
                        snprintf(ctx, sizeof(ctx),
                                 "single len=%lu how=%d depth=%d code=%lu "
                                 "step=%d op=%d probe=%d",
                                 (unsigned long)len, how, d, code, i, ops[i],
                                 probing);
                        ok = apply_single(&m, ops[i]);
                        if (ok) {
                            check_model(&m);
                        }
                    }
                    if (ok) {
                        seqs_run++;
                        /* the list is still fully usable at the end */
                        m_push_back(&m);
                        verify(&m);
                        m_clear(&m);
                        verify(&m);
                        m_pop_front(&m);
                        verify(&m);
                    }
                }
            }
        }
    }
    do_probe = 1;
}

/* ---- phase 2: exhaustive, two lists ---- */

enum
{
    P_PUSH_FRONT,
    P_PUSH_BACK,
    P_POP_FRONT,
    P_REVERSE,
    P_SORT,
    P_CLEAR,
    P_INS_LAST,
    P_ERA_LAST,
    P_INS_FIRST,
    P_ERA_SECOND,
    P_PER_LIST
};
#define OP_PAIR_COUNT (2 * P_PER_LIST + 4)

static int apply_pair(struct model * const a, struct model * const b,
                      const int op)
{
    static const int map[P_PER_LIST] = {
        OP_PUSH_FRONT, OP_PUSH_BACK, OP_POP_FRONT, OP_REVERSE, OP_SORT,
        OP_CLEAR, OP_INS_LAST, OP_ERA_LAST, OP_INS0, OP_ERA0
    };

    if (op < P_PER_LIST) {
        return apply_single(a, map[op]);
    } else if (op < 2 * P_PER_LIST) {
        return apply_single(b, map[op - P_PER_LIST]);
    }
    switch (op - 2 * P_PER_LIST) {
    case 0: m_concat(a, b); return 1;
    case 1: m_concat(b, a); return 1;
    case 2: m_swap(a, b); return 1;
    case 3: m_swap(b, a); return 1;
    }
    CHECK(0);
    return 0;
}

static void exhaustive_pair(const int depth, const size_t maxlen,
                            const int probing)
{
    size_t la, lb;

    do_probe = probing;
    for (la = 0; la <= maxlen; la++) {
        for (lb = 0; lb <= maxlen; lb++) {
            int d, i;
            int ops[8];

            for (d = 1; d <= depth; d++) {
                unsigned long total = 1, code;
                for (i = 0; i < d; i++) {
                    total *= OP_PAIR_COUNT;
                }
                for (code = 0; code < total; code++) {
                    unsigned long c = code;
                    DECLARE_CSTL_SLIST(lista, struct item, node);
                    struct cstl_slist listb;
                    struct model ma, mb;
                    int ok = 1;

                    for (i = 0; i < d; i++) {
                        ops[i] = (int)(c % OP_PAIR_COUNT);
                        c /= OP_PAIR_COUNT;
                    }
                    pool_reset();
                    rng_state = 777 + la * 7 + lb;
                    cstl_slist_init(&listb, offsetof(struct item, node));
                    model_init(&ma, &lista);
                    model_init(&mb, &listb);
                    model_fill(&ma, la, (int)(la + lb));
                    model_fill(&mb, lb, (int)(la + 2 * lb + 1));
                    check_model(&ma);
                    check_model(&mb);
                    for (i = 0; i < d && ok; i++) {
                        snprintf(ctx, sizeof(ctx),
                                 "pair la=%lu lb=%lu depth=%d code=%lu "
                                 "step=%d op=%d probe=%d",
                                 (unsigned long)la, (unsigned long)lb, d,
                                 code, i, ops[i], probing);
                        ok = apply_pair(&ma, &mb, ops[i]);
                        if (ok) {
                            check_model(&ma);
                            check_model(&mb);
                        }
                    }
                    if (ok) {
                        seqs_run++;
                        m_push_back(&ma);
                        m_push_back(&mb);
                        verify(&ma);
                        verify(&mb);
                        m_clear(&ma);
                        m_clear(&mb);
                        verify(&ma);
                        verify(&mb);
                    }
                }
            }
        }
    }
    do_probe = 1;
}

/* ---- phase 3: seeded random, three lists ---- */

static DECLARE_CSTL_SLIST(global_list, struct item, node);

static size_t total_items(struct model * const m[3])
{
    return m[0]->n + m[1]->n + m[2]->n;
}

static void random_long(const unsigned seed, const unsigned nops)
{
    DECLARE_CSTL_SLIST(stack_list, struct item, node);
    struct cstl_slist * const heap_list = malloc(sizeof(*heap_list));
    static struct model ms[3];
    struct model * m[3];
    unsigned step;
    const size_t cap = 40;

    CHECK(heap_list != NULL);
    memset(heap_list, 0xa5, sizeof(*heap_list));
    cstl_slist_init(heap_list, offsetof(struct item, node));

    pool_reset();
    rng_state = 0x9e3779b97f4a7c15ULL ^ ((unsigned long long)seed << 17);
    key_range = 1 + (int)(seed % 9);
    do_probe = (seed % 4) != 3;

    model_init(&ms[0], &global_list);
    model_init(&ms[1], &stack_list);
    model_init(&ms[2], heap_list);
    m[0] = &ms[0]; m[1] = &ms[1]; m[2] = &ms[2];
    CHECK(cstl_slist_size(&global_list) == 0);

    for (step = 0; step < nops; step++) {
        const unsigned r = rnd() % 100;
        const unsigned x = rnd() % 3;
        unsigned y = rnd() % 3;
        struct model * const a = m[x];
        int touched_y = 0;

        if (y == x) {
            y = (y + 1) % 3;
        }
        snprintf(ctx, sizeof(ctx), "random seed=%u step=%u r=%u x=%u y=%u",
                 seed, step, r, x, y);

        if (r < 14) {
            if (total_items(m) < cap) m_push_back(a);
        } else if (r < 24) {
            if (total_items(m) < cap) m_push_front(a);
        } else if (r < 38) {
            if (total_items(m) < cap && a->n > 0) {
                size_t pos = rnd() % a->n;
                if (rnd() % 3 == 0) pos = a->n - 1;
                m_insert_after(a, pos);
            }
        } else if (r < 54) {
            if (a->n > 1) {
                size_t pos = rnd() % (a->n - 1);
                if (rnd() % 3 == 0) pos = a->n - 2;
                m_erase_after(a, pos);
            }
        } else if (r < 64) {
            m_pop_front(a);
        } else if (r < 72) {
            m_reverse(a);
        } else if (r < 80) {
            m_sort(a);
        } else if (r < 88) {
            m_concat(a, m[y]);
            touched_y = 1;
        } else if (r < 96) {
            m_swap(a, m[y]);
            touched_y = 1;
        } else if (r < 98) {
            m_clear(a);
        } else {
            /* drain by pop_front down to (and beyond) empty */
            while (a->n > 0) {
                m_pop_front(a);
            }
            m_pop_front(a);
        }

        check_model(a);
        if (touched_y) {
            check_model(m[y]);
        }
        if (step % 16 == 0) {
            verify(m[0]);
            verify(m[1]);
            verify(m[2]);
        }
    }

    snprintf(ctx, sizeof(ctx), "random seed=%u teardown", seed);
    m_clear(m[0]);
    m_clear(m[1]);
    m_clear(m[2]);
    check_model(m[0]);
    check_model(m[1]);
    check_model(m[2]);
    free(heap_list);
    key_range = 5;
    do_probe = 1;
}

/* ---- phase 4: large lists ---- */

struct big
{
    struct cstl_slist_node n;
    unsigned key;
    unsigned seq;
};

struct bigwalk
{
    struct big ** out;
    size_t n, cap;
};

static int big_visit(void * const e, void * const p)
{
    struct bigwalk * const w = p;
    CHECK(w->n < w->cap);
    w->out[w->n++] = e;
    return 0;
}

static int big_cmp(const void * const a, const void * const b, void * const p)
{
    const struct big * const x = a;
    const struct big * const y = b;
    (void)p;
    return (x->key > y->key) - (x->key < y->key);
}

static size_t big_cleared;
static void big_clr(void * const e, void * const p)
{
    (void)p;
    big_cleared++;
    free(e);
}

static void large(const size_t n, const unsigned keymod)
{
    DECLARE_CSTL_SLIST(l1, struct big, n);
    DECLARE_CSTL_SLIST(l2, struct big, n);
    struct big ** const ref = malloc((n + 2) * sizeof(*ref));
    struct big ** const got = malloc((n + 2) * sizeof(*got));
    struct bigwalk w;
    struct big extra;
    size_t i;

    snprintf(ctx, sizeof(ctx), "large n=%lu keymod=%u", (unsigned long)n,
             keymod);
    CHECK(ref != NULL && got != NULL);
    for (i = 0; i < n; i++) {
        struct big * const b = malloc(sizeof(*b));
        CHECK(b != NULL);
        b->key = rnd() % keymod;
        b->seq = (unsigned)i;
        ref[i] = b;
        if (i % 2 == 0) {
            cstl_slist_push_back(&l1, b);
        } else {
            cstl_slist_push_back(&l2, b);
        }
    }
    CHECK(cstl_slist_size(&l1) == (n + 1) / 2);
    CHECK(cstl_slist_size(&l2) == n / 2);

    /* l1 = evens then odds */
    cstl_slist_concat(&l1, &l2);
    CHECK(cstl_slist_size(&l1) == n && cstl_slist_size(&l2) == 0);
    CHECK(cstl_slist_front(&l2) == NULL && cstl_slist_back(&l2) == NULL);
    w.out = got; w.n = 0; w.cap = n + 2;
    CHECK(cstl_slist_foreach(&l1, big_visit, &w) == 0);
    CHECK(w.n == n);
    for (i = 0; i < n; i++) {
        const size_t want = i < (n + 1) / 2 ? 2 * i : 2 * (i - (n + 1) / 2) + 1;
        CHECK(got[i] == ref[want]);
    }
    if (n > 0) {
        CHECK(cstl_slist_back(&l1) == got[n - 1]);
    }

    cstl_slist_swap(&l1, &l2);
    CHECK(cstl_slist_size(&l2) == n && cstl_slist_size(&l1) == 0);
    cstl_slist_push_back(&l1, &extra);
    CHECK(cstl_slist_front(&l1) == &extra && cstl_slist_back(&l1) == &extra);
    CHECK(cstl_slist_pop_front(&l1) == &extra);
    CHECK(cstl_slist_pop_front(&l1) == NULL);
    cstl_slist_swap(&l2, &l1);
    CHECK(cstl_slist_size(&l1) == n && cstl_slist_size(&l2) == 0);

    /* reverse */
    cstl_slist_reverse(&l1);
    w.n = 0;
    CHECK(cstl_slist_foreach(&l1, big_visit, &w) == 0);
    CHECK(w.n == n);
    for (i = 0; i < n; i++) {
        const size_t j = n - 1 - i;
        const size_t want = j < (n + 1) / 2 ? 2 * j : 2 * (j - (n + 1) / 2) + 1;
        CHECK(got[i] == ref[want]);
    }
    if (n > 0) {
        CHECK(cstl_slist_back(&l1) == got[n - 1]);
        CHECK(cstl_slist_front(&l1) == got[0]);
    }
    extra.key = keymod; /* greater than all */
    cstl_slist_push_back(&l1, &extra);
    CHECK(cstl_slist_back(&l1) == &extra);
    CHECK(cstl_slist_size(&l1) == n + 1);

    /* sort */
    cstl_slist_sort(&l1, big_cmp, NULL);
    CHECK(cstl_slist_size(&l1) == n + 1);
    w.n = 0;
    CHECK(cstl_slist_foreach(&l1, big_visit, &w) == 0);
    CHECK(w.n == n + 1);
    CHECK(got[n] == &extra);
    CHECK(cstl_slist_back(&l1) == &extra);
    CHECK(cstl_slist_front(&l1) == got[0]);
    for (i = 0; i < n; i++) {
        ref[got[i]->seq] = NULL;
        if (i > 0) {
            CHECK(got[i - 1]->key <= got[i]->key);
        }
    }
    for (i = 0; i < n; i++) {
        CHECK(ref[i] == NULL);
    }

    /* push_back after sort goes after the true last element */
    if (n > 0) {
        CHECK(cstl_slist_erase_after(&l1, got[n - 1]) == &extra);
        CHECK(cstl_slist_back(&l1) == got[n - 1]);
    } else {
        CHECK(cstl_slist_pop_front(&l1) == &extra);
    }
    cstl_slist_push_back(&l1, &extra);
    w.n = 0;
    CHECK(cstl_slist_foreach(&l1, big_visit, &w) == 0);
    CHECK(w.n == n + 1 && got[n] == &extra);
    if (n > 0) {
        CHECK(cstl_slist_erase_after(&l1, got[n - 1]) == &extra);
    } else {
        CHECK(cstl_slist_pop_front(&l1) == &extra);
    }

    big_cleared = 0;
    cstl_slist_clear(&l1, big_clr);
    CHECK(big_cleared == n);
    CHECK(cstl_slist_size(&l1) == 0);
    CHECK(cstl_slist_front(&l1) == NULL && cstl_slist_back(&l1) == NULL);
    CHECK(cstl_slist_pop_front(&l1) == NULL);
    cstl_slist_push_back(&l1, &extra);
    CHECK(cstl_slist_back(&l1) == &extra && cstl_slist_front(&l1) == &extra);
    CHECK(cstl_slist_pop_front(&l1) == &extra);

    free(ref);
    free(got);
}

/* ---- variant specific focus ---- */

static void focus(void);

int main(void)
{
    unsigned seed;
    size_t n;

    snprintf(ctx, sizeof(ctx), "start");

    focus();

    exhaustive_single(4, 0);
    exhaustive_single(3, 1);
    exhaustive_pair(3, 5, 1);
    exhaustive_pair(4, 2, 0);

    for (seed = 1; seed <= 240; seed++) {
        random_long(seed, 2500);
    }

    rng_state = 4242;
    for (n = 0; n <= 40; n++) {
        large(n, 1 + (unsigned)(n % 7));
    }
    large(1000, 3);
    large(4097, 100000);
    large(30000, 1000);
    large(65536, 2);

    /* the callback list survived everything */
    while (aux_count > 0) {
        CHECK(cstl_slist_pop_front(&aux) == &other_pool[aux_head]);
        aux_head = (aux_head + 1) % NOTHER;
        aux_count--;
    }
    CHECK(cstl_slist_size(&aux) == 0);
    CHECK(cstl_slist_pop_front(&aux) == NULL);

    printf("C13 keep-%s: ok, %lu sequences, %lu checks, %lu callbacks\n",
           VARIANT, seqs_run, nchecks, aux_touches);
    return 0;
}

/*
 * Variant a specialises push_front / push_back / pop_front and detects
 * the tail by the NULL link: hammer exactly the transitions between
 * empty, one element and two elements through every entry point.
 */
static void focus(void)
{
    int first, second, third, fourth;

    for (first = 0; first < OP_SINGLE_COUNT; first++) {
        for (second = 0; second < OP_SINGLE_COUNT; second++) {
            for (third = 0; third < OP_SINGLE_COUNT; third++) {
                for (fourth = 0; fourth < 3; fourth++) {
                    DECLARE_CSTL_SLIST(l, struct item, node);
                    struct model m;
                    const int ops[5] = {
                        first, second, third,
                        fourth == 0 ? OP_PUSH_BACK
                        : fourth == 1 ? OP_POP_FRONT : OP_ERA_LAST,
                        OP_PUSH_BACK
                    };
                    int i, ok = 1;

                    pool_reset();
                    rng_state = 99;
                    model_init(&m, &l);
                    for (i = 0; i < 5 && ok; i++) {
                        snprintf(ctx, sizeof(ctx),
                                 "focus-a %d %d %d %d step %d",
                                 first, second, third, fourth, i);
                        ok = apply_single(&m, ops[i]);
                        if (ok) {
                            verify(&m);
                        }
                    }
                    if (ok) {
                        seqs_run++;
                        probe(&m);
                    }
                }
            }
        }
    }
}
