/*
 * C06 - reference counting is correct under every thread interleaving.
 *
 * Standalone test, public API of cstl/memory.h only.
 *
 * Part 1: deterministic single-thread checks of every documented behaviour
 *         of the shared/weak pointer API (empty objects, static initialisers,
 *         zero-size allocation, swap, unique, lock after death, ...).
 * Part 2: long random single-thread histories checked against a model after
 *         every operation (C05, the sequential base of C06).
 * Part 3: real threads. Each thread only ever touches its OWN shared and weak
 *         pointer objects; all of them refer to common allocations. Random
 *         scripts of share / lock / reset / weak_from / weak_reset / swap /
 *         unique / get are run concurrently in thousands of short rounds with
 *         2..8 threads, 1..16 allocations and every kind of initial
 *         reference configuration (owner kept by a bystander, no owner at
 *         all, only weak references, ...). Then free-running threads that
 *         pass the last owner around until the memory dies, and threads
 *         locking 150 bystander-owned allocations at once.
 *
 * What is checked, always through the clear callback and the API only:
 *  - the clear function runs exactly once per allocation, and only at a
 *    moment when the number of owners known to the test is zero (the test
 *    counts an owner after it acquired and discounts it before it releases,
 *    so its count never exceeds the real one);
 *  - whenever a thread holds an owner, the memory is the right one, is
 *    intact and has not been cleared, up to the moment the owner is reset;
 *  - a lock must succeed while some other owner certainly exists, must fail
 *    on an empty weak pointer and must fail once the memory is dead;
 *  - unique() is true on empty objects and false while the calling thread
 *    knows of another reference;
 *  - after the last owner is gone the clear function has run (exactly once);
 *  - nothing hangs (alarm watchdog).
 * The program is also clean under -fsanitize=thread / address when the
 * library sources are compiled in, which is how it was developed.
 */
#define _POSIX_C_SOURCE 200809L

#include "cstl/memory.h"

#include <pthread.h>
#include <sched.h>
#include <stdatomic.h>
#include <stdint.h>
#include <stdio.h>
#include <stdlib.h>
#include <string.h>
#include <unistd.h>

#define LIVE 0x4c495645u
#define DEAD 0x44454144u

#define FAIL(...)                                                       \
    do {                                                                \
        fprintf(stderr, "FAIL %s:%d: ", __FILE__, __LINE__);            \
        fprintf(stderr, __VA_ARGS__);                                   \
        fprintf(stderr, "\n");                                          \
        exit(1);                                                        \
    } while (0)
#define CHECK(C)                                                        \
    do {                                                                \
        if (!(C)) {                                                     \
            FAIL("check failed: %s", #C);                               \
        }                                                               \
    } while (0)

/* the object placed at the start of every shared allocation */
struct obj
{
    uint32_t magic;
    uint32_t id;
    uint32_t len; /* number of fill bytes that follow */
    unsigned char fill[1];
};

struct track
{
    atomic_int cleared;
    atomic_int owners;
};

#define MAXOBJ 400000
static struct track * tracks;
static atomic_int next_id;

static unsigned char fill_byte(const uint32_t id, const uint32_t i)
{
    return (unsigned char)(id * 31u + i * 7u + 1u);
}

static void obj_check_live(const struct obj * const o, const uint32_t id)
{
    uint32_t i;
    if (o->magic != LIVE) {
        FAIL("object %u: memory not live (magic %08x)", id, o->magic);
    }
    if (o->id != id) {
        FAIL("object %u: wrong memory (id %u)", id, o->id);
    }
    for (i = 0; i < o->len; i++) {
        if (o->fill[i] != fill_byte(id, i)) {
            FAIL("object %u: payload damaged at %u", id, i);
        }
    }
    if (atomic_load(&tracks[id].cleared) != 0) {
        FAIL("object %u: cleared while an owner exists", id);
    }
}

static void obj_clear(void * const mem, void * const priv)
{
    struct obj * const o = mem;
    uint32_t i, id;

    (void)priv;
    if (o == NULL) {
        FAIL("clear function called with NULL");
    }
    if (o->magic != LIVE) {
        FAIL("clear function called on non-live memory (magic %08x)",
             o->magic);
    }
    id = o->id;
    if (id >= MAXOBJ) {
        FAIL("clear function: bad id %u", id);
    }
    for (i = 0; i < o->len; i++) {
        if (o->fill[i] != fill_byte(id, i)) {
            FAIL("object %u: payload damaged at %u at clear time", id, i);
        }
    }
    if (atomic_load(&tracks[id].owners) != 0) {
        FAIL("object %u: cleared while %d owners remain", id,
             atomic_load(&tracks[id].owners));
    }
    if (atomic_fetch_add(&tracks[id].cleared, 1) != 0) {
        FAIL("object %u: cleared more than once", id);
    }
    o->magic = DEAD;
    memset(o->fill, 0xdd, o->len);
}

/* allocate a tracked object into sp; returns its id, or -1 */
static int obj_alloc(cstl_shared_ptr_t * const sp, const uint32_t len)
{
    struct obj * o;
    uint32_t i;
    const int id = atomic_fetch_add(&next_id, 1);

    if (id >= MAXOBJ) {
        FAIL("too many objects");
    }
    cstl_shared_ptr_alloc(sp, sizeof(*o) + len, obj_clear);
    o = cstl_shared_ptr_get(sp);
    if (o == NULL) {
        return -1;
    }
    o->id = id;
    o->len = len;
    for (i = 0; i < len; i++) {
        o->fill[i] = fill_byte(id, i);
    }
    o->magic = LIVE;
    atomic_store(&tracks[id].owners, 1);
    return id;
}

static int cleared(const int id)
{
    return atomic_load(&tracks[id].cleared);
}
static void own_inc(const int id)
{
    atomic_fetch_add(&tracks[id].owners, 1);
}
static void own_dec(const int id)
{
    if (atomic_fetch_sub(&tracks[id].owners, 1) <= 0) {
        FAIL("test bug: owner count of %d went negative", id);
    }
}

static uint64_t rnd(uint64_t * const s)
{
    uint64_t x = *s;
    x ^= x << 13;
    x ^= x >> 7;
    x ^= x << 17;
    *s = x;
    return x * 0x2545f4914f6cdd1dull;
}
static unsigned rndn(uint64_t * const s, const unsigned n)
{
    return (unsigned)((rnd(s) >> 33) % n);
}

/* ------------------------------------------------------------------ */
/* Part 1                                                             */
/* ------------------------------------------------------------------ */

static cstl_shared_ptr_t g_sp = CSTL_SHARED_PTR_INITIALIZER(g_sp);
static cstl_weak_ptr_t g_wp = CSTL_WEAK_PTR_INITIALIZER(g_wp);

static int plain_cleared;
static void plain_clear(void * const mem, void * const priv)
{
    (void)priv;
    CHECK(mem != NULL);
    CHECK(*(unsigned char *)mem == 0x5a);
    plain_cleared++;
}

static void part1(void)
{
    DECLARE_CSTL_SHARED_PTR(a);
    DECLARE_CSTL_SHARED_PTR(b);
    DECLARE_CSTL_WEAK_PTR(w);
    cstl_shared_ptr_t c;
    cstl_weak_ptr_t v;
    int ia, ib;
    const void * pa, * pb;
    static const size_t sizes[] = { 1, 2, 7, 8, 15, 16, 17, 63, 64, 65, 255,
                                    4096, 65537, 1 << 20 };
    unsigned i;

    cstl_shared_ptr_init(&c);
    cstl_weak_ptr_init(&v);

    /* empty objects, however they were initialised */
    CHECK(cstl_shared_ptr_get(&a) == NULL);
    CHECK(cstl_shared_ptr_get_const(&c) == NULL);
    CHECK(cstl_shared_ptr_get(&g_sp) == NULL);
    CHECK(cstl_shared_ptr_unique(&a));
    CHECK(cstl_shared_ptr_unique(&c));
    CHECK(cstl_shared_ptr_unique(&g_sp));
    cstl_shared_ptr_reset(&a);
    cstl_shared_ptr_reset(&c);
    cstl_shared_ptr_reset(&g_sp);
    cstl_weak_ptr_reset(&w);
    cstl_weak_ptr_reset(&v);
    cstl_weak_ptr_reset(&g_wp);
    cstl_shared_ptr_share(&a, &b);
    CHECK(cstl_shared_ptr_get(&b) == NULL);
    cstl_weak_ptr_from(&w, &a);
    cstl_weak_ptr_lock(&w, &b);
    CHECK(cstl_shared_ptr_get(&b) == NULL);
    cstl_weak_ptr_lock(&g_wp, &c);
    CHECK(cstl_shared_ptr_get(&c) == NULL);
    cstl_shared_ptr_swap(&a, &b);
    cstl_weak_ptr_swap(&w, &v);
    CHECK(cstl_shared_ptr_get(&a) == NULL && cstl_shared_ptr_get(&b) == NULL);

    /* zero size: nothing is allocated, and what was there is released */
    cstl_shared_ptr_alloc(&a, 0, obj_clear);
    CHECK(cstl_shared_ptr_get(&a) == NULL);
    ia = obj_alloc(&a, 10);
    CHECK(ia >= 0);
    own_dec(ia);
    cstl_shared_ptr_alloc(&a, 0, obj_clear);
    CHECK(cstl_shared_ptr_get(&a) == NULL);
    CHECK(cleared(ia) == 1);

    /* every byte of allocations of many sizes is usable; NULL clear is ok */
    for (i = 0; i < sizeof(sizes) / sizeof(sizes[0]); i++) {
        unsigned char * p;
        size_t j;
        cstl_shared_ptr_alloc(&a, sizes[i], NULL);
        p = cstl_shared_ptr_get(&a);
        CHECK(p != NULL);
        memset(p, 0x5a, sizes[i]);
        cstl_shared_ptr_share(&a, &b);
        CHECK(cstl_shared_ptr_get(&b) == p);
        cstl_weak_ptr_from(&w, &b);
        cstl_shared_ptr_reset(&a);
        for (j = 0; j < sizes[i]; j++) {
            CHECK(p[j] == 0x5a);
        }
        cstl_weak_ptr_lock(&w, &a);
        CHECK(cstl_shared_ptr_get(&a) == p);
        cstl_shared_ptr_reset(&b);
        cstl_shared_ptr_reset(&a);
        cstl_weak_ptr_lock(&w, &a);
        CHECK(cstl_shared_ptr_get(&a) == NULL);
        cstl_weak_ptr_reset(&w);
    }

    /* the clear function is called once, by the last owner only */
    plain_cleared = 0;
    cstl_shared_ptr_alloc(&a, 33, plain_clear);
    memset(cstl_shared_ptr_get(&a), 0x5a, 33);
    cstl_shared_ptr_share(&a, &b);
    cstl_shared_ptr_share(&b, &c);
    cstl_shared_ptr_reset(&a);
    CHECK(plain_cleared == 0);
    cstl_shared_ptr_reset(&b);
    CHECK(plain_cleared == 0);
    cstl_shared_ptr_reset(&c);
    CHECK(plain_cleared == 1);
    cstl_shared_ptr_reset(&c);
    CHECK(plain_cleared == 1);

    /* unique(): weak and shared references both count */
    ia = obj_alloc(&a, 5);
    pa = cstl_shared_ptr_get_const(&a);
    CHECK(cstl_shared_ptr_unique(&a));
    cstl_weak_ptr_from(&w, &a);
    CHECK(!cstl_shared_ptr_unique(&a));
    cstl_weak_ptr_from(&v, &a);
    cstl_weak_ptr_reset(&w);
    CHECK(!cstl_shared_ptr_unique(&a));
    cstl_weak_ptr_reset(&v);
    CHECK(cstl_shared_ptr_unique(&a));
    cstl_shared_ptr_share(&a, &b);
    own_inc(ia);
    CHECK(!cstl_shared_ptr_unique(&a) && !cstl_shared_ptr_unique(&b));
    CHECK(cstl_shared_ptr_get(&b) == pa);
    /* sharing into an object that already shares the same memory */
    own_dec(ia);
    cstl_shared_ptr_share(&a, &b);
    own_inc(ia);
    CHECK(cstl_shared_ptr_get(&b) == pa && cleared(ia) == 0);
    own_dec(ia);
    cstl_shared_ptr_reset(&b);
    CHECK(cstl_shared_ptr_unique(&a));
    obj_check_live(pa, ia);

    /* swap */
    ib = obj_alloc(&b, 100);
    pb = cstl_shared_ptr_get_const(&b);
    CHECK(pa != pb);
    cstl_shared_ptr_swap(&a, &b);
    CHECK(cstl_shared_ptr_get(&a) == pb && cstl_shared_ptr_get(&b) == pa);
    cstl_shared_ptr_swap(&a, &c);
    CHECK(cstl_shared_ptr_get(&a) == NULL && cstl_shared_ptr_get(&c) == pb);
    cstl_shared_ptr_swap(&a, &c);
    cstl_shared_ptr_swap(&b, &a);
    CHECK(cstl_shared_ptr_get(&a) == pa && cstl_shared_ptr_get(&b) == pb);
    cstl_weak_ptr_from(&w, &a);
    cstl_weak_ptr_from(&v, &b);
    cstl_weak_ptr_swap(&w, &v);
    cstl_weak_ptr_lock(&w, &c);
    own_inc(ib);
    CHECK(cstl_shared_ptr_get(&c) == pb);
    /* a lock into an object owning other memory releases that memory */
    own_dec(ib);
    cstl_weak_ptr_lock(&v, &c);
    own_inc(ia);
    CHECK(cstl_shared_ptr_get(&c) == pa);
    own_dec(ib);
    cstl_shared_ptr_reset(&b);
    CHECK(cleared(ib) == 1 && cleared(ia) == 0);
    /* w still refers to the dead ib */
    own_dec(ia);
    cstl_weak_ptr_lock(&w, &c);
    CHECK(cstl_shared_ptr_get(&c) == NULL);
    CHECK(cleared(ia) == 0);
    /* a new allocation over the last owner */
    own_dec(ia);
    ib = obj_alloc(&a, 3);
    CHECK(cleared(ia) == 1);
    cstl_weak_ptr_lock(&v, &c);
    CHECK(cstl_shared_ptr_get(&c) == NULL);
    cstl_weak_ptr_from(&v, &a);
    cstl_weak_ptr_from(&w, &c); /* from an empty shared pointer: empty */
    cstl_weak_ptr_lock(&w, &b);
    CHECK(cstl_shared_ptr_get(&b) == NULL);
    /* the global, statically initialised objects work like any other */
    cstl_weak_ptr_from(&g_wp, &a);
    cstl_weak_ptr_lock(&g_wp, &g_sp);
    own_inc(ib);
    CHECK(cstl_shared_ptr_get(&g_sp) == cstl_shared_ptr_get(&a));
    own_dec(ib);
    cstl_shared_ptr_reset(&a);
    CHECK(cleared(ib) == 0);
    obj_check_live(cstl_shared_ptr_get(&g_sp), ib);
    CHECK(!cstl_shared_ptr_unique(&g_sp));
    cstl_weak_ptr_reset(&v);
    CHECK(!cstl_shared_ptr_unique(&g_sp));
    cstl_weak_ptr_reset(&g_wp);
    CHECK(cstl_shared_ptr_unique(&g_sp));
    own_dec(ib);
    cstl_shared_ptr_reset(&g_sp);
    CHECK(cleared(ib) == 1);
    CHECK(cstl_shared_ptr_get(&g_sp) == NULL);

    /* weak pointers outliving the memory by a long way, in any order */
    {
        cstl_weak_ptr_t ws[17];
        ia = obj_alloc(&a, 9);
        for (i = 0; i < 17; i++) {
            cstl_weak_ptr_init(&ws[i]);
            cstl_weak_ptr_from(&ws[i], &a);
        }
        own_dec(ia);
        cstl_shared_ptr_reset(&a);
        CHECK(cleared(ia) == 1);
        for (i = 0; i < 17; i++) {
            const unsigned k = (i * 5) % 17;
            cstl_weak_ptr_lock(&ws[k], &a);
            CHECK(cstl_shared_ptr_get(&a) == NULL);
            cstl_weak_ptr_reset(&ws[k]);
            cstl_weak_ptr_reset(&ws[k]);
        }
        CHECK(cleared(ia) == 1);
    }
}

/* ------------------------------------------------------------------ */
/* Part 2: random sequential histories against a model                */
/* ------------------------------------------------------------------ */

#define P2_NS 7
#define P2_NW 6

static cstl_shared_ptr_t p2_gs0 = CSTL_SHARED_PTR_INITIALIZER(p2_gs0);
static cstl_weak_ptr_t p2_gw0 = CSTL_WEAK_PTR_INITIALIZER(p2_gw0);

static void part2(const uint64_t seed, const int nops)
{
    cstl_shared_ptr_t ls[P2_NS - 1];
    cstl_weak_ptr_t lw[P2_NW - 1];
    cstl_shared_ptr_t * s[P2_NS];
    cstl_weak_ptr_t * w[P2_NW];
    int sm[P2_NS], wm[P2_NW];
    const void * addr[P2_NS + P2_NW + 1];
    int ids[P2_NS + P2_NW + 1], nids = 0;
    uint64_t r = seed;
    int i, j, k, n;

    s[0] = &p2_gs0;
    w[0] = &p2_gw0;
    for (i = 1; i < P2_NS; i++) {
        s[i] = &ls[i - 1];
        cstl_shared_ptr_init(s[i]);
    }
    for (i = 1; i < P2_NW; i++) {
        w[i] = &lw[i - 1];
        cstl_weak_ptr_init(w[i]);
    }
    for (i = 0; i < P2_NS; i++) {
        sm[i] = -1;
    }
    for (i = 0; i < P2_NW; i++) {
        wm[i] = -1;
    }

    for (n = 0; n <= nops; n++) {
        if (n < nops) {
            const unsigned op = rndn(&r, 16);
            i = rndn(&r, P2_NS);
            j = rndn(&r, P2_NS);
            k = rndn(&r, P2_NW);
            switch (op) {
            case 0: case 1:
                if (sm[i] >= 0) {
                    own_dec(sm[i]);
                }
                sm[i] = obj_alloc(s[i], rndn(&r, 4) ? rndn(&r, 40)
                                  : rndn(&r, 3000));
                CHECK(sm[i] >= 0);
                break;
            case 2: case 3: case 4:
                if (i == j) {
                    break;
                }
                if (sm[j] >= 0) {
                    own_dec(sm[j]);
                }
                cstl_shared_ptr_share(s[i], s[j]);
                sm[j] = sm[i];
                if (sm[j] >= 0) {
                    own_inc(sm[j]);
                }
                break;
            case 5: case 6: case 7:
                if (sm[i] >= 0) {
                    own_dec(sm[i]);
                }
                cstl_shared_ptr_reset(s[i]);
                sm[i] = -1;
                break;
            case 8: case 9:
                cstl_weak_ptr_from(w[k], s[i]);
                wm[k] = sm[i];
                break;
            case 10: case 11: case 12:
                if (sm[i] >= 0) {
                    own_dec(sm[i]);
                }
                cstl_weak_ptr_lock(w[k], s[i]);
                sm[i] = -1;
                if (wm[k] >= 0) {
                    /* live iff some other shared slot still owns it */
                    int m;
                    for (m = 0; m < P2_NS; m++) {
                        if (m != i && sm[m] == wm[k]) {
                            sm[i] = wm[k];
                            own_inc(sm[i]);
                            break;
                        }
                    }
                }
                break;
            case 13:
                cstl_weak_ptr_reset(w[k]);
                wm[k] = -1;
                break;
            case 14:
                cstl_shared_ptr_swap(s[i], s[j]);
                { const int t = sm[i]; sm[i] = sm[j]; sm[j] = t; }
                break;
            case 15:
                j = rndn(&r, P2_NW);
                cstl_weak_ptr_swap(w[k], w[j]);
                { const int t = wm[k]; wm[k] = wm[j]; wm[j] = t; }
                break;
            }
        } else {
            /* the end: drop everything, weak pointers first or last */
            for (i = 0; i < P2_NW; i++) {
                if ((seed >> i) & 1) {
                    cstl_weak_ptr_reset(w[i]);
                    wm[i] = -1;
                }
            }
            for (i = 0; i < P2_NS; i++) {
                if (sm[i] >= 0) {
                    own_dec(sm[i]);
                }
                cstl_shared_ptr_reset(s[i]);
                sm[i] = -1;
            }
        }

        /* verify everything against the model */
        for (i = 0; i < nids; i++) {
            int owners = 0;
            for (j = 0; j < P2_NS; j++) {
                owners += (sm[j] == ids[i]);
            }
            CHECK(atomic_load(&tracks[ids[i]].owners) == owners);
            CHECK(cleared(ids[i]) == (owners == 0));
        }
        for (i = 0; i < P2_NS; i++) {
            const void * const p = cstl_shared_ptr_get_const(s[i]);
            if (sm[i] < 0) {
                CHECK(p == NULL);
                CHECK(cstl_shared_ptr_unique(s[i]));
            } else {
                int refs = 0, known = 0;
                CHECK(p != NULL);
                obj_check_live(p, sm[i]);
                for (j = 0; j < P2_NS; j++) {
                    refs += (sm[j] == sm[i]);
                    if (sm[j] == sm[i]) {
                        CHECK(cstl_shared_ptr_get_const(s[j]) == p);
                    }
                }
                for (j = 0; j < P2_NW; j++) {
                    refs += (wm[j] == sm[i]);
                }
                CHECK(cstl_shared_ptr_unique(s[i]) == (refs == 1));
                for (j = 0; j < nids; j++) {
                    if (ids[j] == sm[i]) {
                        CHECK(addr[j] == p);
                        known = 1;
                    } else if (!cleared(ids[j])) {
                        CHECK(addr[j] != p);
                    }
                }
                if (!known) {
                    /* forget ids nobody refers to any more */
                    int m = 0;
                    for (j = 0; j < nids; j++) {
                        int used = 0, q;
                        for (q = 0; q < P2_NS; q++) {
                            used |= (sm[q] == ids[j]);
                        }
                        for (q = 0; q < P2_NW; q++) {
                            used |= (wm[q] == ids[j]);
                        }
                        if (used) {
                            ids[m] = ids[j];
                            addr[m] = addr[j];
                            m++;
                        } else {
                            CHECK(cleared(ids[j]) == 1);
                        }
                    }
                    nids = m;
                    CHECK(nids < P2_NS + P2_NW + 1);
                    ids[nids] = sm[i];
                    addr[nids] = p;
                    nids++;
                }
            }
        }
    }

    /* locks through the surviving weak pointers all fail */
    for (i = 0; i < P2_NW; i++) {
        cstl_weak_ptr_lock(w[i], s[i % P2_NS]);
        CHECK(cstl_shared_ptr_get(s[i % P2_NS]) == NULL);
        if (wm[i] >= 0) {
            CHECK(cleared(wm[i]) == 1);
        }
        cstl_weak_ptr_reset(w[i]);
    }
    for (i = 0; i < nids; i++) {
        CHECK(cleared(ids[i]) == 1);
    }
}

/* ------------------------------------------------------------------ */
/* Part 3: threads                                                    */
/* ------------------------------------------------------------------ */

#define MAXT 8
#define MAXM 16
#define MAXS 12
#define MAXW 8

struct tctx
{
    int tid;
    pthread_t thr;
    uint64_t rng;
    cstl_shared_ptr_t s[MAXS];
    cstl_weak_ptr_t w[MAXW];
    int sm[MAXS], wm[MAXW]; /* object index within the round, or -1 */
    unsigned long locks_ok, locks_failed;
};

static struct
{
    int stop;
    int nobj, ns, nw, oplen;
    int id[MAXM];
    const void * addr[MAXM];
    int bystander[MAXM]; /* the main thread keeps an owner all round */
} cur;

static pthread_barrier_t bar;
static struct tctx ctx[MAXT];

static void t_verify(const struct tctx * const c, const int i)
{
    const void * const p = cstl_shared_ptr_get_const(&c->s[i]);
    if (c->sm[i] < 0) {
        CHECK(p == NULL);
    } else {
        CHECK(p != NULL);
        CHECK(p == cur.addr[c->sm[i]]);
        obj_check_live(p, cur.id[c->sm[i]]);
    }
}

static void t_release_model(struct tctx * const c, const int i)
{
    if (c->sm[i] >= 0) {
        /* make sure it stayed live right up to the release */
        t_verify(c, i);
        own_dec(cur.id[c->sm[i]]);
        c->sm[i] = -1;
    }
}

static void t_script(struct tctx * const c)
{
    int n;
    const int ns = cur.ns, nw = cur.nw;

    for (n = 0; n < cur.oplen; n++) {
        const unsigned op = rndn(&c->rng, 20);
        const int a = rndn(&c->rng, ns);
        const int b = rndn(&c->rng, ns);
        const int k = rndn(&c->rng, nw);
        int m, j;

        if (rndn(&c->rng, 8) == 0) {
            sched_yield();
        }

        switch (op) {
        case 0: case 1: case 2: case 3:
            if (a == b) {
                break;
            }
            t_release_model(c, b);
            cstl_shared_ptr_share(&c->s[a], &c->s[b]);
            c->sm[b] = c->sm[a];
            if (c->sm[b] >= 0) {
                own_inc(cur.id[c->sm[b]]);
            }
            t_verify(c, b);
            CHECK(cstl_shared_ptr_get(&c->s[a])
                  == cstl_shared_ptr_get(&c->s[b]));
            break;
        case 4: case 5: case 6: case 7: case 8: case 9:
            m = c->wm[k];
            {
                int must = 0;
                const void * p;
                if (m >= 0) {
                    must = cur.bystander[m];
                    for (j = 0; j < ns; j++) {
                        must |= (j != a && c->sm[j] == m);
                    }
                }
                t_release_model(c, a);
                cstl_weak_ptr_lock(&c->w[k], &c->s[a]);
                p = cstl_shared_ptr_get_const(&c->s[a]);
                if (m < 0) {
                    CHECK(p == NULL);
                } else if (p != NULL) {
                    /* got an owner: it is live memory, the right one */
                    c->sm[a] = m;
                    own_inc(cur.id[m]);
                    t_verify(c, a);
                    c->locks_ok++;
                } else {
                    if (must) {
                        FAIL("lock failed while another owner exists");
                    }
                    c->locks_failed++;
                }
            }
            break;
        case 10: case 11: case 12:
            t_release_model(c, a);
            cstl_shared_ptr_reset(&c->s[a]);
            CHECK(cstl_shared_ptr_get(&c->s[a]) == NULL);
            break;
        case 13: case 14:
            cstl_weak_ptr_from(&c->w[k], &c->s[a]);
            c->wm[k] = c->sm[a];
            break;
        case 15:
            if (rndn(&c->rng, 3) == 0) {
                cstl_weak_ptr_reset(&c->w[k]);
                c->wm[k] = -1;
            }
            break;
        case 16:
            m = c->sm[a];
            if (m < 0) {
                CHECK(cstl_shared_ptr_unique(&c->s[a]));
            } else {
                int other = cur.bystander[m];
                for (j = 0; j < ns; j++) {
                    other |= (j != a && c->sm[j] == m);
                }
                for (j = 0; j < nw; j++) {
                    other |= (c->wm[j] == m);
                }
                if (other) {
                    CHECK(!cstl_shared_ptr_unique(&c->s[a]));
                } else {
                    (void)cstl_shared_ptr_unique(&c->s[a]);
                }
            }
            break;
        case 17:
            for (j = 0; j < ns; j++) {
                t_verify(c, j);
            }
            break;
        case 18:
            cstl_shared_ptr_swap(&c->s[a], &c->s[b]);
            { const int t = c->sm[a]; c->sm[a] = c->sm[b]; c->sm[b] = t; }
            t_verify(c, a);
            t_verify(c, b);
            break;
        case 19:
            j = rndn(&c->rng, nw);
            cstl_weak_ptr_swap(&c->w[k], &c->w[j]);
            { const int t = c->wm[k]; c->wm[k] = c->wm[j]; c->wm[j] = t; }
            break;
        }
    }
}

static void * t_main(void * const arg)
{
    struct tctx * const c = arg;
    int i;

    for (;;) {
        pthread_barrier_wait(&bar); /* start */
        if (cur.stop) {
            break;
        }
        t_script(c);
        pthread_barrier_wait(&bar); /* A: all scripts done */
        /* whatever is owned now has stayed live */
        for (i = 0; i < cur.ns; i++) {
            t_verify(c, i);
        }
        for (i = 0; i < cur.ns; i++) {
            t_release_model(c, i);
            cstl_shared_ptr_reset(&c->s[i]);
        }
        pthread_barrier_wait(&bar); /* B: threads own nothing */
        pthread_barrier_wait(&bar); /* C: nobody owns anything */
        for (i = 0; i < cur.nw; i++) {
            cstl_weak_ptr_lock(&c->w[i], &c->s[i % cur.ns]);
            CHECK(cstl_shared_ptr_get(&c->s[i % cur.ns]) == NULL);
            if (c->wm[i] >= 0) {
                CHECK(cleared(cur.id[c->wm[i]]) == 1);
            }
        }
        for (i = 0; i < cur.nw; i++) {
            /* in varying order */
            const int k = (i * 3 + c->tid) % cur.nw;
            cstl_weak_ptr_reset(&c->w[k]);
            c->wm[k] = -1;
        }
        pthread_barrier_wait(&bar); /* D: round over */
    }
    return NULL;
}

static void part3(const int nthreads, const int rounds, const int nobj,
                  const int ns, const int nw, const int maxops,
                  const uint64_t seed)
{
    cstl_shared_ptr_t msp[MAXM];
    uint64_t r = seed;
    int t, m, i, round;
    unsigned long ok = 0, failed = 0;

    CHECK(nthreads <= MAXT && nobj <= MAXM && ns <= MAXS && nw <= MAXW);
    CHECK((nw % 3) != 0);
    pthread_barrier_init(&bar, NULL, nthreads + 1);
    cur.stop = 0;
    for (m = 0; m < MAXM; m++) {
        cstl_shared_ptr_init(&msp[m]);
    }
    for (t = 0; t < nthreads; t++) {
        struct tctx * const c = &ctx[t];
        memset(c, 0, sizeof(*c));
        c->tid = t;
        c->rng = seed * 977 + t * 7919 + 1;
        for (i = 0; i < MAXS; i++) {
            cstl_shared_ptr_init(&c->s[i]);
            c->sm[i] = -1;
        }
        for (i = 0; i < MAXW; i++) {
            cstl_weak_ptr_init(&c->w[i]);
            c->wm[i] = -1;
        }
        if (pthread_create(&c->thr, NULL, t_main, c) != 0) {
            FAIL("pthread_create");
        }
    }

    for (round = 0; round < rounds; round++) {
        const unsigned style = rndn(&r, 8);

        cur.nobj = nobj;
        cur.ns = ns;
        cur.nw = nw;
        cur.oplen = 1 + rndn(&r, maxops);

        for (m = 0; m < nobj; m++) {
            cur.id[m] = obj_alloc(&msp[m], rndn(&r, 64));
            CHECK(cur.id[m] >= 0);
            cur.addr[m] = cstl_shared_ptr_get_const(&msp[m]);
            /*
             * style 0: nobody but the weak pointers; the memory is
             *          dead before the threads start
             * style 1: the main thread keeps an owner throughout
             * other:   the threads get the only owners
             */
            cur.bystander[m] = (style == 1 || rndn(&r, 6) == 0);
            for (t = 0; t < nthreads; t++) {
                struct tctx * const c = &ctx[t];
                const unsigned what = (style == 0) ? 2 : rndn(&r, 6);
                /* 0: nothing, 1: owner, 2: weak, 3..5: both */
                if (what == 1 || what >= 3) {
                    i = rndn(&r, ns);
                    if (c->sm[i] < 0) {
                        cstl_shared_ptr_share(&msp[m], &c->s[i]);
                        c->sm[i] = m;
                        own_inc(cur.id[m]);
                    }
                }
                if (what >= 2) {
                    i = rndn(&r, nw);
                    if (c->wm[i] < 0) {
                        cstl_weak_ptr_from(&c->w[i], &msp[m]);
                        c->wm[i] = m;
                    }
                }
            }
            if (!cur.bystander[m]) {
                own_dec(cur.id[m]);
                cstl_shared_ptr_reset(&msp[m]);
            }
        }

        pthread_barrier_wait(&bar); /* start */
        pthread_barrier_wait(&bar); /* A */
        for (m = 0; m < nobj; m++) {
            if (cur.bystander[m]) {
                CHECK(cstl_shared_ptr_get(&msp[m]) == cur.addr[m]);
                obj_check_live(cur.addr[m], cur.id[m]);
            }
        }
        pthread_barrier_wait(&bar); /* B */
        for (m = 0; m < nobj; m++) {
            if (cur.bystander[m]) {
                obj_check_live(cur.addr[m], cur.id[m]);
                own_dec(cur.id[m]);
                cstl_shared_ptr_reset(&msp[m]);
            }
            if (cleared(cur.id[m]) != 1) {
                FAIL("object %d not cleared after its last owner went",
                     cur.id[m]);
            }
        }
        pthread_barrier_wait(&bar); /* C */
        pthread_barrier_wait(&bar); /* D */
        for (m = 0; m < nobj; m++) {
            CHECK(cleared(cur.id[m]) == 1);
            CHECK(atomic_load(&tracks[cur.id[m]].owners) == 0);
        }
    }

    cur.stop = 1;
    pthread_barrier_wait(&bar);
    for (t = 0; t < nthreads; t++) {
        pthread_join(ctx[t].thr, NULL);
        ok += ctx[t].locks_ok;
        failed += ctx[t].locks_failed;
    }
    pthread_barrier_destroy(&bar);
    printf("threads %d objects %2d rounds %5d: locks %lu ok, %lu refused\n",
           nthreads, nobj, rounds, ok, failed);
}

/*
 * Part 3b: no barriers inside, so that the threads really overlap. One
 * allocation per round; every thread starts with a weak reference and, some
 * of them, with an owner. Each thread hammers lock / share / reset on its own
 * objects until it notices that the memory is gone.
 */
struct hctx
{
    pthread_t thr;
    int tid;
    uint64_t rng;
    cstl_shared_ptr_t s0, s1;
    cstl_weak_ptr_t w0, w1;
    int id;
    const void * addr;
    int start_owner;
    int iters;
    unsigned long got;
};

static void * h_main(void * const arg)
{
    struct hctx * const h = arg;
    int have0 = h->start_owner, n;

    for (n = 0; n < h->iters; n++) {
        const void * p;

        /* second owner from the weak pointer, if the memory is live */
        cstl_weak_ptr_lock(&h->w0, &h->s1);
        p = cstl_shared_ptr_get_const(&h->s1);
        if (p == NULL) {
            if (have0) {
                FAIL("lock failed while this thread owns the memory");
            }
            /* dead for good: every later lock fails as well */
            cstl_weak_ptr_from(&h->w1, &h->s1);
            cstl_weak_ptr_lock(&h->w1, &h->s0);
            CHECK(cstl_shared_ptr_get(&h->s0) == NULL);
            cstl_weak_ptr_lock(&h->w0, &h->s1);
            CHECK(cstl_shared_ptr_get(&h->s1) == NULL);
            break;
        }
        own_inc(h->id);
        h->got++;
        CHECK(p == h->addr);
        obj_check_live(p, h->id);
        CHECK(!cstl_shared_ptr_unique(&h->s1));

        if (have0) {
            /* drop the older owner; the newer one keeps the memory */
            obj_check_live(cstl_shared_ptr_get(&h->s0), h->id);
            own_dec(h->id);
            cstl_shared_ptr_reset(&h->s0);
            have0 = 0;
        }
        if (rndn(&h->rng, 4) == 0) {
            sched_yield();
        }
        obj_check_live(p, h->id);

        switch (rndn(&h->rng, 4)) {
        case 0:
            /* hand over to s0 by sharing */
            cstl_shared_ptr_share(&h->s1, &h->s0);
            own_inc(h->id);
            have0 = 1;
            break;
        case 1:
            /* hand over to s0 by swapping */
            cstl_shared_ptr_swap(&h->s0, &h->s1);
            CHECK(cstl_shared_ptr_get(&h->s1) == NULL);
            CHECK(cstl_shared_ptr_get(&h->s0) == p);
            obj_check_live(p, h->id);
            have0 = 1;
            continue; /* s1 is empty, nothing to release */
        case 2:
            /* a second weak pointer made from the new owner */
            cstl_weak_ptr_from(&h->w1, &h->s1);
            cstl_weak_ptr_swap(&h->w0, &h->w1);
            cstl_weak_ptr_reset(&h->w1);
            break;
        default:
            break;
        }
        obj_check_live(p, h->id);
        own_dec(h->id);
        cstl_shared_ptr_reset(&h->s1);
        /*
         * this thread may just have dropped the last owner (if have0 is
         * 0); the next lock tells
         */
        if (n > h->iters / 2 && have0 && rndn(&h->rng, 8) == 0) {
            obj_check_live(cstl_shared_ptr_get(&h->s0), h->id);
            own_dec(h->id);
            cstl_shared_ptr_reset(&h->s0);
            have0 = 0;
        }
    }

    if (have0) {
        obj_check_live(cstl_shared_ptr_get(&h->s0), h->id);
        own_dec(h->id);
    }
    cstl_shared_ptr_reset(&h->s0);
    cstl_shared_ptr_reset(&h->s1);
    if (h->tid & 1) {
        cstl_weak_ptr_reset(&h->w0);
        cstl_weak_ptr_reset(&h->w1);
    }
    return NULL;
}

static void part3b(const int nthreads, const int rounds, const int iters,
                   const uint64_t seed)
{
    static struct hctx hc[MAXT];
    DECLARE_CSTL_SHARED_PTR(sp);
    uint64_t r = seed;
    int round, t;
    unsigned long got = 0;

    for (round = 0; round < rounds; round++) {
        const int id = obj_alloc(&sp, rndn(&r, 100));
        const void * const addr = cstl_shared_ptr_get_const(&sp);
        CHECK(id >= 0);
        for (t = 0; t < nthreads; t++) {
            struct hctx * const h = &hc[t];
            h->tid = t;
            h->rng = (r += 0x9e3779b97f4a7c15ull) | 1;
            h->id = id;
            h->addr = addr;
            h->iters = iters;
            h->got = 0;
            cstl_shared_ptr_init(&h->s0);
            cstl_shared_ptr_init(&h->s1);
            cstl_weak_ptr_init(&h->w0);
            cstl_weak_ptr_init(&h->w1);
            cstl_weak_ptr_from(&h->w0, &sp);
            h->start_owner = (t == 0) || rndn(&r, 2);
            if (h->start_owner) {
                cstl_shared_ptr_share(&sp, &h->s0);
                own_inc(id);
            }
        }
        own_dec(id);
        cstl_shared_ptr_reset(&sp);
        CHECK(cleared(id) == 0);
        for (t = 0; t < nthreads; t++) {
            if (pthread_create(&hc[t].thr, NULL, h_main, &hc[t]) != 0) {
                FAIL("pthread_create");
            }
        }
        for (t = 0; t < nthreads; t++) {
            pthread_join(hc[t].thr, NULL);
            got += hc[t].got;
        }
        if (cleared(id) != 1) {
            FAIL("object %d: not cleared once all owners are gone", id);
        }
        CHECK(atomic_load(&tracks[id].owners) == 0);
        for (t = 0; t < nthreads; t++) {
            /* the even threads left their weak pointers behind */
            cstl_weak_ptr_lock(&hc[t].w0, &sp);
            CHECK(cstl_shared_ptr_get(&sp) == NULL);
            cstl_weak_ptr_reset(&hc[t].w0);
            cstl_weak_ptr_reset(&hc[t].w1);
        }
        CHECK(cleared(id) == 1);
    }
    printf("free running: threads %d rounds %4d: %lu owners from locks\n",
           nthreads, rounds, got);
}

/*
 * Part 4: many allocations at once. The main thread owns all of them, so
 * every lock must succeed, whatever else goes on. Every thread has its own
 * weak and shared pointer for every allocation.
 */
#define P4_N 150

struct wctx
{
    pthread_t thr;
    int tid, iters;
    const int * id;
    const void * const * addr;
    cstl_weak_ptr_t w[P4_N];
    cstl_shared_ptr_t s[P4_N];
};

static void * w_main(void * const arg)
{
    struct wctx * const c = arg;
    int n, i;

    for (n = 0; n < c->iters; n++) {
        const int step = (n % 2) ? 7 : 11; /* coprime to P4_N */
        for (i = 0; i < P4_N; i++) {
            const int k = (i * step + c->tid) % P4_N;
            cstl_weak_ptr_lock(&c->w[k], &c->s[k]);
            if (cstl_shared_ptr_get(&c->s[k]) != c->addr[k]) {
                FAIL("lock failed or wrong memory while the owner exists");
            }
            own_inc(c->id[k]);
        }
        for (i = 0; i < P4_N; i++) {
            const int k = (i * 13 + n) % P4_N;
            obj_check_live(cstl_shared_ptr_get(&c->s[k]), c->id[k]);
            CHECK(!cstl_shared_ptr_unique(&c->s[k]));
            own_dec(c->id[k]);
            cstl_shared_ptr_reset(&c->s[k]);
        }
    }
    return NULL;
}

static void part4(const int nthreads, const int iters)
{
    static struct wctx wc[MAXT];
    static cstl_shared_ptr_t own[P4_N];
    static int id[P4_N];
    static const void * addr[P4_N];
    int t, i;

    for (i = 0; i < P4_N; i++) {
        cstl_shared_ptr_init(&own[i]);
        id[i] = obj_alloc(&own[i], i % 50);
        CHECK(id[i] >= 0);
        addr[i] = cstl_shared_ptr_get_const(&own[i]);
    }
    for (t = 0; t < nthreads; t++) {
        wc[t].tid = t;
        wc[t].iters = iters;
        wc[t].id = id;
        wc[t].addr = addr;
        for (i = 0; i < P4_N; i++) {
            cstl_shared_ptr_init(&wc[t].s[i]);
            cstl_weak_ptr_init(&wc[t].w[i]);
            cstl_weak_ptr_from(&wc[t].w[i], &own[i]);
        }
    }
    for (t = 0; t < nthreads; t++) {
        if (pthread_create(&wc[t].thr, NULL, w_main, &wc[t]) != 0) {
            FAIL("pthread_create");
        }
    }
    for (t = 0; t < nthreads; t++) {
        pthread_join(wc[t].thr, NULL);
    }
    for (i = 0; i < P4_N; i++) {
        obj_check_live(addr[i], id[i]);
        CHECK(!cstl_shared_ptr_unique(&own[i]));
        own_dec(id[i]);
        cstl_shared_ptr_reset(&own[i]);
        CHECK(cleared(id[i]) == 1);
        for (t = 0; t < nthreads; t++) {
            cstl_weak_ptr_lock(&wc[t].w[i], &wc[t].s[i]);
            CHECK(cstl_shared_ptr_get(&wc[t].s[i]) == NULL);
            cstl_weak_ptr_reset(&wc[t].w[i]);
        }
    }
    printf("many allocations: threads %d ok\n", nthreads);
}

int main(void)
{
    uint64_t seed;
    int i;

    alarm(600); /* nobody waits forever */
    setvbuf(stdout, NULL, _IOLBF, 0);

    tracks = calloc(MAXOBJ, sizeof(*tracks));
    if (tracks == NULL) {
        FAIL("no memory for the tracking table");
    }

    part1();
    printf("part 1 ok\n");

    for (seed = 1; seed <= 300; seed++) {
        part2(seed * 0x9e3779b97f4a7c15ull + 1, seed < 290 ? 150 : 3000);
    }
    printf("part 2 ok\n");

    /* threads, rounds, objects, shared slots, weak slots, max ops, seed */
    part3(2, 6000, 1, 3, 2, 6, 11);
    part3(2, 3000, 1, 4, 2, 14, 12);
    part3(3, 4000, 1, 3, 2, 8, 13);
    part3(4, 4000, 1, 3, 2, 8, 14);
    part3(4, 1500, 2, 4, 4, 24, 15);
    part3(8, 1500, 1, 3, 2, 10, 16);
    part3(3, 300, 8, 10, 7, 300, 17);
    part3(8, 300, 16, 12, 8, 400, 18);

    for (i = 2; i <= 8; i += (i < 4 ? 1 : 4)) {
        part3b(i, 300, 200, 100 + i);
    }

    part4(2, 300);
    part4(8, 100);

    free(tracks);
    printf("all ok\n");
    return 0;
}
