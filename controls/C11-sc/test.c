/*
 * C11: every sort algorithm returns a sorted permutation and the
 * searches agree with it.
 *
 * Standalone test; uses only the public API of libcstl
 * (cstl/common.h, cstl/array.h, cstl/vector.h).
 *
 * The program supplies its own rand() so that the pivots of the
 * randomised quicksort can be steered (all-zero, all-RAND_MAX,
 * scripted sequences, pseudo random); nothing here depends on how
 * many times, or whether, the library calls it.
 */

#include <stdio.h>
#include <stdlib.h>
#include <string.h>
#include <stdint.h>
#include <limits.h>
#include <time.h>

#include "cstl/common.h"
#include "cstl/array.h"
#include "cstl/vector.h"

/* ------------------------------------------------------------------ */

static unsigned long n_checks, n_fail;

#define FAIL(...)                                               \
    do {                                                        \
        if (n_fail++ < 25) {                                    \
            fprintf(stderr, "FAIL %s:%d: ", __func__, __LINE__);\
            fprintf(stderr, __VA_ARGS__);                       \
            fputc('\n', stderr);                                \
        }                                                       \
    } while (0)

#define CHECK(C, ...)                           \
    do {                                        \
        n_checks++;                             \
        if (!(C)) {                             \
            FAIL(__VA_ARGS__);                  \
        }                                       \
    } while (0)

/* ------------------------------------------------------------------ */
/* the program's own rand()                                            */

enum { R_ZERO, R_MAX, R_MID, R_SCRIPT, R_LCG, R_COUNT, R_NMODES };

static int r_mode = R_LCG;
static uint64_t r_state = 12345;
static int r_script[8];
static unsigned int r_len = 1, r_pos;
static unsigned long r_calls;

int rand(void)
{
    /*
     * a pivot that is the last element and the strict maximum makes no
     * progress in a Hoare-style partition, and the library then simply
     * draws again. a source that returned such a value forever would
     * not be "random", so every steered mode yields a 0 (first element,
     * always makes progress) once in a while.
     */
    r_calls++;
    switch (r_mode) {
    case R_ZERO:
        return 0;
    case R_MAX:
        return (r_pos++ % 4 == 3) ? 0 : RAND_MAX;
    case R_MID:
        return (r_pos++ % 4 == 3) ? 0 : RAND_MAX / 2;
    case R_SCRIPT:
        {
            const unsigned int i = r_pos++ % (r_len + 1);
            return (i == r_len) ? 0 : r_script[i];
        }
    case R_COUNT:
        return (int)(r_pos++ & 0x7fff);
    default:
        r_state = r_state * 6364136223846793005ULL + 1442695040888963407ULL;
        return (int)((r_state >> 33) % ((uint64_t)RAND_MAX + 1));
    }
}

/* a private generator for the test's own data */
static uint64_t t_state = 987654321;
static uint32_t trand(void)
{
    t_state = t_state * 6364136223846793005ULL + 1442695040888963407ULL;
    return (uint32_t)(t_state >> 32);
}

/* ------------------------------------------------------------------ */
/* elements: a key (1 byte if size < 4, else 4 bytes) and a tag        */

static long key_of(const void * const p, const size_t S)
{
    if (S >= 4) {
        uint32_t k;
        memcpy(&k, p, sizeof(k));
        return (long)k;
    }
    return *(const unsigned char *)p;
}

static void make_elem(unsigned char * const d, const size_t S,
                      const uint32_t key, const uint32_t tag)
{
    size_t i, o;

    if (S >= 4) {
        memcpy(d, &key, 4);
        o = 4;
    } else {
        d[0] = (unsigned char)key;
        o = 1;
    }
    for (i = o; i < S; i++) {
        d[i] = (unsigned char)((tag >> (8 * ((i - o) % 4)))
                               + 31 * ((i - o) / 4) + 1);
    }
}

/* ------------------------------------------------------------------ */
/* comparison / swap callbacks                                         */

struct ctx
{
    const unsigned char * arr;
    size_t n, S;
    const unsigned char * tmp;          /* NULL if not known */
    const unsigned char * probe;        /* NULL if none */
    int strict;                         /* pointers must be known ones */
    int scale;
    int nested;
    unsigned long ncmp, nswap;
};

static void nested_work(void);

static int ptr_in_array(const struct ctx * const c, const void * const p)
{
    const unsigned char * const q = p;
    if (c->n == 0 || c->S == 0 || c->arr == NULL) {
        return 0;
    }
    if ((uintptr_t)q < (uintptr_t)c->arr
        || (uintptr_t)q >= (uintptr_t)c->arr + c->n * c->S) {
        return 0;
    }
    return 1;
}

static void check_ptr(const struct ctx * const c, const void * const p,
                      const int allow_probe)
{
    if (ptr_in_array(c, p)) {
        CHECK(((uintptr_t)p - (uintptr_t)c->arr) % c->S == 0,
              "callback pointer not on an element boundary");
        return;
    }
    if (allow_probe && c->probe != NULL && p == (const void *)c->probe) {
        return;
    }
    if (c->tmp != NULL && p == (const void *)c->tmp) {
        return;
    }
    if (c->strict) {
        FAIL("callback pointer %p outside array/scratch/probe", p);
    }
}

static int cmp_keys(const void * const a, const void * const b,
                    void * const priv)
{
    struct ctx * const c = priv;
    long ka, kb;

    c->ncmp++;
    check_ptr(c, a, 1);
    check_ptr(c, b, 1);
    if (c->nested && c->ncmp % 5 == 0) {
        nested_work();
    }

    ka = key_of(a, c->S);
    kb = key_of(b, c->S);
    if (ka < kb) {
        return -c->scale;
    } else if (ka > kb) {
        return c->scale;
    }
    return 0;
}

static struct ctx * g_swapctx;

/* swap that uses the scratch space it is given */
static void swap_tmp(void * const a, void * const b,
                     void * const t, const size_t len)
{
    struct ctx * const c = g_swapctx;

    c->nswap++;
    CHECK(len == c->S, "swap len %lu != element size %lu",
          (unsigned long)len, (unsigned long)c->S);
    check_ptr(c, a, 0);
    check_ptr(c, b, 0);
    if (c->tmp != NULL) {
        CHECK(t == (void *)c->tmp, "swap scratch is not the one supplied");
    }
    CHECK(t != NULL, "NULL scratch");
    if (a != b) {
        memcpy(t, a, len);
        memcpy(a, b, len);
        memcpy(b, t, len);
    }
}

/* swap that ignores the scratch space (the docs allow that) */
static void swap_not(void * const a, void * const b,
                     void * const t, const size_t len)
{
    struct ctx * const c = g_swapctx;
    unsigned char * x = a, * y = b;
    size_t i;

    (void)t;
    c->nswap++;
    CHECK(len == c->S, "swap len %lu != element size %lu",
          (unsigned long)len, (unsigned long)c->S);
    check_ptr(c, a, 0);
    check_ptr(c, b, 0);
    if (a != b) {
        for (i = 0; i < len; i++) {
            const unsigned char z = x[i];
            x[i] = y[i];
            y[i] = z;
        }
    }
}

static cstl_swap_func_t * const SWAPS[] = { cstl_swap, swap_tmp, swap_not };
#define NSWAPS  (sizeof(SWAPS) / sizeof(*SWAPS))

static const int SCALES[] = { 1, 1000, INT_MAX };
#define NSCALES (sizeof(SCALES) / sizeof(*SCALES))

static const int ALGOS[] = {
    CSTL_SORT_ALGORITHM_QUICK,
    CSTL_SORT_ALGORITHM_QUICK_R,
    CSTL_SORT_ALGORITHM_QUICK_M,
    CSTL_SORT_ALGORITHM_HEAP,
    4, 5, 2897234, INT_MAX, -1, INT_MIN,
};
#define NALGOS  (sizeof(ALGOS) / sizeof(*ALGOS))
#define NNAMED  4

/* ------------------------------------------------------------------ */
/* guarded raw buffers                                                 */

#define GUARD 64

struct raw
{
    unsigned char * block, * arr;
    unsigned char * tblock, * tmp;
    size_t cap;         /* bytes available for the array */
    size_t bytes, S;
};

static unsigned char guard_byte(const size_t i)
{
    return (unsigned char)(0xA5 ^ (i * 7));
}

static void raw_create(struct raw * const r, const size_t cap)
{
    r->cap = cap;
    r->block = malloc(GUARD + cap + GUARD);
    r->tblock = malloc(GUARD + 256 + GUARD);
    if (r->block == NULL || r->tblock == NULL) {
        fprintf(stderr, "out of memory\n");
        exit(2);
    }
    r->arr = r->block + GUARD;
    r->tmp = r->tblock + GUARD;
    r->bytes = r->S = 0;
}

static void raw_destroy(struct raw * const r)
{
    free(r->block);
    free(r->tblock);
}

static void raw_prepare(struct raw * const r,
                        const void * const src,
                        const size_t n, const size_t S)
{
    size_t i;

    if (n * S > r->cap || S > 256) {
        fprintf(stderr, "test bug: raw buffer too small\n");
        exit(2);
    }
    r->bytes = n * S;
    r->S = S;
    for (i = 0; i < GUARD; i++) {
        r->block[i] = guard_byte(i);
        r->arr[r->bytes + i] = guard_byte(i + 3);
        r->tblock[i] = guard_byte(i + 5);
        r->tmp[S + i] = guard_byte(i + 9);
    }
    memset(r->tmp, 0xEE, S);
    if (r->bytes > 0) {
        memcpy(r->arr, src, r->bytes);
    }
}

static int raw_guards_ok(const struct raw * const r)
{
    size_t i;

    for (i = 0; i < GUARD; i++) {
        if (r->block[i] != guard_byte(i)
            || r->arr[r->bytes + i] != guard_byte(i + 3)
            || r->tblock[i] != guard_byte(i + 5)
            || r->tmp[r->S + i] != guard_byte(i + 9)) {
            return 0;
        }
    }
    return 1;
}

/* ------------------------------------------------------------------ */
/* result checks                                                       */

static size_t g_msize;
static int mem_cmp(const void * const a, const void * const b)
{
    return memcmp(a, b, g_msize);
}

static int is_sorted(const unsigned char * const a,
                     const size_t n, const size_t S)
{
    size_t i;
    for (i = 1; i < n; i++) {
        if (key_of(a + (i - 1) * S, S) > key_of(a + i * S, S)) {
            return 0;
        }
    }
    return 1;
}

/* same multiset of byte-identical elements? */
static int is_permutation(const unsigned char * const a,
                          const unsigned char * const b,
                          const size_t n, const size_t S)
{
    unsigned char * x, * y;
    int ok;

    if (n == 0) {
        return 1;
    }
    if (n == 1) {
        return memcmp(a, b, S) == 0;
    }
    x = malloc(n * S);
    y = malloc(n * S);
    if (x == NULL || y == NULL) {
        fprintf(stderr, "out of memory\n");
        exit(2);
    }
    memcpy(x, a, n * S);
    memcpy(y, b, n * S);
    g_msize = S;
    qsort(x, n, S, mem_cmp);
    qsort(y, n, S, mem_cmp);
    ok = (memcmp(x, y, n * S) == 0);
    free(x);
    free(y);
    return ok;
}

static int is_mirror(const unsigned char * const a,
                     const unsigned char * const b,
                     const size_t n, const size_t S)
{
    size_t i;
    for (i = 0; i < n; i++) {
        if (memcmp(a + i * S, b + (n - 1 - i) * S, S) != 0) {
            return 0;
        }
    }
    return 1;
}

static ssize_t first_index(const unsigned char * const a,
                           const size_t n, const size_t S, const long k)
{
    size_t i;
    for (i = 0; i < n; i++) {
        if (key_of(a + i * S, S) == k) {
            return (ssize_t)i;
        }
    }
    return -1;
}

/*
 * build a list of probe keys: a sample of the keys in the array, their
 * neighbours, and the extremes
 */
#define MAXPROBES 80
static size_t collect_probes(const unsigned char * const a,
                             const size_t n, const size_t S,
                             long * const out)
{
    const long maxk = (S >= 4) ? (long)UINT32_MAX : 255;
    size_t np = 0, i, step;

    out[np++] = 0;
    out[np++] = maxk;
    out[np++] = maxk / 2;
    step = (n <= 24) ? 1 : (n / (n > 500 ? 4 : 9) + 1);
    for (i = 0; i < n && np + 3 <= MAXPROBES; i += step) {
        const long k = key_of(a + i * S, S);
        out[np++] = k;
        if (k > 0) {
            out[np++] = k - 1;
        }
        if (k < maxk) {
            out[np++] = k + 1;
        }
    }
    if (n > 0 && np + 1 <= MAXPROBES) {
        out[np++] = key_of(a + (n - 1) * S, S);
    }
    return np;
}

/* ------------------------------------------------------------------ */
/* one raw-array case                                                  */

static unsigned long case_no;

static void run_raw_case(struct raw * const r,
                         const unsigned char * const orig,
                         const size_t n, const size_t S,
                         const int algo, const int nested)
{
    cstl_swap_func_t * const swap = SWAPS[case_no % NSWAPS];
    struct ctx c;
    unsigned char probe[256];
    long probes[MAXPROBES];
    size_t np, i;
    unsigned char * sorted;

    case_no++;

    memset(&c, 0, sizeof(c));
    raw_prepare(r, orig, n, S);
    c.arr = r->arr;
    c.n = n;
    c.S = S;
    c.tmp = r->tmp;
    c.strict = 1;
    c.scale = SCALES[(case_no / NSWAPS) % NSCALES];
    c.nested = nested;

    g_swapctx = &c;
    cstl_raw_array_sort(r->arr, n, S, cmp_keys, &c, swap, r->tmp,
                        (cstl_sort_algorithm_t)algo);

    CHECK(raw_guards_ok(r), "sort wrote outside array/scratch "
          "(n=%lu S=%lu algo=%d)", (unsigned long)n, (unsigned long)S, algo);
    CHECK(is_sorted(r->arr, n, S), "not sorted (n=%lu S=%lu algo=%d)",
          (unsigned long)n, (unsigned long)S, algo);
    CHECK(is_permutation(r->arr, orig, n, S),
          "not a permutation (n=%lu S=%lu algo=%d)",
          (unsigned long)n, (unsigned long)S, algo);

    /* searches; they must not modify anything */
    sorted = malloc(n * S + 1);
    if (sorted == NULL) {
        fprintf(stderr, "out of memory\n");
        exit(2);
    }
    memcpy(sorted, r->arr, n * S);

    np = collect_probes(orig, n, S, probes);
    c.probe = probe;
    for (i = 0; i < np; i++) {
        ssize_t s, f, e;

        make_elem(probe, S, (uint32_t)probes[i], 0xdeadbeef);

        /* binary search on the sorted array */
        c.arr = r->arr;
        s = cstl_raw_array_search(r->arr, n, S, probe, cmp_keys, &c);
        e = first_index(sorted, n, S, probes[i]);
        if (e < 0) {
            CHECK(s == -1, "search found absent key %ld at %ld (n=%lu S=%lu)",
                  probes[i], (long)s, (unsigned long)n, (unsigned long)S);
        } else {
            CHECK(s >= 0 && (size_t)s < n
                  && key_of(sorted + s * S, S) == probes[i],
                  "search missed key %ld: %ld (n=%lu S=%lu)",
                  probes[i], (long)s, (unsigned long)n, (unsigned long)S);
        }

        /* linear find on the sorted array ... */
        f = cstl_raw_array_find(r->arr, n, S, probe, cmp_keys, &c);
        CHECK(f == e, "find on sorted: %ld, expected %ld", (long)f, (long)e);

        /* ... and on the unsorted original */
        c.arr = orig;
        f = cstl_raw_array_find(orig, n, S, probe, cmp_keys, &c);
        e = first_index(orig, n, S, probes[i]);
        CHECK(f == e, "find on unsorted: %ld, expected %ld",
              (long)f, (long)e);
    }
    c.arr = r->arr;
    c.probe = NULL;
    CHECK(memcmp(sorted, r->arr, n * S) == 0, "search/find modified array");
    CHECK(raw_guards_ok(r), "search/find wrote outside");

    /* reverse mirrors the order, twice is the identity */
    cstl_raw_array_reverse(r->arr, n, S, swap, r->tmp);
    CHECK(raw_guards_ok(r), "reverse wrote outside array/scratch");
    CHECK(is_mirror(r->arr, sorted, n, S), "reverse is not a mirror "
          "(n=%lu S=%lu)", (unsigned long)n, (unsigned long)S);
    cstl_raw_array_reverse(r->arr, n, S, swap, r->tmp);
    CHECK(memcmp(sorted, r->arr, n * S) == 0, "double reverse not identity");

    /* a reversed (non-increasing) array sorts, too */
    if (n > 1 && n <= 2000 && (case_no & 3) == 0) {
        cstl_raw_array_reverse(r->arr, n, S, swap, r->tmp);
        cstl_raw_array_sort(r->arr, n, S, cmp_keys, &c, swap, r->tmp,
                            (cstl_sort_algorithm_t)algo);
        CHECK(is_sorted(r->arr, n, S), "re-sort of reversed not sorted");
        CHECK(is_permutation(r->arr, orig, n, S),
              "re-sort of reversed not a permutation");
        CHECK(raw_guards_ok(r), "re-sort wrote outside array/scratch");
    }

    g_swapctx = NULL;
    free(sorted);
}

/* ------------------------------------------------------------------ */
/* exhaustive small arrays                                             */

static void exhaustive_raw(struct raw * const r,
                           const unsigned int K, const size_t maxn,
                           const size_t * const sizes, const size_t nsizes)
{
    unsigned char orig[16 * 32];
    unsigned int digit[16];
    size_t n, si, ai, i;

    for (n = 0; n <= maxn; n++) {
        memset(digit, 0, sizeof(digit));
        for (;;) {
            for (si = 0; si < nsizes; si++) {
                const size_t S = sizes[si];

                for (i = 0; i < n; i++) {
                    /* odd keys, so that probes fall between them, too */
                    make_elem(orig + i * S, S, 2 * digit[i] + 1,
                              (uint32_t)(i + 1));
                }
                for (ai = 0; ai < NALGOS; ai++) {
                    r_mode = (int)(case_no % R_NMODES);
                    if (r_mode == R_SCRIPT) {
                        r_len = 3;
                        r_script[0] = (int)(case_no % 7);
                        r_script[1] = (int)(case_no / 7 % 5);
                        r_script[2] = (int)(case_no / 35 % 3);
                    }
                    run_raw_case(r, orig, n, S, ALGOS[ai], 0);
                }
            }

            /* next content */
            for (i = 0; i < n; i++) {
                if (++digit[i] < K) {
                    break;
                }
                digit[i] = 0;
            }
            if (i == n) {
                break;
            }
        }
    }
}

/*
 * every sequence of (the first three) pivots the randomised variant
 * can be handed, for all small arrays over three values
 */
static void scripted_pivots(struct raw * const r)
{
    static const size_t sizes[] = { 1, 4, 12 };
    unsigned char orig[8 * 16];
    unsigned int digit[8];
    size_t n, si, i;
    int a, b, c;

    for (n = 2; n <= 5; n++) {
        memset(digit, 0, sizeof(digit));
        for (;;) {
            for (si = 0; si < sizeof(sizes) / sizeof(*sizes); si++) {
                const size_t S = sizes[si];
                for (i = 0; i < n; i++) {
                    make_elem(orig + i * S, S, 2 * digit[i] + 1,
                              (uint32_t)(i + 1));
                }
                for (a = 0; a < (int)n; a++) {
                    for (b = 0; b < (int)n; b++) {
                        for (c = 0; c < (int)n; c++) {
                            r_mode = R_SCRIPT;
                            r_len = 3;
                            r_pos = 0;
                            r_script[0] = a;
                            /* also values well above the count */
                            r_script[1] = b + (int)n * 1000;
                            r_script[2] = RAND_MAX - (RAND_MAX % (int)n)
                                          - (int)n + c;
                            run_raw_case(r, orig, n, S,
                                         CSTL_SORT_ALGORITHM_QUICK_R, 0);
                        }
                    }
                }
            }
            for (i = 0; i < n; i++) {
                if (++digit[i] < 3) {
                    break;
                }
                digit[i] = 0;
            }
            if (i == n) {
                break;
            }
        }
    }
    r_mode = R_LCG;
}

/* ------------------------------------------------------------------ */
/* generated (medium and large) inputs                                 */

enum {
    P_RANDOM, P_SORTED, P_REVERSED, P_CONST, P_TWO_ALT, P_TWO_HALF,
    P_TWO_RAND, P_ORGAN, P_VALLEY, P_SAW, P_FEW, P_SORTED_DUP,
    P_ALMOST, P_KILLER3, P_NPATTERNS
};

static uint32_t gen_key(const int pat, const size_t i, const size_t n,
                        const uint32_t maxkey)
{
    const uint64_t m = maxkey;
    const size_t h = n / 2;

    switch (pat) {
    case P_SORTED:
        return (uint32_t)(i * m / n);
    case P_REVERSED:
        return (uint32_t)((n - 1 - i) * m / n);
    case P_CONST:
        return maxkey / 3;
    case P_TWO_ALT:
        return (i & 1) ? 7 : 3;
    case P_TWO_HALF:
        return (i < h) ? 9 : 2;
    case P_TWO_RAND:
        return (trand() & 1) ? 1 : 200;
    case P_ORGAN:
        return (uint32_t)((i < h ? i : n - 1 - i) * m / n);
    case P_VALLEY:
        return (uint32_t)((i < h ? h - i : i - h) * m / n);
    case P_SAW:
        return (uint32_t)(i % 7);
    case P_FEW:
        return trand() % 5;
    case P_SORTED_DUP:
        return (uint32_t)(i / 4 * m / n);
    case P_ALMOST:
        return (trand() % 16 == 0) ? trand() % (maxkey + 1)
                                   : (uint32_t)(i * m / n);
    case P_KILLER3:
        /* hostile to a first/middle/last median: big values interleaved */
        return (uint32_t)((i & 1) ? (i / 2 * m / n) : ((h + i / 2) * m / n));
    default:
        return trand() % (maxkey + 1);
    }
}

static unsigned char * gen_array(const int pat, const size_t n, const size_t S)
{
    const uint32_t maxkey = (S >= 4) ? (uint32_t)(2 * n + 10) : 250;
    unsigned char * const a = malloc(n * S + 1);
    size_t i;

    if (a == NULL) {
        fprintf(stderr, "out of memory\n");
        exit(2);
    }
    for (i = 0; i < n; i++) {
        make_elem(a + i * S, S, gen_key(pat, i, n ? n : 1, maxkey),
                  (uint32_t)(i + 1));
    }
    return a;
}

static void medium_raw(struct raw * const r)
{
    static const size_t sizes[] = { 1, 2, 3, 4, 7, 8, 12, 16, 24, 40 };
    size_t n, si, ai;
    int pat;

    for (n = 6; n <= 130; n += (n < 40 ? 1 : 9)) {
        for (pat = 0; pat < P_NPATTERNS; pat++) {
            for (si = 0; si < sizeof(sizes) / sizeof(*sizes); si++) {
                unsigned char * const o = gen_array(pat, n, sizes[si]);
                for (ai = 0; ai < NALGOS; ai++) {
                    r_mode = (int)(case_no % R_NMODES);
                    r_len = 1 + case_no % 5;
                    r_script[0] = (int)n - 1;
                    r_script[1] = 0;
                    r_script[2] = (int)(n / 2);
                    r_script[3] = 1;
                    r_script[4] = (int)n - 2;
                    run_raw_case(r, o, n, sizes[si], ALGOS[ai],
                                 (n % 16 == 0));
                }
                free(o);
            }
        }
    }
    r_mode = R_LCG;
}

static void large_raw(struct raw * const r)
{
    static const size_t sizes[] = { 1, 4, 8, 12 };
    static const size_t ns[] = { 1000, 2048 };
    size_t ni, si, ai;
    int pat;

    /* every algorithm on every adversarial shape (some are quadratic) */
    for (ni = 0; ni < sizeof(ns) / sizeof(*ns); ni++) {
        for (pat = 0; pat < P_NPATTERNS; pat++) {
            for (si = 0; si < sizeof(sizes) / sizeof(*sizes); si++) {
                unsigned char * const o = gen_array(pat, ns[ni], sizes[si]);
                for (ai = 0; ai < 6; ai++) {
                    /* extreme constant pivots are quadratic; fine here */
                    r_mode = (int)(case_no % R_NMODES);
                    r_len = 2;
                    r_script[0] = 0;
                    r_script[1] = RAND_MAX;
                    run_raw_case(r, o, ns[ni], sizes[si], ALGOS[ai], 0);
                }
                free(o);
            }
        }
    }

    /* really large ones where the algorithm copes */
    r_mode = R_LCG;
    for (pat = 0; pat < P_NPATTERNS; pat++) {
        for (si = 1; si < sizeof(sizes) / sizeof(*sizes); si++) {
            const size_t n = 60000 + 1111 * si;
            unsigned char * const o = gen_array(pat, n, sizes[si]);

            run_raw_case(r, o, n, sizes[si], CSTL_SORT_ALGORITHM_HEAP, 0);
            if (pat != P_ORGAN && pat != P_VALLEY && pat != P_KILLER3) {
                run_raw_case(r, o, n, sizes[si],
                             CSTL_SORT_ALGORITHM_QUICK_M, 0);
                run_raw_case(r, o, n, sizes[si], 77, 0);
            }
            run_raw_case(r, o, n, sizes[si], CSTL_SORT_ALGORITHM_QUICK_R, 0);
            if (pat == P_RANDOM || pat == P_CONST || pat == P_TWO_ALT
                || pat == P_TWO_RAND || pat == P_FEW) {
                run_raw_case(r, o, n, sizes[si],
                             CSTL_SORT_ALGORITHM_QUICK, 0);
            }
            free(o);
        }
    }
}

/* reverse on its own, all lengths and sizes */
static void reverse_raw(struct raw * const r)
{
    size_t n, S;

    for (S = 1; S <= 33; S++) {
        for (n = 0; n <= 41; n++) {
            unsigned char * const o = gen_array(P_RANDOM, n, S);
            struct ctx c;
            size_t k;

            memset(&c, 0, sizeof(c));
            for (k = 0; k < NSWAPS; k++) {
                raw_prepare(r, o, n, S);
                c.arr = r->arr;
                c.n = n;
                c.S = S;
                c.tmp = r->tmp;
                c.strict = 1;
                g_swapctx = &c;
                cstl_raw_array_reverse(r->arr, n, S, SWAPS[k], r->tmp);
                CHECK(raw_guards_ok(r), "reverse wrote outside");
                CHECK(is_mirror(r->arr, o, n, S),
                      "reverse not a mirror (n=%lu S=%lu)",
                      (unsigned long)n, (unsigned long)S);
                cstl_raw_array_reverse(r->arr, n, S, SWAPS[k], r->tmp);
                CHECK(memcmp(r->arr, o, n * S) == 0,
                      "double reverse not identity");
                g_swapctx = NULL;
            }
            free(o);
        }
    }
}

/* ------------------------------------------------------------------ */
/* vectors                                                             */

static void vec_load(struct cstl_vector * const v,
                     const unsigned char * const src,
                     const size_t n, const size_t S)
{
    size_t i;

    cstl_vector_resize(v, n);
    CHECK(cstl_vector_size(v) == n, "resize: size");
    CHECK(cstl_vector_capacity(v) >= n, "resize: capacity");
    for (i = 0; i < n; i++) {
        memcpy(cstl_vector_at(v, i), src + i * S, S);
    }
}

static unsigned char slack_byte(const size_t i)
{
    return (unsigned char)(0x3C ^ (i * 11));
}

/* mark the allocated-but-unused elements between size and capacity */
static void vec_mark_slack(struct cstl_vector * const v, const size_t S)
{
    const size_t n = cstl_vector_size(v), cap = cstl_vector_capacity(v);
    unsigned char * const d = cstl_vector_data(v);
    size_t i;

    for (i = n * S; i < cap * S; i++) {
        d[i] = slack_byte(i);
    }
}

static int vec_slack_ok(struct cstl_vector * const v, const size_t S)
{
    const size_t n = cstl_vector_size(v), cap = cstl_vector_capacity(v);
    const unsigned char * const d = cstl_vector_data(v);
    size_t i;

    for (i = n * S; i < cap * S; i++) {
        if (d[i] != slack_byte(i)) {
            return 0;
        }
    }
    return 1;
}

/* sort, search, find, reverse a loaded vector; @orig is its content */
static void vec_check_ops(struct cstl_vector * const v,
                          const unsigned char * const orig,
                          const size_t S, const int algo, const int nested)
{
    const size_t n = cstl_vector_size(v);
    const size_t cap = cstl_vector_capacity(v);
    cstl_swap_func_t * const swap = SWAPS[case_no % NSWAPS];
    struct ctx c;
    unsigned char probe[256];
    long probes[MAXPROBES];
    unsigned char * sorted;
    size_t np, i;

    case_no++;
    memset(&c, 0, sizeof(c));
    c.arr = cstl_vector_data(v);
    c.n = n;
    c.S = S;
    c.scale = SCALES[case_no % NSCALES];
    c.nested = nested;
    g_swapctx = &c;

    vec_mark_slack(v, S);

    if (algo == INT_MAX - 1) {
        /* the plain public entry point */
        cstl_vector_sort(v, cmp_keys, &c);
    } else {
        __cstl_vector_sort(v, cmp_keys, &c, swap,
                           (cstl_sort_algorithm_t)algo);
    }

    CHECK(cstl_vector_size(v) == n && cstl_vector_capacity(v) == cap,
          "sort changed size/capacity");
    CHECK(vec_slack_ok(v, S), "vector sort touched unused elements");
    CHECK(n == 0 || is_sorted(cstl_vector_data(v), n, S),
          "vector not sorted (n=%lu S=%lu algo=%d)",
          (unsigned long)n, (unsigned long)S, algo);
    CHECK(n == 0 || is_permutation(cstl_vector_data(v), orig, n, S),
          "vector not a permutation (n=%lu S=%lu algo=%d)",
          (unsigned long)n, (unsigned long)S, algo);

    sorted = malloc(n * S + 1);
    if (sorted == NULL) {
        fprintf(stderr, "out of memory\n");
        exit(2);
    }
    if (n > 0) {
        memcpy(sorted, cstl_vector_data(v), n * S);
    }

    np = collect_probes(orig, n, S, probes);
    c.probe = probe;
    for (i = 0; i < np; i++) {
        ssize_t s, f, e;

        make_elem(probe, S, (uint32_t)probes[i], 0xfeedf00d);
        e = first_index(sorted, n, S, probes[i]);
        s = cstl_vector_search(v, probe, cmp_keys, &c);
        if (e < 0) {
            CHECK(s == -1, "vector search found absent key");
        } else {
            CHECK(s >= 0 && (size_t)s < n
                  && key_of(cstl_vector_at_const(v, (size_t)s), S)
                  == probes[i],
                  "vector search missed a key");
        }
        f = cstl_vector_find(v, probe, cmp_keys, &c);
        CHECK(f == e, "vector find: %ld, expected %ld", (long)f, (long)e);
    }
    c.probe = NULL;
    CHECK(n == 0 || memcmp(sorted, cstl_vector_data(v), n * S) == 0,
          "vector search/find modified the vector");

    if (case_no & 1) {
        cstl_vector_reverse(v);
    } else {
        __cstl_vector_reverse(v, swap);
    }
    CHECK(n == 0 || is_mirror(cstl_vector_data(v), sorted, n, S),
          "vector reverse not a mirror");
    CHECK(vec_slack_ok(v, S), "vector reverse touched unused elements");
    CHECK(cstl_vector_size(v) == n && cstl_vector_capacity(v) == cap,
          "reverse changed size/capacity");

    /* find on the (now non-increasing) vector: first index */
    c.probe = probe;
    for (i = 0; i < np && i < 12; i++) {
        make_elem(probe, S, (uint32_t)probes[i], 1);
        CHECK(cstl_vector_find(v, probe, cmp_keys, &c)
              == first_index(cstl_vector_data(v), n, S, probes[i]),
              "vector find on reversed");
    }
    c.probe = NULL;

    g_swapctx = NULL;
    free(sorted);
}

static void vec_snapshot(struct cstl_vector * const v, const size_t S,
                         unsigned char * const dst)
{
    if (cstl_vector_size(v) > 0) {
        memcpy(dst, cstl_vector_data(v), cstl_vector_size(v) * S);
    }
}

/* a life of a vector: load, sort, grow, sort, shrink, sort, clear, reuse */
static void vec_life(struct cstl_vector * const v, const size_t S,
                     const size_t n, const int pat, const size_t extra,
                     const unsigned int ai)
{
    unsigned char * const o = gen_array(pat, n + 8, S);
    unsigned char * const snap = malloc((n + 8) * S + 1);
    size_t i, m;

    if (snap == NULL) {
        fprintf(stderr, "out of memory\n");
        exit(2);
    }

    if (extra > 0) {
        cstl_vector_reserve(v, n + extra);
        CHECK(cstl_vector_capacity(v) >= n + extra, "reserve");
    }
    vec_load(v, o, n, S);
    vec_check_ops(v, o, S, ALGOS[ai % NALGOS], 0);

    /* grow by a few elements (may move the storage) */
    m = n + 1 + (n % 7);
    cstl_vector_resize(v, m);
    for (i = n; i < m; i++) {
        memcpy(cstl_vector_at(v, i), o + i * S, S);
    }
    /* the old content survived the growth */
    vec_snapshot(v, S, snap);
    CHECK(is_permutation(snap, o, m, S), "content lost while growing");
    vec_check_ops(v, snap, S, ALGOS[(ai + 1) % NALGOS], 0);

    /* a failed reservation leaves everything alone */
    vec_snapshot(v, S, snap);
    {
        const size_t cap = cstl_vector_capacity(v);
        cstl_vector_reserve(v, SIZE_MAX);
        cstl_vector_reserve(v, SIZE_MAX - 1);
        cstl_vector_reserve(v, SIZE_MAX / S);
        cstl_vector_reserve(v, SIZE_MAX / S - 1);
        cstl_vector_reserve(v, SIZE_MAX / 2 / S);
        CHECK(cstl_vector_capacity(v) == cap && cstl_vector_size(v) == m,
              "impossible reservation changed the vector");
        CHECK(memcmp(snap, cstl_vector_data(v), m * S) == 0,
              "impossible reservation changed the content");
    }
    vec_check_ops(v, snap, S, ALGOS[(ai + 2) % NALGOS], 0);

    /* shrink */
    m = m / 2;
    cstl_vector_resize(v, m);
    vec_snapshot(v, S, snap);
    vec_check_ops(v, snap, S, ALGOS[(ai + 3) % NALGOS], 0);
    cstl_vector_shrink_to_fit(v);
    CHECK(cstl_vector_size(v) == m, "shrink_to_fit changed the size");
    CHECK(m == 0 || is_mirror(cstl_vector_data(v), snap, m, S)
          || is_permutation(cstl_vector_data(v), snap, m, S),
          "shrink_to_fit lost content");
    vec_snapshot(v, S, snap);
    vec_check_ops(v, snap, S, INT_MAX - 1, 0);
    vec_check_ops(v, snap, S, ALGOS[(ai + 4) % NALGOS], 0);

    /* clear and use again */
    cstl_vector_clear(v);
    CHECK(cstl_vector_size(v) == 0, "clear: size");
    vec_check_ops(v, o, S, ALGOS[(ai + 5) % NALGOS], 0);
    vec_load(v, o, 3, S);
    vec_check_ops(v, o, S, ALGOS[(ai + 6) % NALGOS], 0);
    cstl_vector_clear(v);

    free(snap);
    free(o);
}

struct s12 { uint32_t k; unsigned char pad[8]; };
struct s24 { uint32_t k; unsigned char pad[20]; };

/* vectors of several element types, statically initialised */
static DECLARE_CSTL_VECTOR(g_v1, uint8_t);
static DECLARE_CSTL_VECTOR(g_v2, uint16_t);
static DECLARE_CSTL_VECTOR(g_v4, uint32_t);
static DECLARE_CSTL_VECTOR(g_v8, uint64_t);
static DECLARE_CSTL_VECTOR(g_v12, struct s12);
static DECLARE_CSTL_VECTOR(g_v24, struct s24);
static struct cstl_vector g_vi = CSTL_VECTOR_INITIALIZER(unsigned char[5]);

static void vector_tests(void)
{
    struct { struct cstl_vector * v; size_t S; } stat[] = {
        { &g_v1, 1 }, { &g_v2, 2 }, { &g_v4, 4 }, { &g_v8, 8 },
        { &g_v12, sizeof(struct s12) }, { &g_v24, sizeof(struct s24) },
        { &g_vi, 5 },
    };
    static const size_t ns[] = { 0, 1, 2, 3, 4, 5, 7, 8, 9, 16, 31, 64, 257 };
    static const size_t rs[] = { 3, 6, 10, 17, 48 };
    unsigned int k, ai = 0;
    size_t ni, si;
    int pat;

    r_mode = R_LCG;
    for (k = 0; k < sizeof(stat) / sizeof(*stat); k++) {
        for (ni = 0; ni < sizeof(ns) / sizeof(*ns); ni++) {
            for (pat = 0; pat < P_NPATTERNS; pat++) {
                r_mode = (int)(ai % R_NMODES);
                r_len = 2;
                r_script[0] = (int)ns[ni];
                r_script[1] = 1;
                vec_life(stat[k].v, stat[k].S, ns[ni], pat,
                         (ai % 3) * 5, ai);
                ai++;
            }
        }
    }

    /* run-time initialised vectors of other sizes */
    for (si = 0; si < sizeof(rs) / sizeof(*rs); si++) {
        struct cstl_vector v;
        cstl_vector_init(&v, rs[si]);
        for (ni = 0; ni < sizeof(ns) / sizeof(*ns); ni++) {
            for (pat = 0; pat < P_NPATTERNS; pat += 2) {
                r_mode = (int)(ai % R_NMODES);
                vec_life(&v, rs[si], ns[ni], pat, (ai % 4) * 3, ai);
                ai++;
            }
        }
        cstl_vector_clear(&v);
    }

    /* exhaustive small vectors, all algorithms */
    {
        static const size_t es[] = { 1, 2, 4, 8, 12 };
        unsigned char orig[8 * 16];
        unsigned int digit[8];
        size_t n, i, a;

        for (si = 0; si < sizeof(es) / sizeof(*es); si++) {
            const size_t S = es[si];
            struct cstl_vector v;

            cstl_vector_init(&v, S);
            for (n = 0; n <= 6; n++) {
                memset(digit, 0, sizeof(digit));
                for (;;) {
                    for (i = 0; i < n; i++) {
                        make_elem(orig + i * S, S, 2 * digit[i] + 1,
                                  (uint32_t)(i + 1));
                    }
                    for (a = 0; a < NALGOS; a++) {
                        r_mode = (int)(case_no % R_NMODES);
                        r_len = 2;
                        r_script[0] = (int)(case_no % 5);
                        r_script[1] = (int)(case_no % 3);
                        if ((case_no % 11) == 0) {
                            cstl_vector_clear(&v);
                        } else if ((case_no % 11) == 5) {
                            cstl_vector_reserve(&v, n + 3);
                        }
                        vec_load(&v, orig, n, S);
                        if ((case_no % 11) == 7) {
                            cstl_vector_shrink_to_fit(&v);
                        }
                        vec_check_ops(&v, orig, S, ALGOS[a], 0);
                    }
                    for (i = 0; i < n; i++) {
                        if (++digit[i] < 3) {
                            break;
                        }
                        digit[i] = 0;
                    }
                    if (i == n) {
                        break;
                    }
                }
            }
            cstl_vector_clear(&v);
        }
    }

    /* swapping two vectors of different element types, then sorting */
    {
        struct cstl_vector a, b;
        unsigned char * const oa = gen_array(P_RANDOM, 50, 4);
        unsigned char * const ob = gen_array(P_ORGAN, 33, 12);

        cstl_vector_init(&a, 4);
        cstl_vector_init(&b, 12);
        vec_load(&a, oa, 50, 4);
        vec_load(&b, ob, 33, 12);
        cstl_vector_swap(&a, &b);
        CHECK(cstl_vector_size(&a) == 33 && cstl_vector_size(&b) == 50,
              "vector swap sizes");
        vec_check_ops(&a, ob, 12, CSTL_SORT_ALGORITHM_HEAP, 0);
        vec_check_ops(&b, oa, 4, CSTL_SORT_ALGORITHM_QUICK_R, 0);
        cstl_vector_swap(&a, &b);
        vec_check_ops(&a, oa, 4, CSTL_SORT_ALGORITHM_QUICK, 0);
        vec_check_ops(&b, ob, 12, 99, 0);
        cstl_vector_resize(&a, 80);
        cstl_vector_resize(&b, 10);
        cstl_vector_swap(&b, &a);
        cstl_vector_shrink_to_fit(&a);
        cstl_vector_clear(&a);
        cstl_vector_clear(&b);
        free(oa);
        free(ob);
    }

    /* comparison callbacks that themselves use other containers */
    {
        static const size_t ns2[] = { 5, 16, 40, 200 };
        size_t a;

        for (ni = 0; ni < sizeof(ns2) / sizeof(*ns2); ni++) {
            for (a = 0; a < NALGOS; a++) {
                unsigned char * const o = gen_array((int)(a % P_NPATTERNS),
                                                    ns2[ni], 8);
                r_mode = (a & 1) ? R_LCG : R_COUNT;
                vec_load(&g_v8, o, ns2[ni], 8);
                vec_check_ops(&g_v8, o, 8, ALGOS[a], 1);
                cstl_vector_clear(&g_v8);
                free(o);
            }
        }
    }
    r_mode = R_LCG;
}

/* ------------------------------------------------------------------ */
/* work done from inside a comparison callback on other objects        */

static DECLARE_CSTL_VECTOR(g_inner, uint16_t);

static void nested_work(void)
{
    static int depth;
    static unsigned long calls;
    struct ctx ic;
    unsigned char in[9 * 2], probe[2];
    uint32_t raw[7], rtmp;
    unsigned char rorig[sizeof(raw)];
    size_t n, i;

    if (depth > 0) {
        return;
    }
    depth++;
    calls++;

    /* a small vector of another element type */
    n = calls % 10;
    for (i = 0; i < n; i++) {
        in[2 * i] = (unsigned char)(trand() % 4 * 2 + 1);
        in[2 * i + 1] = (unsigned char)(i + 1);
    }
    cstl_vector_resize(&g_inner, n);
    for (i = 0; i < n; i++) {
        memcpy(cstl_vector_at(&g_inner, i), in + 2 * i, 2);
    }
    memset(&ic, 0, sizeof(ic));
    ic.S = 2;
    ic.scale = 1;
    ic.arr = cstl_vector_data(&g_inner);
    ic.n = n;
    __cstl_vector_sort(&g_inner, cmp_keys, &ic, cstl_swap,
                       (cstl_sort_algorithm_t)ALGOS[calls % NALGOS]);
    CHECK(n == 0 || is_sorted(cstl_vector_data(&g_inner), n, 2),
          "nested vector not sorted");
    CHECK(n == 0 || is_permutation(cstl_vector_data(&g_inner), in, n, 2),
          "nested vector not a permutation");
    probe[0] = (unsigned char)(calls % 9);
    probe[1] = 0;
    ic.probe = probe;
    {
        const ssize_t s = cstl_vector_search(&g_inner, probe, cmp_keys, &ic);
        const ssize_t e = first_index(in, n, 2, probe[0]);
        CHECK((e < 0 && s == -1)
              || (e >= 0 && s >= 0 && (size_t)s < n
                  && key_of(cstl_vector_at(&g_inner, (size_t)s), 2)
                  == probe[0]),
              "nested vector search");
    }
    if (calls % 13 == 0) {
        cstl_vector_clear(&g_inner);
    }

    /* and a raw array of yet another type */
    n = sizeof(raw) / sizeof(*raw);
    for (i = 0; i < n; i++) {
        raw[i] = trand() % 5;
    }
    memcpy(rorig, raw, sizeof(raw));
    memset(&ic, 0, sizeof(ic));
    ic.S = 4;
    ic.scale = 3;
    ic.arr = (const unsigned char *)raw;
    ic.n = n;
    ic.tmp = (const unsigned char *)&rtmp;
    ic.strict = 1;
    cstl_raw_array_sort(raw, n, sizeof(*raw), cmp_keys, &ic,
                        cstl_swap, &rtmp,
                        (cstl_sort_algorithm_t)ALGOS[(calls / 3) % NALGOS]);
    CHECK(is_sorted((unsigned char *)raw, n, 4), "nested raw not sorted");
    CHECK(is_permutation((unsigned char *)raw, rorig, n, 4),
          "nested raw not a permutation");

    depth--;
}

/* ------------------------------------------------------------------ */

int main(void)
{
    static const size_t all[] = { 1, 2, 4, 8, 3, 5, 12, 16, 24 };
    static const size_t few[] = { 1, 4, 12 };
    static const size_t mix[] = { 1, 2, 8, 24 };
    struct raw r;

    raw_create(&r, 70000 * 12 + 64);

#define SECTION(CALL)                                                   \
    do {                                                                \
        const clock_t t0 = clock();                                     \
        CALL;                                                           \
        printf("  %-58s %6.2fs\n", #CALL,                               \
               (double)(clock() - t0) / CLOCKS_PER_SEC);                \
    } while (0)

    SECTION(exhaustive_raw(&r, 3, 7, all, sizeof(all) / sizeof(*all)));
    SECTION(exhaustive_raw(&r, 2, 11, few, sizeof(few) / sizeof(*few)));
    SECTION(exhaustive_raw(&r, 4, 6, mix, sizeof(mix) / sizeof(*mix)));
    SECTION(exhaustive_raw(&r, 5, 5, few, sizeof(few) / sizeof(*few)));
    SECTION(scripted_pivots(&r));
    SECTION(medium_raw(&r));
    SECTION(reverse_raw(&r));
    SECTION(large_raw(&r));
    SECTION(vector_tests());

    cstl_vector_clear(&g_inner);
    raw_destroy(&r);

    printf("C11: %lu checks, %lu failures, %lu cases, %lu rand() calls\n",
           n_checks, n_fail, case_no, r_calls);
    return n_fail ? 1 : 0;
}
