/*
 * C02: red-black trees satisfy the red-black rules after every insert
 * and erase.
 *
 * Only the public API is used. The colours are private, so the rules are
 * checked through what the API exposes:
 *
 *  - cstl_rbtree_foreach() reports every element with PRE/MID/POST/LEAF
 *    visits; from that stream the exact shape of the tree is rebuilt
 *    (which child is left, which is right), and a small dynamic programme
 *    decides whether ANY red-black colouring of that shape exists with a
 *    black root, no red node with a red child, and the same number of
 *    black nodes on every path to a missing child. A tree that obeys the
 *    rules necessarily has such a shape.
 *  - cstl_rbtree_height() (which walks the parent links up from every
 *    leaf) must agree with the leaf depths of the rebuilt shape (which
 *    come from the child links), max <= 2*log2(n+1) exactly, and
 *    max <= 2*min.
 *  - forward and reverse walks must describe the same shape, visit every
 *    held element exactly once, in sorted order.
 *  - size, find (present and absent keys) and the value returned by erase
 *    are checked against a model.
 *
 * Histories: exhaustive depth-first exploration of every sequence of
 * inserts (plain and hinted) and erases over a few keys (duplicates
 * included), every insertion order crossed with every erase order for
 * small n, patterned fills, long seeded random histories with heavy
 * duplication on larger trees, several trees of different element types
 * interleaved, a comparison callback that itself searches another tree,
 * static initialisers, swap and clear.
 */

#include "cstl/rbtree.h"
#include "cstl/map.h"

#include <stdio.h>
#include <stdlib.h>
#include <string.h>
#include <stdint.h>
#include <stdarg.h>

static const char * g_ctx = "";
static unsigned long g_verifies;
static uint64_t g_digest;   /* informational: digest of every shape seen */

static void fail(const char * const fmt, ...)
{
    va_list ap;
    va_start(ap, fmt);
    fprintf(stderr, "FAIL [%s]: ", g_ctx);
    vfprintf(stderr, fmt, ap);
    fprintf(stderr, "\n");
    va_end(ap);
    exit(1);
}

/* simple deterministic generator */
static uint64_t g_rng = 88172645463325252ull;
static uint32_t rnd(void)
{
    g_rng ^= g_rng << 13;
    g_rng ^= g_rng >> 7;
    g_rng ^= g_rng << 17;
    return (uint32_t)(g_rng >> 11);
}

struct item
{
    char lead[3];
    int key;
    unsigned id;
    struct cstl_rbtree_node node;
    int in_tree;
    unsigned seen;
};

static unsigned long g_cmps;

static int item_cmp(const void * const a, const void * const b, void * const p)
{
    const struct item * const x = a, * const y = b;
    if (p != NULL) {
        (*(unsigned long *)p)++;
    }
    g_cmps++;
    return (x->key > y->key) - (x->key < y->key);
}

/* ------------------------------------------------------------------ */
/* shape reconstruction from the visit stream                          */

#define MAXDEPTH 200

struct frame
{
    const struct item * it;
    int mid;
    int have[2];
    uint64_t fb[2], fr[2], hs[2];
};

struct walk
{
    struct frame st[MAXDEPTH];
    int sp;
    int rev;
    unsigned stamp;

    size_t count;
    int have_last, last;

    size_t leafmin, leafmax;

    int root_done;
    uint64_t root_fb, root_fr, root_hs;
};

static uint64_t mix(uint64_t x)
{
    x ^= x >> 33;
    x *= 0xff51afd7ed558ccdull;
    x ^= x >> 33;
    x *= 0xc4ceb9fe1a85ec53ull;
    x ^= x >> 33;
    return x;
}

#define NULL_HASH 0x9e3779b97f4a7c15ull

static void deliver(struct walk * const w,
                    const uint64_t fb, const uint64_t fr, const uint64_t hs)
{
    if (w->sp == 0) {
        if (w->root_done) {
            fail("walk: more than one root subtree reported");
        }
        w->root_done = 1;
        w->root_fb = fb;
        w->root_fr = fr;
        w->root_hs = hs;
    } else {
        struct frame * const f = &w->st[w->sp - 1];
        const int slot = f->mid ? 1 : 0;
        if (f->have[slot]) {
            fail("walk: two subtrees on the same side of id %u", f->it->id);
        }
        f->have[slot] = 1;
        f->fb[slot] = fb;
        f->fr[slot] = fr;
        f->hs[slot] = hs;
    }
}

static void visit_inorder(struct walk * const w, const struct item * const it)
{
    if (!it->in_tree) {
        fail("walk: visited id %u which is not held", it->id);
    }
    if (it->seen == w->stamp) {
        fail("walk: id %u visited twice", it->id);
    }
    ((struct item *)it)->seen = w->stamp;

    if (w->have_last) {
        if (!w->rev && it->key < w->last) {
            fail("walk: forward order broken %d after %d", it->key, w->last);
        }
        if (w->rev && it->key > w->last) {
            fail("walk: reverse order broken %d after %d", it->key, w->last);
        }
    }
    w->have_last = 1;
    w->last = it->key;
    w->count++;
}

static int walk_visit(const void * const e,
                      const cstl_bintree_visit_order_t ord, void * const p)
{
    struct walk * const w = p;
    const struct item * const it = e;

    switch (ord) {
    case CSTL_BINTREE_VISIT_ORDER_PRE:
        if (w->sp >= MAXDEPTH) {
            fail("walk: deeper than %d", MAXDEPTH);
        }
        memset(&w->st[w->sp], 0, sizeof(w->st[w->sp]));
        w->st[w->sp].it = it;
        w->sp++;
        break;
    case CSTL_BINTREE_VISIT_ORDER_MID:
        if (w->sp == 0 || w->st[w->sp - 1].it != it
            || w->st[w->sp - 1].mid) {
            fail("walk: unexpected MID for id %u", it->id);
        }
        w->st[w->sp - 1].mid = 1;
        visit_inorder(w, it);
        break;
    case CSTL_BINTREE_VISIT_ORDER_POST: {
        struct frame f;
        uint64_t cb[2], cr[2], ch[2], fb, fr, hs;
        int i;

        if (w->sp == 0 || w->st[w->sp - 1].it != it
            || !w->st[w->sp - 1].mid) {
            fail("walk: unexpected POST for id %u", it->id);
        }
        f = w->st[--w->sp];
        if (!f.have[0] && !f.have[1]) {
            fail("walk: childless id %u reported as non-leaf", it->id);
        }
        for (i = 0; i < 2; i++) {
            /* a missing child is black and has black height 0 */
            cb[i] = f.have[i] ? f.fb[i] : 1;
            cr[i] = f.have[i] ? f.fr[i] : 0;
            ch[i] = f.have[i] ? f.hs[i] : NULL_HASH;
        }
        fr = cb[0] & cb[1];
        fb = ((cb[0] | cr[0]) & (cb[1] | cr[1])) << 1;
        if (w->rev) {
            /* first subtree seen in a reverse walk is the right one */
            hs = mix(it->id * 0x100000001b3ull
                     ^ mix(ch[1] + 1) ^ mix(ch[0] + 2) * 3);
        } else {
            hs = mix(it->id * 0x100000001b3ull
                     ^ mix(ch[0] + 1) ^ mix(ch[1] + 2) * 3);
        }
        deliver(w, fb, fr, hs);
        break;
    }
    case CSTL_BINTREE_VISIT_ORDER_LEAF: {
        const size_t d = (size_t)w->sp + 1;
        visit_inorder(w, it);
        if (d < w->leafmin) {
            w->leafmin = d;
        }
        if (d > w->leafmax) {
            w->leafmax = d;
        }
        deliver(w, 2, 1,
                mix(it->id * 0x100000001b3ull
                    ^ mix(NULL_HASH + 1) ^ mix(NULL_HASH + 2) * 3));
        break;
    }
    default:
        fail("walk: bad visit order %d", (int)ord);
    }
    return 0;
}

static unsigned g_stamp;

static void do_walk(const struct cstl_rbtree * const t, struct walk * const w,
                    const int rev)
{
    int res;

    w->sp = 0;
    w->rev = rev;
    w->stamp = ++g_stamp;
    w->count = 0;
    w->have_last = 0;
    w->leafmin = SIZE_MAX;
    w->leafmax = 0;
    w->root_done = 0;
    w->root_fb = w->root_fr = 0;
    w->root_hs = NULL_HASH;

    res = cstl_rbtree_foreach(
        t, walk_visit, w,
        rev ? CSTL_BINTREE_FOREACH_DIR_REV : CSTL_BINTREE_FOREACH_DIR_FWD);
    if (res != 0) {
        fail("foreach returned %d", res);
    }
    if (w->sp != 0) {
        fail("walk: %d unfinished nodes", w->sp);
    }
}

struct stopper
{
    size_t left;
};

static int stop_visit(const void * const e,
                      const cstl_bintree_visit_order_t ord, void * const p)
{
    struct stopper * const s = p;
    (void)e;
    (void)ord;
    if (s->left == 0) {
        return 42;
    }
    s->left--;
    return 0;
}

/*
 * full check of a tree against the number of held elements. the
 * elements themselves carry in_tree flags maintained by the callers
 */
static struct walk g_fw, g_rw;

static void verify(const struct cstl_rbtree * const t, const size_t n)
{
    size_t min, max;

    g_verifies++;

    if (cstl_rbtree_size(t) != n) {
        fail("size %lu, expected %lu",
             (unsigned long)cstl_rbtree_size(t), (unsigned long)n);
    }

    min = 12345;
    max = 54321;
    cstl_rbtree_height(t, &min, &max);

    do_walk(t, &g_fw, 0);
    do_walk(t, &g_rw, 1);

    if (g_fw.count != n || g_rw.count != n) {
        fail("walks saw %lu/%lu elements, expected %lu",
             (unsigned long)g_fw.count, (unsigned long)g_rw.count,
             (unsigned long)n);
    }

    if (n == 0) {
        struct stopper s;
        if (min != 0 || max != 0) {
            fail("empty tree height %lu/%lu",
                 (unsigned long)min, (unsigned long)max);
        }
        if (g_fw.root_done || g_rw.root_done) {
            fail("empty tree reported nodes");
        }
        s.left = 0;
        if (cstl_rbtree_foreach(t, stop_visit, &s,
                                CSTL_BINTREE_FOREACH_DIR_FWD) != 0) {
            fail("foreach on empty tree called visit");
        }
        return;
    }

    if (!g_fw.root_done || !g_rw.root_done) {
        fail("no root reported");
    }
    g_digest = g_digest * 0x100000001b3ull + g_fw.root_hs;
    if (g_fw.root_hs != g_rw.root_hs) {
        fail("forward and reverse walks describe different shapes");
    }
    if (g_fw.leafmin != g_rw.leafmin || g_fw.leafmax != g_rw.leafmax) {
        fail("forward and reverse walks disagree on depths");
    }

    /* parent links (height) against child links (walk) */
    if (min != g_fw.leafmin || max != g_fw.leafmax) {
        fail("height says %lu/%lu, child links say %lu/%lu (n=%lu)",
             (unsigned long)min, (unsigned long)max,
             (unsigned long)g_fw.leafmin, (unsigned long)g_fw.leafmax,
             (unsigned long)n);
    }

    /* max <= 2*log2(n+1)  <=>  2^max <= (n+1)^2 */
    if (max >= 63
        || ((uint64_t)1 << max) > (uint64_t)(n + 1) * (uint64_t)(n + 1)) {
        fail("height %lu exceeds 2*log2(%lu+1)",
             (unsigned long)max, (unsigned long)n);
    }
    if (max > 2 * min) {
        fail("height max %lu > 2 * min %lu",
             (unsigned long)max, (unsigned long)min);
    }

    /* some red-black colouring with a black root must exist */
    if (g_fw.root_fb == 0) {
        fail("shape admits no red-black colouring (n=%lu, height %lu/%lu)",
             (unsigned long)n, (unsigned long)min, (unsigned long)max);
    }

    /* early termination of a walk */
    {
        struct stopper s;
        s.left = (size_t)(rnd() % n);
        if (cstl_rbtree_foreach(t, stop_visit, &s,
                                (rnd() & 1) ? CSTL_BINTREE_FOREACH_DIR_REV
                                : CSTL_BINTREE_FOREACH_DIR_FWD) != 42) {
            fail("foreach did not propagate the visitor's result");
        }
        if (s.left != 0) {
            fail("foreach stopped early on its own");
        }
    }
}

/* ------------------------------------------------------------------ */
/* a tree with a model                                                 */

struct world
{
    struct cstl_rbtree * t;
    size_t n;
    int * keycount;     /* indexed by key, number of held elements */
    int nkeys;
};

static void w_check_finds(const struct world * const w)
{
    int k;
    for (k = -1; k <= w->nkeys; k++) {
        struct item probe;
        const struct item * f;
        const void * par = &probe;
        memset(&probe, 0x5a, sizeof(probe));
        probe.key = k;
        f = cstl_rbtree_find(w->t, &probe, &par);
        if (k < 0 || k >= w->nkeys || w->keycount[k] == 0) {
            if (f != NULL) {
                fail("find(%d) found something in a tree without it", k);
            }
            if (w->n == 0 && par != NULL) {
                fail("find on empty tree reported a parent");
            }
            if (w->n != 0 && par == NULL) {
                fail("find(%d) miss reported no parent", k);
            }
        } else {
            if (f == NULL) {
                fail("find(%d) missed a held key", k);
            }
            if (f->key != k || !f->in_tree) {
                fail("find(%d) returned key %d in_tree %d",
                     k, f->key, f->in_tree);
            }
        }
        f = cstl_rbtree_find(w->t, &probe, NULL);
        if ((f != NULL) != (k >= 0 && k < w->nkeys && w->keycount[k] > 0)) {
            fail("find(%d) without parent disagrees", k);
        }
    }
}

static void w_insert(struct world * const w, struct item * const it,
                     const int hinted)
{
    void * hint = NULL;

    if (it->in_tree) {
        fail("test bug: double insert");
    }
    if (hinted) {
        const void * par = NULL;
        (void)cstl_rbtree_find(w->t, it, &par);
        hint = (void *)par;
    }
    cstl_rbtree_insert(w->t, it, hint);
    it->in_tree = 1;
    w->keycount[it->key]++;
    w->n++;
}

/* returns the removed element or NULL */
static struct item * w_erase(struct world * const w, const int key)
{
    struct item probe;
    struct item * r;

    memset(&probe, 0xa5, sizeof(probe));
    probe.key = key;
    r = cstl_rbtree_erase(w->t, &probe);
    if (key < 0 || key >= w->nkeys || w->keycount[key] == 0) {
        if (r != NULL) {
            fail("erase(%d) removed something from a tree without it", key);
        }
        return NULL;
    }
    if (r == NULL) {
        fail("erase(%d) removed nothing but the key is held", key);
    }
    if (r == &probe) {
        fail("erase returned the probe");
    }
    if (r->key != key || !r->in_tree) {
        fail("erase(%d) returned key %d in_tree %d", key, r->key, r->in_tree);
    }
    r->in_tree = 0;
    w->keycount[key]--;
    w->n--;
    return r;
}

/* ------------------------------------------------------------------ */
/* 1. exhaustive depth first exploration with in-place snapshots       */

#define DFS_MAXL 14
#define DFS_MAXK 6

struct dfs
{
    struct cstl_rbtree t;
    struct item pool[DFS_MAXL];
    int keycount[DFS_MAXK];
    struct world w;
    int K, L, hints;
    unsigned long nodes;
};

static struct dfs g_dfs;

static void dfs_go(const int depth)
{
    struct dfs * const d = &g_dfs;
    struct cstl_rbtree st;
    struct item spool[DFS_MAXL];
    int skc[DFS_MAXK];
    size_t sn;
    int k, mode;

    if (depth == d->L) {
        return;
    }

    /* in-place snapshot: every byte goes back to the address it came from */
    memcpy(&st, &d->t, sizeof(st));
    memcpy(spool, d->pool, sizeof(spool));
    memcpy(skc, d->keycount, sizeof(skc));
    sn = d->w.n;

    for (k = 0; k < d->K; k++) {
        for (mode = 0; mode < (d->hints ? 3 : 2); mode++) {
            int changed = 1;

            if (mode == 2 && d->w.n == 0) {
                /* a hinted insert into an empty tree is a plain insert */
                continue;
            }

            if (mode == 0 || mode == 2) {
                struct item * const it = &d->pool[depth];
                it->key = k;
                w_insert(&d->w, it, mode == 2);
            } else {
                changed = w_erase(&d->w, k) != NULL;
            }

            d->nodes++;
            verify(&d->t, d->w.n);
            w_check_finds(&d->w);

            if (changed) {
                dfs_go(depth + 1);
            }

            memcpy(&d->t, &st, sizeof(st));
            memcpy(d->pool, spool, sizeof(spool));
            memcpy(d->keycount, skc, sizeof(skc));
            d->w.n = sn;
        }
    }
}

static void dfs_run(const int K, const int L, const int hints,
                    const int use_init)
{
    struct dfs * const d = &g_dfs;
    int i;

    memset(d, 0, sizeof(*d));
    if (use_init) {
        memset(&d->t, 0xa5, sizeof(d->t));
        cstl_rbtree_init(&d->t, item_cmp, NULL, offsetof(struct item, node));
    } else {
        const struct cstl_rbtree init =
            CSTL_RBTREE_INITIALIZER(struct item, node, item_cmp, NULL);
        memcpy(&d->t, &init, sizeof(init));
    }
    for (i = 0; i < DFS_MAXL; i++) {
        memset(&d->pool[i], 0x77, sizeof(d->pool[i]));
        d->pool[i].id = 1000 + i;
        d->pool[i].in_tree = 0;
        d->pool[i].seen = 0;
    }
    d->K = K;
    d->L = L;
    d->hints = hints;
    d->w.t = &d->t;
    d->w.n = 0;
    d->w.keycount = d->keycount;
    d->w.nkeys = K;

    verify(&d->t, 0);
    w_check_finds(&d->w);
    dfs_go(0);
    printf("  dfs K=%d L=%d hints=%d: %lu states\n", K, L, hints, d->nodes);
}

/* ------------------------------------------------------------------ */
/* 2. every insertion order x every erase order                        */

static int next_perm(int * const a, const int n)
{
    int i = n - 2, j = n - 1, t;
    while (i >= 0 && a[i] >= a[i + 1]) {
        i--;
    }
    if (i < 0) {
        return 0;
    }
    while (a[j] <= a[i]) {
        j--;
    }
    t = a[i]; a[i] = a[j]; a[j] = t;
    for (i = i + 1, j = n - 1; i < j; i++, j--) {
        t = a[i]; a[i] = a[j]; a[j] = t;
    }
    return 1;
}

#define PERM_MAX 9

static void perms_run(const int n, const int all_erase_orders, const int dup)
{
    DECLARE_CSTL_RBTREE(t, struct item, node, item_cmp, NULL);
    struct item pool[PERM_MAX];
    int keycount[PERM_MAX];
    struct world w;
    int ins[PERM_MAX], i;
    unsigned long cnt = 0;

    memset(pool, 0, sizeof(pool));
    memset(keycount, 0, sizeof(keycount));
    w.t = &t;
    w.n = 0;
    w.keycount = keycount;
    w.nkeys = n;

    for (i = 0; i < n; i++) {
        /* with dup, keys come in pairs */
        ins[i] = dup ? i / 2 : i;
        pool[i].id = 2000 + i;
    }

    do {
        struct cstl_rbtree st;
        struct item spool[PERM_MAX];
        int skc[PERM_MAX];
        int ers[PERM_MAX];
        int round;

        for (i = 0; i < n; i++) {
            pool[i].key = ins[i];
            w_insert(&w, &pool[i], i & 1);
            verify(&t, w.n);
        }
        w_check_finds(&w);

        memcpy(&st, &t, sizeof(st));
        memcpy(spool, pool, sizeof(spool));
        memcpy(skc, keycount, sizeof(skc));

        for (i = 0; i < n; i++) {
            ers[i] = dup ? i / 2 : i;
        }
        round = 0;
        do {
            if (!all_erase_orders) {
                /* a few fixed orders and some random ones */
                int j;
                if (round == 0) {
                    for (i = 0; i < n; i++) ers[i] = dup ? i / 2 : i;
                } else if (round == 1) {
                    for (i = 0; i < n; i++) {
                        ers[i] = dup ? (n - 1 - i) / 2 : n - 1 - i;
                    }
                } else {
                    for (i = n - 1; i > 0; i--) {
                        int tmp;
                        j = (int)(rnd() % (unsigned)(i + 1));
                        tmp = ers[i]; ers[i] = ers[j]; ers[j] = tmp;
                    }
                }
            }

            for (i = 0; i < n; i++) {
                if (w_erase(&w, ers[i]) == NULL) {
                    fail("perm erase lost key %d", ers[i]);
                }
                verify(&t, w.n);
            }
            if (w_erase(&w, 0) != NULL) {
                fail("erase from drained tree");
            }
            cnt++;

            memcpy(&t, &st, sizeof(st));
            memcpy(pool, spool, sizeof(spool));
            memcpy(keycount, skc, sizeof(skc));
            w.n = (size_t)n;
            round++;
        } while (all_erase_orders ? next_perm(ers, n) : round < 5);

        /* drain for the next insertion order */
        for (i = 0; i < n; i++) {
            if (w_erase(&w, pool[i].key) == NULL) {
                fail("drain lost a key");
            }
        }
        verify(&t, 0);
    } while (next_perm(ins, n));

    printf("  perms n=%d dup=%d all=%d: %lu histories\n",
           n, dup, all_erase_orders, cnt);
}

/* ------------------------------------------------------------------ */
/* 3. long random histories and patterned fills on larger trees        */

static void clr_count(void * const e, void * const p)
{
    struct item * const it = e;
    if (!it->in_tree) {
        fail("clear called for an element that is not held (id %u)", it->id);
    }
    it->in_tree = 0;
    (*(size_t *)p)++;
}

static void random_run(const size_t cap, const int nkeys,
                       const unsigned long ops, const unsigned every,
                       const uint64_t seed)
{
    struct cstl_rbtree * const t = malloc(sizeof(*t));
    struct item * const pool = calloc(cap, sizeof(*pool));
    struct item ** const freelist = malloc(cap * sizeof(*freelist));
    int * const keycount = calloc((size_t)nkeys, sizeof(*keycount));
    unsigned long cmps = 0, op;
    size_t nfree = cap, i, cleared;
    struct world w;
    int phase = 0;

    if (!t || !pool || !freelist || !keycount) {
        fail("out of memory in the test itself");
    }

    g_rng = seed;
    memset(t, 0xee, sizeof(*t));
    cstl_rbtree_init(t, item_cmp, &cmps, offsetof(struct item, node));
    for (i = 0; i < cap; i++) {
        pool[i].id = 5000 + (unsigned)i;
        freelist[i] = &pool[i];
    }
    w.t = t;
    w.n = 0;
    w.keycount = keycount;
    w.nkeys = nkeys;

    for (op = 0; op < ops; op++) {
        unsigned r = rnd() % 100;
        int want_insert;

        /* phases bias toward growth, then shrinkage, then churn */
        if ((op % (ops / 6 + 1)) == 0) {
            phase = (phase + 1) % 3;
        }
        want_insert = phase == 0 ? r < 75 : phase == 1 ? r < 25 : r < 50;
        if (nfree == 0) {
            want_insert = 0;
        }

        if (want_insert) {
            struct item * const it = freelist[--nfree];
            it->key = (int)(rnd() % (unsigned)nkeys);
            w_insert(&w, it, (rnd() & 3) == 0);
        } else {
            struct item * const it = w_erase(&w, (int)(rnd() % (unsigned)nkeys));
            if (it != NULL) {
                freelist[nfree++] = it;
            }
        }

        if (w.n <= 24 || (op % every) == 0) {
            verify(t, w.n);
        } else if (w.n <= 256 || (op % 32) == 0) {
            /* cheap check on (nearly) every step */
            size_t min, max;
            cstl_rbtree_height(t, &min, &max);
            if (max >= 63 || ((uint64_t)1 << max)
                > (uint64_t)(w.n + 1) * (uint64_t)(w.n + 1)
                || max > 2 * min) {
                fail("height %lu/%lu out of bounds for n=%lu",
                     (unsigned long)min, (unsigned long)max,
                     (unsigned long)w.n);
            }
        }
        if ((op % (every * 8)) == 0) {
            w_check_finds(&w);
        }
    }

    verify(t, w.n);
    w_check_finds(&w);

    /* logarithmic find: comparisons per find bounded by the height */
    if (w.n > 0) {
        size_t min, max;
        struct item probe;
        cstl_rbtree_height(t, &min, &max);
        for (i = 0; i < 200; i++) {
            unsigned long before = cmps;
            probe.key = (int)(rnd() % (unsigned)nkeys);
            (void)cstl_rbtree_find(t, &probe, NULL);
            if (cmps - before > max) {
                fail("find used %lu comparisons, height is %lu",
                     cmps - before, (unsigned long)max);
            }
        }
    }

    cleared = 0;
    i = w.n;
    cstl_rbtree_clear(t, clr_count, &cleared);
    if (cleared != i) {
        fail("clear visited %lu of %lu", (unsigned long)cleared,
             (unsigned long)i);
    }
    memset(keycount, 0, (size_t)nkeys * sizeof(*keycount));
    w.n = 0;
    verify(t, 0);
    w_check_finds(&w);

    /* the cleared tree is as good as new */
    for (i = 0; i < cap && i < 300; i++) {
        pool[i].key = (int)(i % (unsigned)nkeys);
        w_insert(&w, &pool[i], 0);
        verify(t, w.n);
    }
    while (w.n > 0) {
        int k = (int)(rnd() % (unsigned)nkeys);
        if (w_erase(&w, k) != NULL) {
            verify(t, w.n);
        }
    }

    free(keycount);
    free(freelist);
    free(pool);
    free(t);
}

static int pattern_key(const int pat, const size_t i, const size_t n)
{
    switch (pat) {
    case 0: return (int)i;                              /* ascending */
    case 1: return (int)(n - 1 - i);                    /* descending */
    case 2: return 7;                                   /* all equal */
    case 3: return (int)((i & 1) ? n - 1 - i / 2 : i / 2); /* outside in */
    case 4: return (int)((i & 1) ? n / 2 + i / 2 : n / 2 - i / 2) % (int)n;
    case 5: return (int)(i / 4);                        /* runs of equals */
    case 6: return (int)((i * 7919u) % n);              /* stride */
    default: return (int)(i % 3);                       /* three values */
    }
}

static void pattern_run(const size_t n)
{
    int pat, epat;

    for (pat = 0; pat < 8; pat++) {
        for (epat = 0; epat < 8; epat++) {
            DECLARE_CSTL_RBTREE(t, struct item, node, item_cmp, NULL);
            struct item * const pool = calloc(n, sizeof(*pool));
            int * const keycount = calloc(n + 8, sizeof(*keycount));
            struct world w;
            size_t i;

            w.t = &t;
            w.n = 0;
            w.keycount = keycount;
            w.nkeys = (int)n + 8;

            for (i = 0; i < n; i++) {
                pool[i].id = 9000 + (unsigned)i;
                pool[i].key = pattern_key(pat, i, n);
                w_insert(&w, &pool[i], pat == 6 && (i & 1));
                verify(&t, w.n);
            }
            w_check_finds(&w);
            /* erase the inserted keys in the order of another pattern */
            for (i = 0; i < n; i++) {
                int k = pool[(size_t)pattern_key(epat, i, n) % n].key;
                if (keycount[k] == 0) {
                    /* already gone (duplicated index); take any held key */
                    size_t j;
                    for (j = 0; j < n; j++) {
                        if (pool[j].in_tree) {
                            k = pool[j].key;
                            break;
                        }
                    }
                }
                if (w_erase(&w, k) == NULL) {
                    fail("pattern erase lost key %d", k);
                }
                verify(&t, w.n);
            }
            verify(&t, 0);
            free(keycount);
            free(pool);
        }
    }
}

/* ------------------------------------------------------------------ */
/* 4. several trees, several element types, callbacks using trees      */

struct named
{
    struct cstl_rbtree_node hook;   /* node at offset 0 */
    double weight;
    char name[8];
};

static int named_cmp(const void * const a, const void * const b, void * const p)
{
    const struct named * const x = a, * const y = b;
    (void)p;
    return (x->weight > y->weight) - (x->weight < y->weight);
}

/* rank table held in a tree of its own, searched by the comparison below */
struct rank
{
    unsigned id;
    int rank;
    struct cstl_rbtree_node n;
};

static int rank_cmp(const void * const a, const void * const b, void * const p)
{
    const struct rank * const x = a, * const y = b;
    (void)p;
    return (x->id > y->id) - (x->id < y->id);
}

static int byrank_cmp(const void * const a, const void * const b,
                      void * const p)
{
    const struct cstl_rbtree * const ranks = p;
    const struct item * const x = a, * const y = b;
    struct rank pa, pb;
    const struct rank * ra, * rb;

    pa.id = (unsigned)x->key;
    pb.id = (unsigned)y->key;
    ra = cstl_rbtree_find(ranks, &pa, NULL);
    rb = cstl_rbtree_find(ranks, &pb, NULL);
    if (ra == NULL || rb == NULL) {
        fail("rank table lookup failed");
    }
    return (ra->rank > rb->rank) - (ra->rank < rb->rank);
}

/* a plain shape check for trees whose elements are not struct item */
struct shape
{
    int sp;
    int mid[MAXDEPTH];
    int have[MAXDEPTH][2];
    uint64_t fb[MAXDEPTH][2], fr[MAXDEPTH][2];
    uint64_t root_fb;
    size_t count;
};

static void shape_deliver(struct shape * const s,
                          const uint64_t fb, const uint64_t fr)
{
    if (s->sp == 0) {
        s->root_fb = fb;
    } else {
        const int slot = s->mid[s->sp - 1];
        s->have[s->sp - 1][slot] = 1;
        s->fb[s->sp - 1][slot] = fb;
        s->fr[s->sp - 1][slot] = fr;
    }
}

static int shape_visit(const void * const e,
                       const cstl_bintree_visit_order_t ord, void * const p)
{
    struct shape * const s = p;
    (void)e;
    switch (ord) {
    case CSTL_BINTREE_VISIT_ORDER_PRE:
        s->mid[s->sp] = 0;
        s->have[s->sp][0] = s->have[s->sp][1] = 0;
        s->sp++;
        break;
    case CSTL_BINTREE_VISIT_ORDER_MID:
        s->mid[s->sp - 1] = 1;
        s->count++;
        break;
    case CSTL_BINTREE_VISIT_ORDER_POST: {
        uint64_t cb[2], cr[2];
        int i;
        s->sp--;
        for (i = 0; i < 2; i++) {
            cb[i] = s->have[s->sp][i] ? s->fb[s->sp][i] : 1;
            cr[i] = s->have[s->sp][i] ? s->fr[s->sp][i] : 0;
        }
        shape_deliver(s, ((cb[0] | cr[0]) & (cb[1] | cr[1])) << 1,
                      cb[0] & cb[1]);
        break;
    }
    case CSTL_BINTREE_VISIT_ORDER_LEAF:
        s->count++;
        shape_deliver(s, 2, 1);
        break;
    }
    return 0;
}

static void shape_verify(const struct cstl_rbtree * const t, const size_t n)
{
    static struct shape s;
    size_t min, max;

    s.sp = 0;
    s.count = 0;
    s.root_fb = 0;
    cstl_rbtree_foreach(t, shape_visit, &s, CSTL_BINTREE_FOREACH_DIR_FWD);
    if (cstl_rbtree_size(t) != n || s.count != n) {
        fail("shape: size %lu count %lu expected %lu",
             (unsigned long)cstl_rbtree_size(t), (unsigned long)s.count,
             (unsigned long)n);
    }
    cstl_rbtree_height(t, &min, &max);
    if (n == 0) {
        if (min != 0 || max != 0) {
            fail("shape: empty height");
        }
        return;
    }
    if (s.root_fb == 0) {
        fail("shape: no red-black colouring exists (n=%lu)", (unsigned long)n);
    }
    if (max >= 63 || ((uint64_t)1 << max) > (uint64_t)(n + 1) * (n + 1)
        || max > 2 * min) {
        fail("shape: height %lu/%lu out of bounds for n=%lu",
             (unsigned long)min, (unsigned long)max, (unsigned long)n);
    }
}

static struct cstl_rbtree g_static_tree =
    CSTL_RBTREE_INITIALIZER(struct item, node, item_cmp, NULL);

#define MIX_N 400

static void mixed_run(void)
{
    static struct item items[MIX_N], ritems[MIX_N], sitems[MIX_N];
    static struct named nameds[MIX_N];
    static struct rank ranks[64];
    static int kc_a[64], kc_s[64];

    DECLARE_CSTL_RBTREE(ta, struct item, node, item_cmp, NULL);
    DECLARE_CSTL_RBTREE(tn, struct named, hook, named_cmp, NULL);
    DECLARE_CSTL_RBTREE(tr, struct rank, n, rank_cmp, NULL);
    struct cstl_rbtree tb;      /* ordered by rank, via another tree */
    struct world wa, ws;
    size_t nn = 0, nb = 0;
    int i;

    /* the rank table: key k has rank (k * 37) % 64, a permutation */
    for (i = 0; i < 64; i++) {
        ranks[i].id = (unsigned)i;
        ranks[i].rank = (i * 37) % 64;
        cstl_rbtree_insert(&tr, &ranks[i], NULL);
        shape_verify(&tr, (size_t)i + 1);
    }

    cstl_rbtree_init(&tb, byrank_cmp, &tr, offsetof(struct item, node));

    memset(kc_a, 0, sizeof(kc_a));
    memset(kc_s, 0, sizeof(kc_s));
    wa.t = &ta; wa.n = 0; wa.keycount = kc_a; wa.nkeys = 64;
    ws.t = &g_static_tree; ws.n = 0; ws.keycount = kc_s; ws.nkeys = 64;

    verify(&g_static_tree, 0);

    for (i = 0; i < MIX_N; i++) {
        items[i].id = 20000 + (unsigned)i;
        items[i].key = (int)(rnd() % 64);
        w_insert(&wa, &items[i], i & 1);

        sitems[i].id = 30000 + (unsigned)i;
        sitems[i].key = (int)(rnd() % 5);
        w_insert(&ws, &sitems[i], 0);

        nameds[i].weight = (double)(rnd() % 50) / 4.0;
        cstl_rbtree_insert(&tn, &nameds[i], NULL);
        nn++;

        ritems[i].id = 40000 + (unsigned)i;
        ritems[i].key = (int)(rnd() % 64);
        cstl_rbtree_insert(&tb, &ritems[i], NULL);
        nb++;

        verify(&ta, wa.n);
        verify(&g_static_tree, ws.n);
        shape_verify(&tn, nn);
        shape_verify(&tb, nb);
        shape_verify(&tr, 64);

        if ((i % 3) == 2) {
            struct named np;
            struct item ip;
            (void)w_erase(&wa, (int)(rnd() % 64));
            (void)w_erase(&ws, (int)(rnd() % 5));
            np.weight = (double)(rnd() % 50) / 4.0;
            if (cstl_rbtree_erase(&tn, &np) != NULL) {
                nn--;
            }
            ip.key = (int)(rnd() % 64);
            if (cstl_rbtree_erase(&tb, &ip) != NULL) {
                nb--;
            }
            verify(&ta, wa.n);
            verify(&g_static_tree, ws.n);
            shape_verify(&tn, nn);
            shape_verify(&tb, nb);
        }
    }

    /* the rank ordered tree walks in rank order */
    {
        struct item ip;
        int k;
        for (k = 0; k < 64; k++) {
            const struct item * f;
            ip.key = k;
            f = cstl_rbtree_find(&tb, &ip, NULL);
            if (f != NULL && f->key != k) {
                fail("rank tree find(%d) returned %d", k, f->key);
            }
        }
    }

    /* swap: contents and behaviour travel with the object */
    {
        struct world * pa = &wa, * ps = &ws;
        struct cstl_rbtree empty;
        size_t na = wa.n, nsz = ws.n;
        int round;

        cstl_rbtree_swap(&ta, &g_static_tree);
        wa.t = &g_static_tree;
        ws.t = &ta;
        verify(&g_static_tree, na);
        verify(&ta, nsz);
        w_check_finds(pa);
        w_check_finds(ps);

        for (round = 0; round < 300; round++) {
            (void)w_erase(pa, (int)(rnd() % 64));
            verify(pa->t, pa->n);
            (void)w_erase(ps, (int)(rnd() % 5));
            verify(ps->t, ps->n);
            if (round < MIX_N && !items[round].in_tree) {
                items[round].key = (round & 1) ? 63 - (round % 64) : round % 64;
                w_insert(pa, &items[round], 0);
                verify(pa->t, pa->n);
            }
        }

        /* swap with an empty tree, and back */
        cstl_rbtree_init(&empty, item_cmp, NULL, offsetof(struct item, node));
        na = pa->n;
        cstl_rbtree_swap(pa->t, &empty);
        verify(pa->t, 0);
        verify(&empty, na);
        {
            /* the emptied object accepts elements again */
            static struct item extra[40];
            static int kce[64];
            struct world we;
            int j;
            we.t = pa->t; we.n = 0; we.keycount = kce; we.nkeys = 64;
            memset(kce, 0, sizeof(kce));
            for (j = 0; j < 40; j++) {
                extra[j].id = 60000 + (unsigned)j;
                extra[j].in_tree = 0;
                extra[j].key = j % 7;
                w_insert(&we, &extra[j], 0);
                verify(we.t, we.n);
            }
            while (we.n > 0) {
                if (w_erase(&we, (int)(rnd() % 7)) != NULL) {
                    verify(we.t, we.n);
                }
            }
        }
        cstl_rbtree_swap(&empty, pa->t);
        verify(pa->t, na);
        verify(&empty, 0);
        w_check_finds(pa);

        while (pa->n > 0) {
            if (w_erase(pa, (int)(rnd() % 64)) != NULL) {
                verify(pa->t, pa->n);
            }
        }
        while (ps->n > 0) {
            if (w_erase(ps, (int)(rnd() % 5)) != NULL) {
                verify(ps->t, ps->n);
            }
        }
    }

    /* drain the others */
    while (nn > 0) {
        struct named np;
        np.weight = (double)(rnd() % 50) / 4.0;
        if (cstl_rbtree_erase(&tn, &np) != NULL) {
            nn--;
            shape_verify(&tn, nn);
        }
    }
    while (nb > 0) {
        struct item ip;
        ip.key = (int)(rnd() % 64);
        if (cstl_rbtree_erase(&tb, &ip) != NULL) {
            nb--;
            shape_verify(&tb, nb);
        }
    }
    for (i = 0; i < 64; i++) {
        struct rank rp;
        rp.id = (unsigned)((i * 11) % 64);
        if (cstl_rbtree_erase(&tr, &rp) == NULL) {
            fail("rank erase lost id %u", rp.id);
        }
        shape_verify(&tr, (size_t)(63 - i));
    }
}

/* ------------------------------------------------------------------ */
/* 5. the map sits on the same tree                                    */

static int int_key_cmp(const void * const a, const void * const b,
                       void * const p)
{
    (void)p;
    return (*(const int *)a > *(const int *)b)
        - (*(const int *)a < *(const int *)b);
}

static void map_run(void)
{
    static int keys[600], vals[600];
    static char held[600];
    cstl_map_t m;
    size_t n = 0;
    int i;

    cstl_map_init(&m, int_key_cmp, NULL);
    for (i = 0; i < 600; i++) {
        keys[i] = i;
        vals[i] = -i;
    }
    for (i = 0; i < 6000; i++) {
        const int k = (int)(rnd() % 600);
        cstl_map_iterator_t it;
        if (rnd() & 1) {
            const int r = cstl_map_insert(&m, &keys[k], &vals[k], &it);
            if (r != (held[k] ? 1 : 0)) {
                fail("map insert(%d) returned %d", k, r);
            }
            if (!held[k]) {
                held[k] = 1;
                n++;
            }
            if (it.key != &keys[k] || it.val != &vals[k]) {
                fail("map insert iterator wrong");
            }
        } else {
            const int r = cstl_map_erase(&m, &keys[k], &it);
            if (r != (held[k] ? 0 : -1)) {
                fail("map erase(%d) returned %d", k, r);
            }
            if (held[k]) {
                held[k] = 0;
                n--;
            }
        }
        if (cstl_map_size(&m) != n) {
            fail("map size");
        }
        if ((i % 64) == 0) {
            int j;
            for (j = 0; j < 600; j++) {
                cstl_map_find(&m, &keys[j], &it);
                if (cstl_map_iterator_eq(&it, cstl_map_iterator_end(&m))
                    != !held[j]) {
                    fail("map find(%d) disagrees with the model", j);
                }
            }
        }
    }
    cstl_map_clear(&m, NULL, NULL);
    if (cstl_map_size(&m) != 0) {
        fail("map clear");
    }
}

/* ------------------------------------------------------------------ */
/* 6. work at the two ends of the order, across swap and clear         */

#define ENDS_N 512
#define ENDS_KEYS 4096

static void ends_run(void)
{
    static struct item pool[ENDS_N];
    static int kc[2][ENDS_KEYS];
    struct cstl_rbtree * const ta = malloc(sizeof(*ta));
    DECLARE_CSTL_RBTREE(tb, struct item, node, item_cmp, NULL);
    struct world wa, wb, * w[2];
    struct item * freelist[ENDS_N];
    size_t nfree = 0;
    int lo[2], hi[2];
    int i, step;

    memset(ta, 0x3c, sizeof(*ta));
    cstl_rbtree_init(ta, item_cmp, NULL, offsetof(struct item, node));
    memset(kc, 0, sizeof(kc));
    wa.t = ta; wa.n = 0; wa.keycount = kc[0]; wa.nkeys = ENDS_KEYS;
    wb.t = &tb; wb.n = 0; wb.keycount = kc[1]; wb.nkeys = ENDS_KEYS;
    w[0] = &wa;
    w[1] = &wb;
    lo[0] = lo[1] = ENDS_KEYS / 2;
    hi[0] = hi[1] = ENDS_KEYS / 2;

    for (i = 0; i < ENDS_N; i++) {
        memset(&pool[i], 0, sizeof(pool[i]));
        pool[i].id = 70000 + (unsigned)i;
        freelist[nfree++] = &pool[i];
    }

    for (step = 0; step < 40000; step++) {
        const int s = (int)(rnd() & 1);
        struct world * const ww = w[s];
        const unsigned r = rnd() % 16;

        /* lo/hi track the least and greatest held key of each tree */
        if (ww->n == 0) {
            lo[s] = hi[s] = ENDS_KEYS / 2;
        }

        if (r < 7 && nfree > 0) {
            /* insert at, just inside, or beyond one of the ends */
            struct item * const it = freelist[--nfree];
            int k;
            switch (rnd() % 6) {
            case 0: k = lo[s] - 1; break;
            case 1: k = hi[s] + 1; break;
            case 2: k = lo[s]; break;
            case 3: k = hi[s]; break;
            case 4: k = lo[s] + 1; break;
            default: k = hi[s] - 1; break;
            }
            if (k < 1) k = 1;
            if (k > ENDS_KEYS - 2) k = ENDS_KEYS - 2;
            it->key = k;
            w_insert(ww, it, (rnd() & 7) == 0);
            if (ww->n == 1 || k < lo[s]) lo[s] = k;
            if (ww->n == 1 || k > hi[s]) hi[s] = k;
        } else if (r < 13) {
            /* erase at one of the ends, or just inside */
            int k;
            struct item * it;
            switch (rnd() % 4) {
            case 0: k = lo[s]; break;
            case 1: k = hi[s]; break;
            case 2: k = lo[s] + 1; break;
            default: k = hi[s] - 1; break;
            }
            if (k < 0) k = 0;
            if (k > ENDS_KEYS - 1) k = ENDS_KEYS - 1;
            it = w_erase(ww, k);
            if (it != NULL) {
                freelist[nfree++] = it;
                while (ww->n > 0 && ww->keycount[lo[s]] == 0) lo[s]++;
                while (ww->n > 0 && ww->keycount[hi[s]] == 0) hi[s]--;
            }
        } else if (r == 13) {
            int tmp;
            cstl_rbtree_swap(wa.t, wb.t);
            /* the objects stay, the contents (and the models) move */
            {
                struct world tw = wa;
                wa.n = wb.n; wa.keycount = wb.keycount;
                wb.n = tw.n; wb.keycount = tw.keycount;
            }
            tmp = lo[0]; lo[0] = lo[1]; lo[1] = tmp;
            tmp = hi[0]; hi[0] = hi[1]; hi[1] = tmp;
            verify(wa.t, wa.n);
            verify(wb.t, wb.n);
        } else if (r == 14 && (rnd() % 8) == 0) {
            size_t cleared = 0, had = ww->n;
            cstl_rbtree_clear(ww->t, clr_count, &cleared);
            if (cleared != had) {
                fail("ends: clear visited %lu of %lu",
                     (unsigned long)cleared, (unsigned long)had);
            }
            for (i = 0; i < ENDS_N; i++) {
                /* whatever is neither held nor free was just cleared */
                size_t j;
                int isfree = 0;
                if (pool[i].in_tree) {
                    continue;
                }
                for (j = 0; j < nfree; j++) {
                    if (freelist[j] == &pool[i]) {
                        isfree = 1;
                        break;
                    }
                }
                if (!isfree) {
                    freelist[nfree++] = &pool[i];
                }
            }
            memset(ww->keycount, 0, ENDS_KEYS * sizeof(int));
            ww->n = 0;
        }

        verify(ww->t, ww->n);
        if ((step % 97) == 0) {
            w_check_finds(&wa);
            w_check_finds(&wb);
        }
    }

    {
        size_t cleared = 0;
        cstl_rbtree_clear(wa.t, clr_count, &cleared);
        cstl_rbtree_clear(wb.t, clr_count, &cleared);
        verify(wa.t, 0);
        verify(wb.t, 0);
    }
    free(ta);
}

/* ------------------------------------------------------------------ */

int main(void)
{
    g_ctx = "boundary";
    {
        DECLARE_CSTL_RBTREE(t, struct item, node, item_cmp, NULL);
        struct item one, probe;
        int kc[2] = { 0, 0 };
        struct world w;

        memset(&one, 0, sizeof(one));
        one.id = 1;
        w.t = &t; w.n = 0; w.keycount = kc; w.nkeys = 2;

        verify(&t, 0);
        probe.key = 0;
        if (cstl_rbtree_erase(&t, &probe) != NULL) {
            fail("erase on an empty tree");
        }
        one.key = 1;
        w_insert(&w, &one, 0);
        verify(&t, 1);
        w_check_finds(&w);
        if (w_erase(&w, 0) != NULL) {
            fail("erase of an absent key");
        }
        verify(&t, 1);
        if (w_erase(&w, 1) != &one) {
            fail("erase of the only element");
        }
        verify(&t, 0);
        w_check_finds(&w);
        /* again, the emptied tree must be usable */
        w_insert(&w, &one, 1);
        verify(&t, 1);
        if (w_erase(&w, 1) != &one) {
            fail("erase of the only element, second time");
        }
        verify(&t, 0);
    }

    g_ctx = "dfs";
    dfs_run(2, 13, 0, 0);
    dfs_run(3, 10, 0, 1);
    dfs_run(4, 8, 0, 0);
    dfs_run(3, 7, 1, 1);
    dfs_run(5, 7, 0, 0);

    g_ctx = "perms";
    {
        int n;
        for (n = 1; n <= 6; n++) {
            perms_run(n, 1, 0);
        }
        perms_run(6, 1, 1);
        perms_run(7, 0, 0);
        perms_run(8, 0, 0);
        perms_run(8, 0, 1);
    }

    g_ctx = "patterns";
    pattern_run(1);
    pattern_run(2);
    pattern_run(3);
    pattern_run(17);
    pattern_run(64);
    pattern_run(255);

    g_ctx = "random";
    random_run(64, 4, 60000, 1, 1);
    random_run(300, 16, 60000, 7, 2);
    random_run(300, 1, 20000, 7, 3);
    random_run(2000, 40, 150000, 211, 4);
    random_run(2000, 2000, 100000, 211, 5);
    random_run(6000, 97, 200000, 1009, 6);

    g_ctx = "mixed";
    mixed_run();

    g_ctx = "ends";
    ends_run();

    g_ctx = "map";
    map_run();

    printf("C02 ok: %lu full verifications, %lu comparisons, "
           "shape digest %016llx\n",
           g_verifies, g_cmps, (unsigned long long)g_digest);
    return 0;
}
