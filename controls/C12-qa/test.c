/*
 * C12: a doubly-linked list equals a reference sequence in both directions.
 * Model-based test through the public API of cstl/dlist.h only (no private
 * field is read): up to three lists are driven by exhaustive short operation
 * sequences (from every combination of initial lengths 0..5) and by seeded
 * random long sequences, and after every operation each list is compared
 * with a reference array by a forward and a backward cstl_dlist_foreach(),
 * front/back/size, find in both directions, early-stopping foreach and
 * foreach that removes the visited element.
 */
#include <stdio.h>
#include <stdlib.h>
#include <string.h>
#include <stddef.h>

#include "cstl/dlist.h"

#define NL 3
#define POOL 4096
#define MAXLEN 1024

struct item
{
    long pad0;
    int key, id;
    struct cstl_dlist_node node;
    long pad1;
};

static struct item pool[POOL];
static int npool;

static struct cstl_dlist L[NL];
static struct item * R[NL][MAXLEN];
static size_t RN[NL];

static int fails;
static const char * ctx = "";
#define CHECK(c, msg) do { if (!(c)) { if (fails++ < 25) \
    fprintf(stderr, "FAIL %s:%d [%s]: %s\n", __FILE__, __LINE__, ctx, msg); \
    } } while (0)

static int cmp_key(const void * a, const void * b, void * p)
{
    (void)p;
    return ((const struct item *)a)->key - ((const struct item *)b)->key;
}

static struct item * new_item(void)
{
    struct item * it;
    if (npool == POOL) { npool = 0; }
    it = &pool[npool];
    it->id = npool;
    it->key = (npool * 7 + npool / 5) % 4;
    npool++;
    return it;
}

struct walk { struct item * seen[MAXLEN + 8]; size_t n; size_t stop_at; int rm; struct cstl_dlist * l; };

static int visit_collect(void * e, void * p)
{
    struct walk * w = p;
    if (w->n < MAXLEN + 8) { w->seen[w->n] = e; }
    w->n++;
    if (w->rm) { cstl_dlist_erase(w->l, e); }
    if (w->stop_at != 0 && w->n == w->stop_at) { return 40 + (int)w->stop_at; }
    return 0;
}

static void check_list(int k)
{
    static struct walk w;
    struct cstl_dlist * l = &L[k];
    const size_t n = RN[k];
    size_t i;
    int r;

    CHECK(cstl_dlist_size(l) == n, "size");
    CHECK(cstl_dlist_front(l) == (n ? (void *)R[k][0] : NULL), "front");
    CHECK(cstl_dlist_back(l) == (n ? (void *)R[k][n - 1] : NULL), "back");

    memset(&w, 0, sizeof(w)); w.l = l;
    r = cstl_dlist_foreach(l, visit_collect, &w, CSTL_DLIST_FOREACH_DIR_FWD);
    CHECK(r == 0 && w.n == n, "fwd count");
    for (i = 0; i < n && i < w.n; i++) { CHECK(w.seen[i] == R[k][i], "fwd order"); }

    memset(&w, 0, sizeof(w)); w.l = l;
    r = cstl_dlist_foreach(l, visit_collect, &w, CSTL_DLIST_FOREACH_DIR_REV);
    CHECK(r == 0 && w.n == n, "rev count");
    for (i = 0; i < n && i < w.n; i++) { CHECK(w.seen[i] == R[k][n - 1 - i], "rev order"); }
}

static void check_all(void)
{
    int k;
    for (k = 0; k < NL; k++) { check_list(k); }
}

/* deeper checks: find in both directions, early stop, removal while visiting */
static void check_deep(int k)
{
    static struct walk w;
    struct cstl_dlist * l = &L[k];
    const size_t n = RN[k];
    struct item probe;
    size_t i, s;
    int key, r;

    for (key = 0; key < 5; key++) {
        struct item * ff = NULL, * fr = NULL;
        probe.key = key; probe.id = -1;
        for (i = 0; i < n; i++) { if (R[k][i]->key == key) { ff = R[k][i]; break; } }
        for (i = n; i > 0; i--) { if (R[k][i - 1]->key == key) { fr = R[k][i - 1]; break; } }
        CHECK(cstl_dlist_find(l, &probe, cmp_key, NULL, CSTL_DLIST_FOREACH_DIR_FWD) == ff, "find fwd");
        CHECK(cstl_dlist_find(l, &probe, cmp_key, NULL, CSTL_DLIST_FOREACH_DIR_REV) == fr, "find rev");
    }

    for (s = 1; s <= n && s <= 6; s++) {
        memset(&w, 0, sizeof(w)); w.l = l; w.stop_at = s;
        r = cstl_dlist_foreach(l, visit_collect, &w, CSTL_DLIST_FOREACH_DIR_FWD);
        CHECK(r == 40 + (int)s && w.n == s && w.seen[s - 1] == R[k][s - 1], "early stop fwd");
        memset(&w, 0, sizeof(w)); w.l = l; w.stop_at = s;
        r = cstl_dlist_foreach(l, visit_collect, &w, CSTL_DLIST_FOREACH_DIR_REV);
        CHECK(r == 40 + (int)s && w.n == s && w.seen[s - 1] == R[k][n - s], "early stop rev");
    }

    /* remove every visited element, then put them all back */
    memset(&w, 0, sizeof(w)); w.l = l; w.rm = 1;
    r = cstl_dlist_foreach(l, visit_collect, &w,
                           (n & 1) ? CSTL_DLIST_FOREACH_DIR_FWD : CSTL_DLIST_FOREACH_DIR_REV);
    CHECK(r == 0 && w.n == n, "removing foreach visits all");
    CHECK(cstl_dlist_size(l) == 0 && cstl_dlist_front(l) == NULL && cstl_dlist_back(l) == NULL,
          "removing foreach empties");
    CHECK(cstl_dlist_pop_front(l) == NULL && cstl_dlist_pop_back(l) == NULL, "pop on empty");
    for (i = 0; i < n; i++) {
        if (i & 1) { cstl_dlist_push_back(l, R[k][i]); }
        else if (i == 0) { cstl_dlist_push_front(l, R[k][0]); }
        else { cstl_dlist_insert(l, R[k][i - 1], R[k][i]); }
    }
    check_list(k);
}

static int cleared;
static struct item * cleared_items[MAXLEN];
static void on_clear(void * e, void * p)
{
    (void)p;
    if (cleared < MAXLEN) { cleared_items[cleared] = e; }
    cleared++;
}

enum { OP_PUSHF, OP_PUSHB, OP_POPF, OP_POPB, OP_INS, OP_ERASE, OP_REV, OP_SORT,
       OP_CONCAT, OP_SWAP, OP_CLEAR, OP_DEEP, OP_N };

static void apply(int op, int k, unsigned arg)
{
    struct cstl_dlist * l = &L[k];
    size_t n = RN[k], i, j;
    int o = (k + 1 + (int)(arg % (NL - 1))) % NL;
    struct item * it;

    switch (op) {
    case OP_PUSHF:
        if (n == MAXLEN) { break; }
        it = new_item();
        cstl_dlist_push_front(l, it);
        memmove(&R[k][1], &R[k][0], n * sizeof(R[k][0]));
        R[k][0] = it; RN[k]++;
        break;
    case OP_PUSHB:
        if (n == MAXLEN) { break; }
        it = new_item();
        cstl_dlist_push_back(l, it);
        R[k][RN[k]++] = it;
        break;
    case OP_POPF:
        it = cstl_dlist_pop_front(l);
        CHECK(it == (n ? R[k][0] : NULL), "pop_front result");
        if (n) { memmove(&R[k][0], &R[k][1], (n - 1) * sizeof(R[k][0])); RN[k]--; }
        break;
    case OP_POPB:
        it = cstl_dlist_pop_back(l);
        CHECK(it == (n ? R[k][n - 1] : NULL), "pop_back result");
        if (n) { RN[k]--; }
        break;
    case OP_INS:
        if (n == 0 || n == MAXLEN) { break; }
        i = arg % n;
        it = new_item();
        cstl_dlist_insert(l, R[k][i], it);
        memmove(&R[k][i + 2], &R[k][i + 1], (n - i - 1) * sizeof(R[k][0]));
        R[k][i + 1] = it; RN[k]++;
        break;
    case OP_ERASE:
        if (n == 0) { break; }
        i = arg % n;
        cstl_dlist_erase(l, R[k][i]);
        memmove(&R[k][i], &R[k][i + 1], (n - i - 1) * sizeof(R[k][0]));
        RN[k]--;
        break;
    case OP_REV:
        cstl_dlist_reverse(l);
        for (i = 0, j = n; i + 1 < j; i++, j--) {
            it = R[k][i]; R[k][i] = R[k][j - 1]; R[k][j - 1] = it;
        }
        break;
    case OP_SORT: {
        static struct item * before[MAXLEN];
        static struct walk w;
        memcpy(before, R[k], n * sizeof(R[k][0]));
        cstl_dlist_sort(l, cmp_key, NULL);
        memset(&w, 0, sizeof(w)); w.l = l;
        cstl_dlist_foreach(l, visit_collect, &w, CSTL_DLIST_FOREACH_DIR_FWD);
        CHECK(w.n == n && cstl_dlist_size(l) == n, "sort keeps the size");
        if (w.n == n) {
            /* ordered ... */
            for (i = 1; i < n; i++) { CHECK(w.seen[i - 1]->key <= w.seen[i]->key, "sort order"); }
            /* ... permutation of the same elements: mark-and-sweep on ids */
            for (i = 0; i < n; i++) { before[i]->pad0 = 1; }
            for (i = 0; i < n; i++) { CHECK(w.seen[i]->pad0 == 1, "sort permutation"); w.seen[i]->pad0 = 0; }
            for (i = 0; i < n; i++) { CHECK(before[i]->pad0 == 0, "sort lost an element"); before[i]->pad0 = 0; }
            memcpy(R[k], w.seen, n * sizeof(R[k][0]));
        }
        break;
    }
    case OP_CONCAT:
        if (RN[k] + RN[o] > MAXLEN) { break; }
        cstl_dlist_concat(l, &L[o]);
        memcpy(&R[k][n], &R[o][0], RN[o] * sizeof(R[k][0]));
        RN[k] += RN[o]; RN[o] = 0;
        break;
    case OP_SWAP: {
        static struct item * t[MAXLEN];
        cstl_dlist_swap(l, &L[o]);
        memcpy(t, R[k], n * sizeof(t[0]));
        memcpy(R[k], R[o], RN[o] * sizeof(t[0]));
        memcpy(R[o], t, n * sizeof(t[0]));
        RN[k] = RN[o]; RN[o] = n;
        break;
    }
    case OP_CLEAR:
        cleared = 0;
        cstl_dlist_clear(l, on_clear);
        CHECK((size_t)cleared == n, "clear callback count");
        for (i = 0; i < n; i++) { R[k][i]->pad1 = 1; }
        for (i = 0; i < n && i < (size_t)cleared; i++) {
            CHECK(cleared_items[i]->pad1 == 1, "clear callback element"); cleared_items[i]->pad1 = 0;
        }
        for (i = 0; i < n; i++) { CHECK(R[k][i]->pad1 == 0, "clear missed an element"); R[k][i]->pad1 = 0; }
        RN[k] = 0;
        break;
    case OP_DEEP:
        check_deep(k);
        break;
    default:
        break;
    }
}

static void reset_lists(const size_t * len)
{
    int k;
    size_t i;
    npool = 0;
    memset(pool, 0, sizeof(pool));
    for (k = 0; k < NL; k++) {
        if (k == 1) {
            struct cstl_dlist tmp = CSTL_DLIST_INITIALIZER(L[1], struct item, node);
            memcpy(&L[1], &tmp, sizeof(tmp));
        } else {
            cstl_dlist_init(&L[k], offsetof(struct item, node));
        }
        RN[k] = 0;
        for (i = 0; i < len[k]; i++) { apply((i % 3 == 2) ? OP_PUSHF : OP_PUSHB, k, 0); }
    }
}

int main(void)
{
    unsigned long seqs = 0, steps = 0;
    size_t len[NL];
    unsigned seed;

    /* exhaustive: every initial length combination x every 2-op sequence */
    for (len[0] = 0; len[0] <= 5; len[0]++) {
        for (len[1] = 0; len[1] <= 5; len[1]++) {
            int c1, c2;
            const int NC = OP_N * 2 * 3;
            len[2] = (len[0] + len[1]) % 3;
            for (c1 = 0; c1 < NC; c1++) {
                for (c2 = 0; c2 < NC; c2++) {
                    static char buf[128];
                    const int code[2] = { c1, c2 };
                    int s;
                    reset_lists(len);
                    for (s = 0; s < 2; s++) {
                        const int op = code[s] % OP_N, k = (code[s] / OP_N) % 2;
                        const unsigned arg = (unsigned)(code[s] / (OP_N * 2));
                        const unsigned a = (arg == 0) ? 0 : (arg == 1) ? (unsigned)(RN[k] / 2) : (unsigned)(RN[k] ? RN[k] - 1 : 0);
                        sprintf(buf, "len %lu,%lu step %d op %d list %d arg %u",
                                (unsigned long)len[0], (unsigned long)len[1], s, op, k, a);
                        ctx = buf;
                        apply(op, k, a);
                        check_all();
                        steps++;
                    }
                    check_deep(0); check_deep(1);
                    seqs++;
                }
            }
        }
    }

    /* exhaustive 4-op sequences from empty lists over two lists */
    {
        const int NC = OP_N * 2;
        int c[4];
        len[0] = len[1] = len[2] = 0;
        for (c[0] = 0; c[0] < NC; c[0]++) for (c[1] = 0; c[1] < NC; c[1]++)
        for (c[2] = 0; c[2] < NC; c[2]++) for (c[3] = 0; c[3] < NC; c[3]++) {
            int s;
            reset_lists(len);
            ctx = "4-op";
            for (s = 0; s < 4; s++) {
                apply(c[s] % OP_N, c[s] / OP_N, (unsigned)s);
                check_all();
                steps++;
            }
            seqs++;
        }
    }

    /* seeded random long sequences over three lists */
    for (seed = 1; seed <= 30; seed++) {
        static char buf[64];
        int s;
        len[0] = seed % 7; len[1] = 0; len[2] = seed % 3;
        reset_lists(len);
        srand(seed * 2654435761u);
        sprintf(buf, "random seed %u", seed); ctx = buf;
        for (s = 0; s < 4000; s++) {
            static const int w[] = { OP_PUSHF, OP_PUSHB, OP_PUSHB, OP_PUSHF, OP_INS, OP_INS,
                OP_POPF, OP_POPB, OP_ERASE, OP_REV, OP_SORT, OP_CONCAT, OP_SWAP, OP_DEEP,
                OP_PUSHB, OP_INS, OP_ERASE, OP_REV };
            int op = w[rand() % (int)(sizeof(w) / sizeof(*w))];
            if (rand() % 400 == 0) { op = OP_CLEAR; }
            apply(op, rand() % NL, (unsigned)rand());
            check_all();
            steps++;
        }
        check_deep(0); check_deep(1); check_deep(2);
        apply(OP_CLEAR, 0, 0); apply(OP_CLEAR, 1, 0); apply(OP_CLEAR, 2, 0);
        check_all();
        seqs++;
    }

    if (fails) {
        fprintf(stderr, "%d failure(s)\n", fails);
        return 1;
    }
    printf("ok: %lu sequences, %lu steps\n", seqs, steps);
    return 0;
}
