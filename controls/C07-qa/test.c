/*
 * C07 / change a (push re-implemented: top-down insertion along the path).
 *
 * Public API only (init/initializer, push, get, pop, size, clear, swap).
 * A reference model (a flag and a priority per element) is kept next to the
 * heap; after every operation the program checks that get() returns an
 * element that is in the heap and whose priority is the maximum of the
 * model, that pop() returns exactly what get() returned and removes only
 * that, that size tracks the count, and that get/pop return NULL when empty.
 *
 * Part 1 runs EVERY sequence of up to 9 operations drawn from
 * {push prio 0, push prio 1, push prio 2, pop} and then drains the heap.
 * Part 2 runs long seeded random interleavings with few distinct priorities
 * (many ties) and with many, on heaps that grow to a few thousand elements.
 * Part 3 covers clear, swap and reuse of the heaps afterwards.
 *
 * Nothing here depends on which of several equal maxima is returned, on the
 * shape of the tree, or on the order/number of comparisons.
 */
#include "cstl/heap.h"

#include <stdint.h>
#include <stdio.h>
#include <stdlib.h>
#include <string.h>

struct elem
{
    int prio;
    int in;                     /* model: currently in the heap */
    unsigned char pad[3];
    struct cstl_heap_node hn;
    unsigned serial;
};

static unsigned long ncmp;
static unsigned long fails;

#define CHECK(c) do { if (!(c)) { fails++; \
    fprintf(stderr, "%s:%d: %s\n", __FILE__, __LINE__, #c); \
    if (fails > 20) { exit(1); } } } while (0)

static int cmp_elem(const void * const a, const void * const b, void * const p)
{
    const struct elem * const x = a, * const y = b;
    CHECK(p == (void *)&ncmp);
    /* only elements that are (being put) in the heap are ever compared */
    CHECK(x->in && y->in);
    ncmp++;
    return (x->prio > y->prio) - (x->prio < y->prio);
}

/* the model: count[] per priority for a quick maximum */
#define MAXPRIO 1024
struct model
{
    size_t count[MAXPRIO];
    size_t size;
    int hi;                     /* no priority above this was ever pushed */
};

static int model_max(const struct model * const m)
{
    int i;
    for (i = m->hi; i >= 0; i--) {
        if (m->count[i] != 0) {
            return i;
        }
    }
    return -1;
}

static void do_push(struct cstl_heap * const h, struct model * const m,
                    struct elem * const e, const int prio)
{
    CHECK(!e->in);
    e->prio = prio;
    e->in = 1;
    m->count[prio]++;
    m->size++;
    if (prio > m->hi) {
        m->hi = prio;
    }
    cstl_heap_push(h, e);
    CHECK(cstl_heap_size(h) == m->size);
}

static void check_top(const struct cstl_heap * const h,
                      const struct model * const m)
{
    const struct elem * const e = cstl_heap_get(h);
    CHECK(cstl_heap_size(h) == m->size);
    if (m->size == 0) {
        CHECK(e == NULL);
    } else {
        CHECK(e != NULL);
        if (e != NULL) {
            CHECK(e->in);
            CHECK(e->prio == model_max(m));
        }
    }
}

static struct elem * do_pop(struct cstl_heap * const h, struct model * const m)
{
    const struct elem * const top = cstl_heap_get(h);
    struct elem * const e = cstl_heap_pop(h);

    CHECK(e == top);
    if (m->size == 0) {
        CHECK(e == NULL);
        CHECK(cstl_heap_size(h) == 0);
    } else {
        CHECK(e != NULL);
        if (e != NULL) {
            CHECK(e->in);
            CHECK(e->prio == model_max(m));
            e->in = 0;
            m->count[e->prio]--;
            m->size--;
        }
        CHECK(cstl_heap_size(h) == m->size);
    }
    return e;
}

/* part 1: every short sequence */
#define DEPTH 9

static void exhaustive(void)
{
    static struct elem pool[DEPTH];
    unsigned long nseq = 0;
    unsigned len;

    for (len = 0; len <= DEPTH; len++) {
        unsigned long code, total = 1;
        unsigned i;

        for (i = 0; i < len; i++) {
            total *= 4;
        }
        for (code = 0; code < total; code++) {
            struct cstl_heap h;
            struct model m;
            unsigned long c = code;
            unsigned used = 0;

            memset(&m, 0, sizeof(m));
            memset(pool, 0, sizeof(pool));
            cstl_heap_init(&h, cmp_elem, &ncmp, offsetof(struct elem, hn));
            check_top(&h, &m);

            for (i = 0; i < len; i++, c /= 4) {
                const unsigned op = c % 4;
                if (op == 3) {
                    do_pop(&h, &m);
                } else {
                    pool[used].serial = used;
                    do_push(&h, &m, &pool[used], (int)op);
                    used++;
                }
                check_top(&h, &m);
            }
            /* drain: non-increasing priorities, each element once */
            {
                int last = MAXPRIO;
                while (m.size > 0) {
                    const struct elem * const e = do_pop(&h, &m);
                    if (e == NULL) {
                        break;
                    }
                    CHECK(e->prio <= last);
                    last = e->prio;
                    check_top(&h, &m);
                }
                CHECK(cstl_heap_pop(&h) == NULL);
                CHECK(cstl_heap_get(&h) == NULL);
                for (i = 0; i < used; i++) {
                    CHECK(!pool[i].in);
                }
            }
            nseq++;
        }
    }
    printf("exhaustive: %lu sequences\n", nseq);
}

/* part 2: long random interleavings */
static unsigned long long rng_state;

static unsigned rnd(void)
{
    rng_state = rng_state * 6364136223846793005ULL + 1442695040888963407ULL;
    return (unsigned)(rng_state >> 33);
}

static void random_run(const unsigned long long seed, const unsigned nprio,
                       const unsigned nelem, const unsigned long nops)
{
    DECLARE_CSTL_HEAP(h, struct elem, hn, cmp_elem, &ncmp);
    struct model m;
    struct elem * const pool = calloc(nelem, sizeof(*pool));
    struct elem ** const avail = malloc(nelem * sizeof(*avail));
    size_t navail = nelem;
    unsigned long op;
    unsigned i;
    unsigned bias = 60;

    memset(&m, 0, sizeof(m));
    for (i = 0; i < nelem; i++) {
        pool[i].serial = i;
        avail[i] = &pool[i];
    }
    rng_state = seed;

    for (op = 0; op < nops; op++) {
        if (op % 4096 == 0) {
            /* alternate between growing and shrinking phases */
            bias = (rnd() % 2) ? 65 : 35;
        }
        if (navail > 0 && rnd() % 100 < bias) {
            const size_t k = rnd() % navail;
            struct elem * const e = avail[k];
            avail[k] = avail[--navail];
            do_push(&h, &m, e, (int)(rnd() % nprio));
        } else {
            struct elem * const e = do_pop(&h, &m);
            if (e != NULL) {
                avail[navail++] = e;
            }
        }
        check_top(&h, &m);
    }
    {
        int last = MAXPRIO;
        while (m.size > 0) {
            const struct elem * const e = do_pop(&h, &m);
            if (e == NULL) {
                break;
            }
            CHECK(e->prio <= last);
            last = e->prio;
        }
        CHECK(cstl_heap_size(&h) == 0);
        CHECK(cstl_heap_pop(&h) == NULL);
    }
    free(avail);
    free(pool);
}

/* part 3: clear and swap */
static unsigned long nclr;

static void clr_elem(void * const e, void * const p)
{
    struct elem * const x = e;
    CHECK(p == NULL);
    CHECK(x->in);
    x->in = 0;
    nclr++;
}

static void clear_and_swap(void)
{
    static struct elem pa[100], pb[37];
    DECLARE_CSTL_HEAP(a, struct elem, hn, cmp_elem, &ncmp);
    struct cstl_heap b;
    struct model ma, mb, mt;
    unsigned i, round;

    cstl_heap_init(&b, cmp_elem, &ncmp, offsetof(struct elem, hn));
    memset(&ma, 0, sizeof(ma));
    memset(&mb, 0, sizeof(mb));

    for (round = 0; round < 3; round++) {
        for (i = 0; i < 100; i++) {
            do_push(&a, &ma, &pa[i], (int)(rnd() % 10));
        }
        for (i = 0; i < 37; i++) {
            do_push(&b, &mb, &pb[i], 100 + (int)(rnd() % 5));
        }
        for (i = 0; i < 30; i++) {
            do_pop(&a, &ma);
        }
        cstl_heap_swap(&a, &b);
        mt = ma;
        ma = mb;
        mb = mt;
        check_top(&a, &ma);
        check_top(&b, &mb);
        /* keep working on the swapped heaps */
        for (i = 0; i < 10; i++) {
            struct elem * const e = do_pop(&a, &ma);
            do_pop(&b, &mb);
            check_top(&a, &ma);
            check_top(&b, &mb);
            do_push(&a, &ma, e, 100 + (int)(rnd() % 5));
            check_top(&a, &ma);
        }
        /* swap with an empty heap and back */
        {
            struct cstl_heap c;
            cstl_heap_init(&c, cmp_elem, &ncmp, offsetof(struct elem, hn));
            cstl_heap_swap(&c, &a);
            CHECK(cstl_heap_size(&a) == 0);
            CHECK(cstl_heap_get(&a) == NULL);
            CHECK(cstl_heap_pop(&a) == NULL);
            check_top(&c, &ma);
            do_pop(&c, &ma);
            cstl_heap_swap(&a, &c);
            CHECK(cstl_heap_size(&c) == 0);
            check_top(&a, &ma);
        }
        nclr = 0;
        cstl_heap_clear(&a, clr_elem);
        CHECK(nclr == ma.size);
        memset(&ma, 0, sizeof(ma));
        check_top(&a, &ma);
        CHECK(cstl_heap_pop(&a) == NULL);
        nclr = 0;
        cstl_heap_clear(&b, clr_elem);
        CHECK(nclr == mb.size);
        memset(&mb, 0, sizeof(mb));
        check_top(&b, &mb);
        for (i = 0; i < 100; i++) {
            CHECK(!pa[i].in);
        }
        for (i = 0; i < 37; i++) {
            CHECK(!pb[i].in);
        }
    }
}

int main(void)
{
    exhaustive();
    random_run(1, 3, 600, 200000);
    random_run(2, 1, 300, 50000);
    random_run(3, 1000, 5000, 300000);
    random_run(4, 7, 70, 100000);
    random_run(5, 2, 4096, 200000);
    rng_state = 99;
    clear_and_swap();
    printf("comparisons: %lu\n", ncmp);
    if (fails != 0) {
        printf("FAIL (%lu)\n", fails);
        return 1;
    }
    printf("OK\n");
    return 0;
}
