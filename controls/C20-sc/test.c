/*
 * C20: bitwise-copied smart pointers are caught before they can double-free.
 *
 * Part 1 (fork based): every public function taking a guarded/unique/shared/
 * weak pointer or an array object is applied to a stray copy (made with '=',
 * memcpy to a local, memcpy to the heap, relocation, shifting inside a C
 * array) in every argument position and object state; the child must die
 * with SIGABRT inside that very call, after the original was shown to work.
 * Part 2: the same calls on objects moved only with the library functions
 * never abort, and long random histories are checked against a model.
 */
#define _DEFAULT_SOURCE 1
#define _POSIX_C_SOURCE 200809L

#include "cstl/memory.h"
#include "cstl/array.h"

#include <stdio.h>
#include <stdlib.h>
#include <string.h>
#include <stdint.h>
#include <signal.h>
#include <unistd.h>
#include <pthread.h>
#include <sys/types.h>
#include <sys/wait.h>
#include <sys/mman.h>
#include <sys/resource.h>

static volatile int * stage;
static unsigned long n_abort_cases, n_ok_cases, n_steps;
static int failures;

#define FAIL(...)                                               \
    do {                                                        \
        fprintf(stderr, "FAIL %s:%d: ", __FILE__, __LINE__);    \
        fprintf(stderr, __VA_ARGS__);                           \
        fprintf(stderr, "\n");                                  \
        failures++;                                             \
    } while (0)

#define CHECK(COND)                                     \
    do {                                                \
        if (!(COND)) {                                  \
            FAIL("check failed: %s", #COND);            \
            if (*stage != 0) { _exit(4); }              \
        }                                               \
    } while (0)

/* ways of producing a stray object */
enum { HOW_ASSIGN, HOW_MEMCPY, HOW_HEAP, HOW_RELOC, HOW_SHIFT, HOW_N };
static const char * const how_name[] = {
    "assign", "memcpy", "heap", "reloc", "shift"
};

/*
 * the original object lives at the start of a heap block big enough for
 * two objects (so that HOW_SHIFT can move it one slot up). returns the
 * stray; *alive tells whether the original is still a valid object.
 */
static void * stray_bytes(void * const orig, const size_t sz,
                          const int how, int * const alive)
{
    void * s = NULL;
    *alive = 1;
    switch (how) {
    case HOW_MEMCPY:
    case HOW_HEAP:
        s = malloc(sz);
        memcpy(s, orig, sz);
        break;
    case HOW_RELOC:
        s = malloc(sz);
        memcpy(s, orig, sz);
        memset(orig, 0, sz);
        *alive = 0;
        break;
    case HOW_SHIFT:
        s = (unsigned char *)orig + sz;
        memmove(s, orig, sz);
        break;
    default:
        abort();
    }
    return s;
}

typedef void scenario_fn(int how, int state, int op);

/* run a scenario in a child. want_abort: must die of SIGABRT at stage 1 */
static void run_child(scenario_fn * const fn, const char * const what,
                      const int how, const int state, const int op,
                      const int want_abort)
{
    pid_t pid;
    int st = 0;

    *stage = 0;
    fflush(NULL);
    pid = fork();
    if (pid < 0) {
        perror("fork");
        exit(2);
    }
    if (pid == 0) {
        struct rlimit rl;
        rl.rlim_cur = rl.rlim_max = 0;
        setrlimit(RLIMIT_CORE, &rl);
        *stage = 10;
        fn(how, state, op);
        _exit(*stage == 2 ? 0 : 3);
    }
    if (waitpid(pid, &st, 0) != pid) {
        perror("waitpid");
        exit(2);
    }
    {
        const int reached = *stage;
        *stage = 0;
        if (want_abort ? reached != 1 : reached != 2) {
            FAIL("%s how=%s state=%d op=%d: child stopped at stage %d",
                 what, how_name[how], state, op, reached);
            return;
        }
    }
    if (want_abort) {
        n_abort_cases++;
        if (!(WIFSIGNALED(st) && WTERMSIG(st) == SIGABRT)) {
            FAIL("%s how=%s state=%d op=%d: expected abort in the stray "
                 "call (status %#x)",
                 what, how_name[how], state, op, (unsigned)st);
        }
    } else {
        n_ok_cases++;
        if (!(WIFEXITED(st) && WEXITSTATUS(st) == 0)) {
            FAIL("%s how=%s state=%d op=%d: expected clean exit "
                 "(status %#x)",
                 what, how_name[how], state, op, (unsigned)st);
        }
    }
}

/* ------------------------------------------------------------------ */
/* guarded pointers                                                    */
/* ------------------------------------------------------------------ */

static int dummy_target;

enum { G_GET, G_GET_CONST, G_COPY_SRC, G_SWAP_A, G_SWAP_B, G_SWAP_SELF,
       G_ABORT_N,
       G_SET = G_ABORT_N, G_INIT, G_COPY_DST, G_N };
enum { GS_NULL, GS_SET, GS_STATIC, GS_N };

static void guarded_scn(const int how, const int state, const int op)
{
    static struct cstl_guarded_ptr sg = CSTL_GUARDED_PTR_INITIALIZER(sg);
    struct cstl_guarded_ptr * const blk = malloc(2 * sizeof(*blk));
    struct cstl_guarded_ptr * o = blk, * s, local;
    DECLARE_CSTL_GUARDED_PTR(other);
    void * expect = NULL;
    int alive = 1;

    if (state == GS_STATIC) {
        if (how == HOW_RELOC || how == HOW_SHIFT) {
            _exit(5); /* the driver never asks for this */
        }
        o = &sg;
    } else if (state == GS_NULL) {
        cstl_guarded_ptr_init(o);
    } else {
        cstl_guarded_ptr_set(o, &dummy_target);
        expect = &dummy_target;
    }
    cstl_guarded_ptr_set(&other, &other);

    if (how == HOW_ASSIGN) {
        local = *o;
        s = &local;
    } else if (how == HOW_MEMCPY) {
        memcpy(&local, o, sizeof(local));
        s = &local;
    } else {
        s = stray_bytes(o, sizeof(*o), how, &alive);
    }

    if (alive) {
        CHECK(cstl_guarded_ptr_get(o) == expect);
        CHECK(cstl_guarded_ptr_get_const(o) == expect);
    }

    *stage = 1;
    switch (op) {
    case G_GET: (void)cstl_guarded_ptr_get(s); break;
    case G_GET_CONST: (void)cstl_guarded_ptr_get_const(s); break;
    case G_COPY_SRC: cstl_guarded_ptr_copy(&other, s); break;
    case G_SWAP_A: cstl_guarded_ptr_swap(s, &other); break;
    case G_SWAP_B: cstl_guarded_ptr_swap(&other, s); break;
    case G_SWAP_SELF: cstl_guarded_ptr_swap(s, s); break;
    /* these (re)initialise the destination without reading it */
    case G_SET:
        cstl_guarded_ptr_set(s, &other);
        CHECK(cstl_guarded_ptr_get(s) == &other);
        *stage = 2;
        break;
    case G_INIT:
        cstl_guarded_ptr_init(s);
        CHECK(cstl_guarded_ptr_get(s) == NULL);
        *stage = 2;
        break;
    case G_COPY_DST:
        cstl_guarded_ptr_copy(s, &other);
        CHECK(cstl_guarded_ptr_get(s) == &other);
        CHECK(cstl_guarded_ptr_get(&other) == &other);
        *stage = 2;
        break;
    default: abort();
    }
    if (*stage == 2 && alive) {
        /* the original is untouched by what happened to the copy */
        CHECK(cstl_guarded_ptr_get(o) == expect);
    }
}

/* ------------------------------------------------------------------ */
/* unique pointers                                                     */
/* ------------------------------------------------------------------ */

static unsigned long clr_calls;
static void * clr_last_priv;

static void count_clr(void * const mem, void * const priv)
{
    (void)mem;
    clr_calls++;
    clr_last_priv = priv;
}

enum { U_ALLOC, U_ALLOC0, U_GET, U_GET_CONST, U_RELEASE, U_RELEASE_NULL,
       U_SWAP_1, U_SWAP_2, U_SWAP_SELF, U_RESET, U_ABORT_N,
       U_INIT = U_ABORT_N, U_N };
enum { US_EMPTY, US_OWNING, US_OWNING_CLR, US_STATIC, US_N };

static void unique_scn(const int how, const int state, const int op)
{
    static cstl_unique_ptr_t su = CSTL_UNIQUE_PTR_INITIALIZER(su);
    cstl_unique_ptr_t * const blk = malloc(2 * sizeof(*blk));
    cstl_unique_ptr_t * o = blk, * s, local;
    DECLARE_CSTL_UNIQUE_PTR(other);
    cstl_xtor_func_t * f = NULL;
    void * p = NULL, * expect;
    int alive = 1;

    if (state == US_STATIC) {
        if (how == HOW_RELOC || how == HOW_SHIFT) {
            _exit(5); /* the driver never asks for this */
        }
        o = &su;
    } else {
        cstl_unique_ptr_init(o);
        if (state == US_OWNING) {
            cstl_unique_ptr_alloc(o, 40, NULL, NULL);
        } else if (state == US_OWNING_CLR) {
            cstl_unique_ptr_alloc(o, 40, count_clr, &dummy_target);
        }
    }
    expect = cstl_unique_ptr_get(o);
    CHECK((expect != NULL) == (state == US_OWNING || state == US_OWNING_CLR));
    cstl_unique_ptr_alloc(&other, 8, count_clr, NULL);

    if (how == HOW_ASSIGN) {
        local = *o;
        s = &local;
    } else if (how == HOW_MEMCPY) {
        memcpy(&local, o, sizeof(local));
        s = &local;
    } else {
        s = stray_bytes(o, sizeof(*o), how, &alive);
    }

    if (alive) {
        CHECK(cstl_unique_ptr_get(o) == expect);
        CHECK(cstl_unique_ptr_get_const(o) == expect);
        if (expect != NULL) {
            memset(expect, 0x5a, 40);
        }
    }
    CHECK(clr_calls == 0);

    *stage = 1;
    switch (op) {
    case U_ALLOC: cstl_unique_ptr_alloc(s, 16, NULL, NULL); break;
    case U_ALLOC0: cstl_unique_ptr_alloc(s, 0, NULL, NULL); break;
    case U_GET: (void)cstl_unique_ptr_get(s); break;
    case U_GET_CONST: (void)cstl_unique_ptr_get_const(s); break;
    case U_RELEASE: (void)cstl_unique_ptr_release(s, &f, &p); break;
    case U_RELEASE_NULL: (void)cstl_unique_ptr_release(s, NULL, NULL); break;
    case U_SWAP_1: cstl_unique_ptr_swap(s, &other); break;
    case U_SWAP_2: cstl_unique_ptr_swap(&other, s); break;
    case U_SWAP_SELF: cstl_unique_ptr_swap(s, s); break;
    case U_RESET: cstl_unique_ptr_reset(s); break;
    case U_INIT:
        cstl_unique_ptr_init(s);
        CHECK(cstl_unique_ptr_get(s) == NULL);
        cstl_unique_ptr_alloc(s, 24, count_clr, NULL);
        CHECK(cstl_unique_ptr_get(s) != NULL);
        cstl_unique_ptr_reset(s);
        CHECK(clr_calls == 1);
        if (alive) {
            CHECK(cstl_unique_ptr_get(o) == expect);
            cstl_unique_ptr_reset(o);
            CHECK(cstl_unique_ptr_get(o) == NULL);
            CHECK(clr_calls == (state == US_OWNING_CLR ? 2u : 1u));
        }
        *stage = 2;
        break;
    default: abort();
    }
}

/* ------------------------------------------------------------------ */
/* shared and weak pointers                                            */
/* ------------------------------------------------------------------ */

enum { S_ALLOC, S_ALLOC0, S_UNIQUE, S_GET, S_GET_CONST, S_SHARE_EX,
       S_SHARE_N, S_SHARE_SELF, S_SWAP_1, S_SWAP_2, S_SWAP_SELF, S_RESET,
       S_WEAK_FROM, S_LOCK_INTO, S_ABORT_N,
       S_INIT = S_ABORT_N, S_N };
/* empty, sole owner, two owners, one owner plus a weak pointer, static */
enum { SS_EMPTY, SS_OWNING, SS_SHARED, SS_WEAKLY, SS_STATIC, SS_N };

static void shared_scn(const int how, const int state, const int op)
{
    static cstl_shared_ptr_t ss = CSTL_SHARED_PTR_INITIALIZER(ss);
    cstl_shared_ptr_t * const blk = malloc(2 * sizeof(*blk));
    cstl_shared_ptr_t * o = blk, * s, local;
    DECLARE_CSTL_SHARED_PTR(peer);
    DECLARE_CSTL_SHARED_PTR(other);
    DECLARE_CSTL_WEAK_PTR(w);
    DECLARE_CSTL_WEAK_PTR(ow);
    void * expect;
    int alive = 1;

    if (state == SS_STATIC) {
        if (how == HOW_RELOC || how == HOW_SHIFT) {
            _exit(5);
        }
        o = &ss;
    } else {
        cstl_shared_ptr_init(o);
        if (state != SS_EMPTY) {
            cstl_shared_ptr_alloc(o, 48, count_clr);
        }
        if (state == SS_SHARED) {
            cstl_shared_ptr_share(o, &peer);
        } else if (state == SS_WEAKLY) {
            cstl_weak_ptr_from(&w, o);
        }
    }
    expect = cstl_shared_ptr_get(o);
    CHECK((expect != NULL) == (state != SS_EMPTY && state != SS_STATIC));
    cstl_shared_ptr_alloc(&other, 8, count_clr);
    cstl_weak_ptr_from(&ow, &other);

    if (how == HOW_ASSIGN) {
        local = *o;
        s = &local;
    } else if (how == HOW_MEMCPY) {
        memcpy(&local, o, sizeof(local));
        s = &local;
    } else {
        s = stray_bytes(o, sizeof(*o), how, &alive);
    }

    if (alive) {
        CHECK(cstl_shared_ptr_get(o) == expect);
        CHECK(cstl_shared_ptr_get_const(o) == expect);
        CHECK(cstl_shared_ptr_unique(o)
              == (state != SS_SHARED && state != SS_WEAKLY));
        if (expect != NULL) {
            memset(expect, 0x3c, 48);
        }
    }
    CHECK(clr_calls == 0);

    *stage = 1;
    switch (op) {
    case S_ALLOC: cstl_shared_ptr_alloc(s, 16, NULL); break;
    case S_ALLOC0: cstl_shared_ptr_alloc(s, 0, NULL); break;
    case S_UNIQUE: (void)cstl_shared_ptr_unique(s); break;
    case S_GET: (void)cstl_shared_ptr_get(s); break;
    case S_GET_CONST: (void)cstl_shared_ptr_get_const(s); break;
    case S_SHARE_EX: cstl_shared_ptr_share(s, &other); break;
    case S_SHARE_N: cstl_shared_ptr_share(&other, s); break;
    case S_SHARE_SELF: cstl_shared_ptr_share(s, s); break;
    case S_SWAP_1: cstl_shared_ptr_swap(s, &other); break;
    case S_SWAP_2: cstl_shared_ptr_swap(&other, s); break;
    case S_SWAP_SELF: cstl_shared_ptr_swap(s, s); break;
    case S_RESET: cstl_shared_ptr_reset(s); break;
    case S_WEAK_FROM: cstl_weak_ptr_from(&ow, s); break;
    case S_LOCK_INTO: cstl_weak_ptr_lock(&ow, s); break;
    case S_INIT:
        cstl_shared_ptr_init(s);
        CHECK(cstl_shared_ptr_get(s) == NULL);
        CHECK(cstl_shared_ptr_unique(s));
        cstl_shared_ptr_share(&other, s);
        CHECK(cstl_shared_ptr_get(s) == cstl_shared_ptr_get(&other));
        cstl_shared_ptr_reset(s);
        CHECK(clr_calls == 0);
        if (alive) {
            CHECK(cstl_shared_ptr_get(o) == expect);
            cstl_shared_ptr_reset(o);
            CHECK(cstl_shared_ptr_get(o) == NULL);
            CHECK(clr_calls
                  == ((state == SS_OWNING || state == SS_WEAKLY) ? 1u : 0u));
        }
        *stage = 2;
        break;
    default: abort();
    }
}

enum { W_FROM, W_LOCK, W_SWAP_1, W_SWAP_2, W_SWAP_SELF, W_RESET, W_ABORT_N,
       W_INIT = W_ABORT_N, W_N };
/* empty, pointing at live memory, weak-only (memory gone), static */
enum { WS_EMPTY, WS_LIVE, WS_DEAD, WS_STATIC, WS_N };

static void weak_scn(const int how, const int state, const int op)
{
    static cstl_weak_ptr_t sw = CSTL_WEAK_PTR_INITIALIZER(sw);
    cstl_weak_ptr_t * const blk = malloc(2 * sizeof(*blk));
    cstl_weak_ptr_t * o = blk, * s, local;
    DECLARE_CSTL_SHARED_PTR(owner);
    DECLARE_CSTL_SHARED_PTR(other);
    DECLARE_CSTL_SHARED_PTR(got);
    DECLARE_CSTL_WEAK_PTR(ow);
    void * expect = NULL;
    int alive = 1;

    if (state == WS_STATIC) {
        if (how == HOW_RELOC || how == HOW_SHIFT) {
            _exit(5);
        }
        o = &sw;
    } else {
        cstl_weak_ptr_init(o);
        if (state != WS_EMPTY) {
            cstl_shared_ptr_alloc(&owner, 48, count_clr);
            cstl_weak_ptr_from(o, &owner);
            expect = cstl_shared_ptr_get(&owner);
            if (state == WS_DEAD) {
                cstl_shared_ptr_reset(&owner);
                CHECK(clr_calls == 1);
                clr_calls = 0;
                expect = NULL;
            }
        }
    }
    cstl_shared_ptr_alloc(&other, 8, count_clr);
    cstl_weak_ptr_from(&ow, &other);

    if (how == HOW_ASSIGN) {
        local = *o;
        s = &local;
    } else if (how == HOW_MEMCPY) {
        memcpy(&local, o, sizeof(local));
        s = &local;
    } else {
        s = stray_bytes(o, sizeof(*o), how, &alive);
    }

    if (alive) {
        cstl_weak_ptr_lock(o, &got);
        CHECK(cstl_shared_ptr_get(&got) == expect);
        cstl_shared_ptr_reset(&got);
        if (state == WS_LIVE) {
            CHECK(!cstl_shared_ptr_unique(&owner));
        }
    }
    CHECK(clr_calls == 0);

    *stage = 1;
    switch (op) {
    case W_FROM: cstl_weak_ptr_from(s, &other); break;
    case W_LOCK: cstl_weak_ptr_lock(s, &got); break;
    case W_SWAP_1: cstl_weak_ptr_swap(s, &ow); break;
    case W_SWAP_2: cstl_weak_ptr_swap(&ow, s); break;
    case W_SWAP_SELF: cstl_weak_ptr_swap(s, s); break;
    case W_RESET: cstl_weak_ptr_reset(s); break;
    case W_INIT:
        cstl_weak_ptr_init(s);
        cstl_weak_ptr_lock(s, &got);
        CHECK(cstl_shared_ptr_get(&got) == NULL);
        cstl_weak_ptr_from(s, &other);
        cstl_weak_ptr_lock(s, &got);
        CHECK(cstl_shared_ptr_get(&got) == cstl_shared_ptr_get(&other));
        cstl_shared_ptr_reset(&got);
        cstl_weak_ptr_reset(s);
        if (alive) {
            cstl_weak_ptr_lock(o, &got);
            CHECK(cstl_shared_ptr_get(&got) == expect);
            cstl_shared_ptr_reset(&got);
            cstl_weak_ptr_reset(o);
            if (state == WS_LIVE) {
                CHECK(cstl_shared_ptr_unique(&owner));
            }
        }
        CHECK(clr_calls == 0);
        *stage = 2;
        break;
    default: abort();
    }
}

/* ------------------------------------------------------------------ */
/* array objects                                                       */
/* ------------------------------------------------------------------ */

enum { A_ALLOC, A_ALLOC0, A_RESET, A_SET, A_RELEASE, A_RELEASE_NULL,
       A_DATA, A_DATA_CONST, A_AT, A_AT_CONST, A_AT_OOB,
       A_SLICE_A, A_SLICE_EMPTY, A_SLICE_S, A_SLICE_SAME,
       A_UNSLICE_S, A_UNSLICE_A, A_UNSLICE_SAME, A_ABORT_N,
       A_INIT = A_ABORT_N, A_SIZE, A_N };
/* empty, sole owner, sliced twice, external buffer, big array, static */
enum { AS_EMPTY, AS_OWNING, AS_SHARED, AS_EXTERNAL, AS_BIG, AS_STATIC, AS_N };

static void array_scn(const int how, const int state, const int op)
{
    static cstl_array_t sa = CSTL_ARRAY_INITIALIZER(sa);
    static int ext[12], ext2[4];
    cstl_array_t * const blk = malloc(2 * sizeof(*blk));
    cstl_array_t * o = blk, * s, local;
    DECLARE_CSTL_ARRAY(peer);
    DECLARE_CSTL_ARRAY(other);
    const void * expect;
    void * rel = NULL;
    size_t n = 0;
    int alive = 1;

    if (state == AS_STATIC) {
        if (how == HOW_RELOC || how == HOW_SHIFT) {
            _exit(5);
        }
        o = &sa;
    } else {
        cstl_array_init(o);
        if (state == AS_OWNING) {
            cstl_array_alloc(o, n = 10, sizeof(int));
        } else if (state == AS_SHARED) {
            cstl_array_alloc(o, 20, sizeof(int));
            cstl_array_slice(o, 5, 20, &peer);
            cstl_array_slice(o, 2, 12, o);
            n = 10;
        } else if (state == AS_EXTERNAL) {
            cstl_array_set(o, ext, n = 12, sizeof(int));
        } else if (state == AS_BIG) {
            cstl_array_alloc(o, n = 5000, sizeof(int));
        }
    }
    CHECK(cstl_array_size(o) == n);
    expect = cstl_array_data(o);
    CHECK((expect != NULL) == (n != 0));
    cstl_array_alloc(&other, 6, sizeof(int));

    if (how == HOW_ASSIGN) {
        local = *o;
        s = &local;
    } else if (how == HOW_MEMCPY) {
        memcpy(&local, o, sizeof(local));
        s = &local;
    } else {
        s = stray_bytes(o, sizeof(*o), how, &alive);
    }

    if (alive) {
        size_t i;
        CHECK(cstl_array_size(o) == n);
        CHECK(cstl_array_data_const(o) == expect);
        for (i = 0; i < n; i++) {
            *(int *)cstl_array_at(o, i) = (int)i;
        }
        if (state == AS_EXTERNAL) {
            CHECK(cstl_array_at_const(o, 11) == &ext[11]);
        }
    }

    *stage = 1;
    switch (op) {
    case A_ALLOC: cstl_array_alloc(s, 3, sizeof(int)); break;
    case A_ALLOC0: cstl_array_alloc(s, 0, 0); break;
    case A_RESET: cstl_array_reset(s); break;
    case A_SET: cstl_array_set(s, ext2, 4, sizeof(int)); break;
    case A_RELEASE: cstl_array_release(s, &rel); break;
    case A_RELEASE_NULL: cstl_array_release(s, NULL); break;
    case A_DATA: (void)cstl_array_data(s); break;
    case A_DATA_CONST: (void)cstl_array_data_const(s); break;
    case A_AT: (void)cstl_array_at(s, 0); break;
    case A_AT_CONST: (void)cstl_array_at_const(s, n > 0 ? n - 1 : 0); break;
    case A_AT_OOB: (void)cstl_array_at_const(s, n); break;
    case A_SLICE_A: cstl_array_slice(s, 0, n > 0 ? 1 : 0, &other); break;
    case A_SLICE_EMPTY: cstl_array_slice(s, 0, 0, &other); break;
    case A_SLICE_S: cstl_array_slice(&other, 1, 3, s); break;
    case A_SLICE_SAME: cstl_array_slice(s, 0, 0, s); break;
    case A_UNSLICE_S: cstl_array_unslice(s, &other); break;
    case A_UNSLICE_A: cstl_array_unslice(&other, s); break;
    case A_UNSLICE_SAME: cstl_array_unslice(s, s); break;
    case A_INIT:
        cstl_array_init(s);
        CHECK(cstl_array_size(s) == 0);
        CHECK(cstl_array_data(s) == NULL);
        cstl_array_slice(&other, 1, 3, s);
        CHECK(cstl_array_at(s, 0) == cstl_array_at(&other, 1));
        cstl_array_reset(s);
        if (alive) {
            CHECK(cstl_array_data(o) == expect);
            if (state == AS_EXTERNAL) {
                cstl_array_release(o, &rel);
                CHECK(rel == ext);
            }
            cstl_array_reset(o);
            CHECK(cstl_array_data(o) == NULL);
        }
        *stage = 2;
        break;
    case A_SIZE:
        /* reads no pointer: allowed to work on anything */
        CHECK(cstl_array_size(s) == n);
        *stage = 2;
        break;
    default: abort();
    }
}

/* ------------------------------------------------------------------ */
/* properly moved objects: every function, in a child, must not abort  */
/* ------------------------------------------------------------------ */

static void proper_scn(const int how, const int state, const int op)
{
    (void)how; (void)state; (void)op;
    *stage = 1;
    {
        /* guarded */
        struct cstl_guarded_ptr a, b, c;
        cstl_guarded_ptr_set(&a, &a);
        cstl_guarded_ptr_init(&b);
        cstl_guarded_ptr_copy(&c, &a);
        CHECK(cstl_guarded_ptr_get(&c) == &a);
        cstl_guarded_ptr_swap(&b, &c);
        CHECK(cstl_guarded_ptr_get(&b) == &a);
        CHECK(cstl_guarded_ptr_get_const(&c) == NULL);
        cstl_guarded_ptr_swap(&b, &b);
        CHECK(cstl_guarded_ptr_get(&b) == &a);
        /* a stray that is re-initialised in place is a good object */
        c = a;
        cstl_guarded_ptr_copy(&c, &b);
        CHECK(cstl_guarded_ptr_get(&c) == &a);
        /* bytes moved away and back again are the original object */
        memcpy(&c, &a, sizeof(a));
        memset(&a, 0xee, sizeof(a));
        memcpy(&a, &c, sizeof(a));
        CHECK(cstl_guarded_ptr_get(&a) == &a);
    }
    {
        /* unique */
        cstl_unique_ptr_t a, b;
        cstl_xtor_func_t * f = NULL;
        void * p = NULL, * m, * priv = NULL;
        cstl_unique_ptr_init(&a);
        cstl_unique_ptr_init(&b);
        cstl_unique_ptr_reset(&a);
        cstl_unique_ptr_alloc(&a, 0, count_clr, NULL);
        CHECK(cstl_unique_ptr_get(&a) == NULL);
        cstl_unique_ptr_alloc(&a, 100, count_clr, &a);
        m = cstl_unique_ptr_get(&a);
        CHECK(m != NULL);
        cstl_unique_ptr_swap(&a, &b);
        CHECK(cstl_unique_ptr_get(&a) == NULL);
        CHECK(cstl_unique_ptr_get_const(&b) == m);
        p = cstl_unique_ptr_release(&b, &f, &priv);
        CHECK(p == m && f == count_clr && priv == &a);
        CHECK(cstl_unique_ptr_get(&b) == NULL);
        CHECK(cstl_unique_ptr_release(&b, NULL, NULL) == NULL);
        CHECK(clr_calls == 0);
        f(p, priv);
        free(p);
        cstl_unique_ptr_alloc(&a, 10, count_clr, &b);
        cstl_unique_ptr_alloc(&a, 20, count_clr, &a);
        CHECK(clr_calls == 2 && clr_last_priv == &b);
        cstl_unique_ptr_alloc(&a, SIZE_MAX / 2 - 4096, count_clr, &a);
        CHECK(clr_calls == 3 && clr_last_priv == &a);
        CHECK(cstl_unique_ptr_get(&a) == NULL);
        cstl_unique_ptr_reset(&a);
        cstl_unique_ptr_reset(&b);
        CHECK(clr_calls == 3);
        clr_calls = 0;
    }
    {
        /* shared and weak */
        cstl_shared_ptr_t a, b, c;
        cstl_weak_ptr_t w, x;
        void * m;
        cstl_shared_ptr_init(&a);
        cstl_shared_ptr_init(&b);
        cstl_shared_ptr_init(&c);
        cstl_weak_ptr_init(&w);
        cstl_weak_ptr_init(&x);
        cstl_shared_ptr_reset(&a);
        cstl_weak_ptr_reset(&w);
        CHECK(cstl_shared_ptr_unique(&a));
        cstl_shared_ptr_share(&a, &b);
        cstl_weak_ptr_from(&w, &a);
        cstl_weak_ptr_lock(&w, &b);
        CHECK(cstl_shared_ptr_get(&b) == NULL);
        cstl_shared_ptr_alloc(&a, 0, count_clr);
        CHECK(cstl_shared_ptr_get(&a) == NULL);
        cstl_shared_ptr_alloc(&a, SIZE_MAX / 2 - 4096, count_clr);
        CHECK(cstl_shared_ptr_get(&a) == NULL);
        cstl_shared_ptr_alloc(&a, 64, count_clr);
        m = cstl_shared_ptr_get(&a);
        CHECK(m != NULL && cstl_shared_ptr_unique(&a));
        cstl_shared_ptr_share(&a, &b);
        CHECK(cstl_shared_ptr_get_const(&b) == m);
        CHECK(!cstl_shared_ptr_unique(&a) && !cstl_shared_ptr_unique(&b));
        cstl_shared_ptr_swap(&b, &c);
        CHECK(cstl_shared_ptr_get(&b) == NULL);
        CHECK(cstl_shared_ptr_get(&c) == m);
        cstl_shared_ptr_swap(&c, &c);
        cstl_weak_ptr_from(&w, &c);
        cstl_weak_ptr_swap(&w, &x);
        cstl_weak_ptr_swap(&x, &x);
        cstl_shared_ptr_reset(&a);
        cstl_weak_ptr_lock(&x, &a);
        CHECK(cstl_shared_ptr_get(&a) == m);
        cstl_weak_ptr_lock(&w, &b);
        CHECK(cstl_shared_ptr_get(&b) == NULL);
        cstl_shared_ptr_share(&a, &a);
        CHECK(cstl_shared_ptr_get(&a) == NULL);
        CHECK(clr_calls == 0);
        cstl_shared_ptr_reset(&c);
        CHECK(clr_calls == 1);
        cstl_weak_ptr_lock(&x, &a);
        CHECK(cstl_shared_ptr_get(&a) == NULL);
        cstl_weak_ptr_from(&w, &a);
        cstl_weak_ptr_reset(&x);
        cstl_weak_ptr_reset(&w);
        CHECK(clr_calls == 1);
        clr_calls = 0;
    }
    {
        /* arrays */
        int ext[9];
        void * rel;
        cstl_array_t a, b;
        cstl_array_init(&a);
        cstl_array_init(&b);
        cstl_array_reset(&a);
        cstl_array_release(&a, &rel);
        CHECK(rel == NULL);
        cstl_array_alloc(&a, SIZE_MAX / 2, 4);
        CHECK(cstl_array_size(&a) == 0 && cstl_array_data(&a) == NULL);
        cstl_array_alloc(&a, SIZE_MAX / 2 - 4096, 1);
        CHECK(cstl_array_size(&a) == 0 && cstl_array_data(&a) == NULL);
        cstl_array_alloc(&a, 0, 4);
        CHECK(cstl_array_size(&a) == 0);
        cstl_array_unslice(&a, &b);
        CHECK(cstl_array_size(&b) == 0);
        cstl_array_alloc(&a, 7, 3);
        cstl_array_slice(&a, 2, 7, &b);
        cstl_array_slice(&b, 1, 2, &b);
        CHECK(cstl_array_at(&b, 0) == cstl_array_at(&a, 3));
        cstl_array_release(&a, &rel);
        CHECK(rel == NULL && cstl_array_size(&a) == 7);
        cstl_array_reset(&a);
        cstl_array_unslice(&b, &a);
        cstl_array_unslice(&b, &b);
        CHECK(cstl_array_size(&a) == 7 && cstl_array_size(&b) == 7);
        CHECK(cstl_array_data_const(&a) == cstl_array_at_const(&b, 0));
        cstl_array_set(&a, ext, 9, sizeof(int));
        cstl_array_slice(&a, 8, 9, &b);
        CHECK(cstl_array_at(&b, 0) == &ext[8]);
        cstl_array_release(&a, &rel);
        CHECK(rel == NULL);
        cstl_array_reset(&b);
        cstl_array_release(&a, NULL);
        CHECK(cstl_array_size(&a) == 0 && cstl_array_data(&a) == NULL);
        cstl_array_set(&a, ext, 9, sizeof(int));
        cstl_array_release(&a, &rel);
        CHECK(rel == ext);
    }
    *stage = 2;
}

/* ------------------------------------------------------------------ */
/* random histories of properly handled objects, checked by a model    */
/* ------------------------------------------------------------------ */

static uint32_t rng_state = 0x1234567u;
static uint32_t rnd(void)
{
    rng_state ^= rng_state << 13;
    rng_state ^= rng_state >> 17;
    rng_state ^= rng_state << 5;
    return rng_state;
}

#define NS 7
#define NW 5
#define NPAY 4096

static struct { void * ptr; int hard, weak, cleared; } pay[NPAY];
static int npay;

static void pay_clr(void * const mem, void * const priv)
{
    int id;
    memcpy(&id, mem, sizeof(id));
    if (priv != NULL || id < 0 || id >= npay || pay[id].ptr != mem) {
        FAIL("clear function called with bad arguments");
        return;
    }
    pay[id].cleared++;
}

static void shared_history(const int steps)
{
    cstl_shared_ptr_t * sp = malloc(NS * sizeof(*sp));
    cstl_weak_ptr_t * wp = malloc(NW * sizeof(*wp));
    int msp[NS], mwp[NW];
    int i, t;

    npay = 0;
    for (i = 0; i < NS; i++) { cstl_shared_ptr_init(&sp[i]); msp[i] = -1; }
    for (i = 0; i < NW; i++) { cstl_weak_ptr_init(&wp[i]); mwp[i] = -1; }

    for (t = 0; t < steps && failures == 0; t++) {
        const int a = rnd() % NS, b = rnd() % NS;
        const int u = rnd() % NW, v = rnd() % NW;
        int k;

        n_steps++;
        switch (rnd() % 11) {
        case 0:
            if (npay < NPAY) {
                const size_t sz = sizeof(int) + rnd() % 200;
                if (msp[a] >= 0) { pay[msp[a]].hard--; }
                cstl_shared_ptr_alloc(&sp[a], sz, pay_clr);
                pay[npay].ptr = cstl_shared_ptr_get(&sp[a]);
                CHECK(pay[npay].ptr != NULL);
                memset(pay[npay].ptr, 0xab, sz);
                memcpy(pay[npay].ptr, &npay, sizeof(int));
                pay[npay].hard = 1;
                pay[npay].weak = 0;
                pay[npay].cleared = 0;
                msp[a] = npay++;
            }
            break;
        case 1:
            if (msp[a] >= 0) { pay[msp[a]].hard--; }
            cstl_shared_ptr_alloc(&sp[a], 0, pay_clr);
            msp[a] = -1;
            break;
        case 2:
        case 3:
            if (a == b) {
                if (msp[a] >= 0) { pay[msp[a]].hard--; }
                msp[a] = -1;
            } else {
                if (msp[b] >= 0) { pay[msp[b]].hard--; }
                msp[b] = msp[a];
                if (msp[b] >= 0) { pay[msp[b]].hard++; }
            }
            cstl_shared_ptr_share(&sp[a], &sp[b]);
            break;
        case 4:
            cstl_shared_ptr_swap(&sp[a], &sp[b]);
            k = msp[a]; msp[a] = msp[b]; msp[b] = k;
            break;
        case 5:
            cstl_shared_ptr_reset(&sp[a]);
            if (msp[a] >= 0) { pay[msp[a]].hard--; }
            msp[a] = -1;
            break;
        case 6:
        case 7:
            cstl_weak_ptr_from(&wp[u], &sp[a]);
            if (mwp[u] >= 0) { pay[mwp[u]].weak--; }
            mwp[u] = msp[a];
            if (mwp[u] >= 0) { pay[mwp[u]].weak++; }
            break;
        case 8:
            cstl_weak_ptr_lock(&wp[u], &sp[a]);
            if (msp[a] >= 0) { pay[msp[a]].hard--; }
            msp[a] = -1;
            /*
             * the released memory may have been the weak pointer's own
             * target; the library resets sp first, so judge afterwards
             */
            if (mwp[u] >= 0 && pay[mwp[u]].hard > 0) {
                msp[a] = mwp[u];
                pay[msp[a]].hard++;
            }
            break;
        case 9:
            cstl_weak_ptr_swap(&wp[u], &wp[v]);
            k = mwp[u]; mwp[u] = mwp[v]; mwp[v] = k;
            break;
        default:
            cstl_weak_ptr_reset(&wp[u]);
            if (mwp[u] >= 0) { pay[mwp[u]].weak--; }
            mwp[u] = -1;
            break;
        }

        if (rnd() % 64 == 0) {
            /* relocate every object the documented way */
            cstl_shared_ptr_t * const nsp = malloc(NS * sizeof(*nsp));
            cstl_weak_ptr_t * const nwp = malloc(NW * sizeof(*nwp));
            for (i = 0; i < NS; i++) {
                cstl_shared_ptr_init(&nsp[i]);
                if (i & 1) {
                    cstl_shared_ptr_swap(&nsp[i], &sp[i]);
                } else {
                    cstl_shared_ptr_share(&sp[i], &nsp[i]);
                    cstl_shared_ptr_reset(&sp[i]);
                }
            }
            for (i = 0; i < NW; i++) {
                cstl_weak_ptr_init(&nwp[i]);
                cstl_weak_ptr_swap(&wp[i], &nwp[i]);
            }
            memset(sp, 0xdd, NS * sizeof(*sp));
            memset(wp, 0xdd, NW * sizeof(*wp));
            free(sp); free(wp);
            sp = nsp; wp = nwp;
        }

        for (i = 0; i < NS; i++) {
            const void * const g = cstl_shared_ptr_get_const(&sp[i]);
            if (msp[i] < 0) {
                CHECK(g == NULL);
                CHECK(cstl_shared_ptr_unique(&sp[i]));
            } else {
                int id;
                CHECK(g == pay[msp[i]].ptr);
                CHECK(cstl_shared_ptr_get(&sp[i]) == pay[msp[i]].ptr);
                memcpy(&id, g, sizeof(id));
                CHECK(id == msp[i]);
                CHECK(cstl_shared_ptr_unique(&sp[i])
                      == (pay[msp[i]].hard + pay[msp[i]].weak == 1));
            }
        }
        for (i = 0; i < npay; i++) {
            CHECK(pay[i].hard >= 0 && pay[i].weak >= 0);
            CHECK(pay[i].cleared == (pay[i].hard == 0 ? 1 : 0));
        }
    }

    for (i = 0; i < NW; i++) {
        DECLARE_CSTL_SHARED_PTR(got);
        cstl_weak_ptr_lock(&wp[i], &got);
        if (mwp[i] >= 0 && pay[mwp[i]].hard > 0) {
            CHECK(cstl_shared_ptr_get(&got) == pay[mwp[i]].ptr);
        } else {
            CHECK(cstl_shared_ptr_get(&got) == NULL);
        }
        cstl_shared_ptr_reset(&got);
    }
    for (i = 0; i < NS; i++) { cstl_shared_ptr_reset(&sp[i]); }
    for (i = 0; i < NW; i++) { cstl_weak_ptr_reset(&wp[i]); }
    for (i = 0; i < npay; i++) { CHECK(pay[i].cleared == 1); }
    free(sp); free(wp);
}

/* unique pointers */
#define NU 6
static void uniq_clr(void * const mem, void * const priv)
{
    (void)mem;
    (*(unsigned long *)priv)++;
}

static void unique_history(const int steps)
{
    cstl_unique_ptr_t up[NU];
    struct { void * ptr; unsigned long * cnt; unsigned long want; } m[NU];
    unsigned long counters[4096];
    int ncnt = 0, i, t;

    memset(counters, 0, sizeof(counters));
    for (i = 0; i < NU; i++) {
        if (i & 1) {
            cstl_unique_ptr_init(&up[i]);
        } else {
            const cstl_unique_ptr_t z = CSTL_UNIQUE_PTR_INITIALIZER(up[i]);
            memcpy(&up[i], &z, sizeof(z)); /* initialiser names up[i] */
        }
        m[i].ptr = NULL; m[i].cnt = NULL;
    }

    for (t = 0; t < steps && failures == 0; t++) {
        const int a = rnd() % NU, b = rnd() % NU;
        n_steps++;
        switch (rnd() % 6) {
        case 0:
            if (ncnt < 4096) {
                const int with = rnd() & 1;
                const size_t sz = rnd() % 300; /* 0 leaves it empty */
                unsigned long * const c = &counters[ncnt++];
                if (m[a].cnt != NULL) { CHECK(*m[a].cnt == 0); }
                cstl_unique_ptr_alloc(&up[a], sz,
                                      with ? uniq_clr : NULL, with ? c : NULL);
                if (m[a].cnt != NULL) { CHECK(*m[a].cnt == 1); }
                m[a].ptr = cstl_unique_ptr_get(&up[a]);
                CHECK((m[a].ptr != NULL) == (sz > 0));
                m[a].cnt = (with && sz > 0) ? c : NULL;
                if (sz > 0) { memset(m[a].ptr, 0x77, sz); }
                CHECK(*c == 0);
            }
            break;
        case 1:
            if (a != b) {
                cstl_unique_ptr_swap(&up[a], &up[b]);
            }
            {
                void * const p = m[a].ptr;
                unsigned long * const c = m[a].cnt;
                m[a].ptr = m[b].ptr; m[a].cnt = m[b].cnt;
                m[b].ptr = p; m[b].cnt = c;
            }
            break;
        case 2:
            cstl_unique_ptr_reset(&up[a]);
            if (m[a].cnt != NULL) { CHECK(*m[a].cnt == 1); }
            m[a].ptr = NULL; m[a].cnt = NULL;
            break;
        case 3:
        {
            cstl_xtor_func_t * f = NULL;
            void * priv = NULL;
            void * p;
            if (rnd() & 1) {
                f = uniq_clr;
                priv = &f;
                p = cstl_unique_ptr_release(&up[a], &f, &priv);
                if (m[a].cnt != NULL) {
                    CHECK(f == uniq_clr && priv == m[a].cnt);
                } else {
                    CHECK(f == NULL && priv == NULL);
                }
            } else {
                p = cstl_unique_ptr_release(&up[a], NULL, NULL);
            }
            CHECK(p == m[a].ptr);
            if (m[a].cnt != NULL) { CHECK(*m[a].cnt == 0); }
            free(p);
            m[a].ptr = NULL; m[a].cnt = NULL;
            break;
        }
        case 4:
            /* move a to b the documented way: release + re-own via swap */
            if (a != b) {
                cstl_unique_ptr_reset(&up[b]);
                if (m[b].cnt != NULL) { CHECK(*m[b].cnt == 1); }
                cstl_unique_ptr_swap(&up[b], &up[a]);
                m[b] = m[a];
                m[a].ptr = NULL; m[a].cnt = NULL;
            }
            break;
        default:
            break;
        }
        for (i = 0; i < NU; i++) {
            CHECK(cstl_unique_ptr_get(&up[i]) == m[i].ptr);
            CHECK(cstl_unique_ptr_get_const(&up[i]) == m[i].ptr);
            if (m[i].cnt != NULL) { CHECK(*m[i].cnt == 0); }
        }
    }
    for (i = 0; i < NU; i++) {
        cstl_unique_ptr_reset(&up[i]);
        if (m[i].cnt != NULL) { CHECK(*m[i].cnt == 1); }
    }
    for (i = 0; i < ncnt; i++) { CHECK(counters[i] <= 1); }
}

/* arrays: slots over allocated and external buffers of several types */
#define NA 6
#define NBUF 2048

/*
 * forget what slot I refers to. an external buffer has to be taken back
 * with cstl_array_release() by its last user, never simply dropped
 */
#define DROP(I)                                                         \
    do {                                                                \
        const int k_ = m[(I)].buf;                                      \
        if (k_ >= 0 && buf[k_].ext == 1 && buf[k_].refs == 1) {         \
            void * rel_ = NULL;                                         \
            cstl_array_release(&arr[(I)], &rel_);                       \
            CHECK(rel_ == (void *)buf[k_].base);                        \
            CHECK(cstl_array_size(&arr[(I)]) == 0);                     \
            free(rel_);                                                 \
            buf[k_].ext = 2;                                            \
            buf[k_].refs = 0;                                           \
        } else if (k_ >= 0) {                                           \
            buf[k_].refs--;                                             \
        }                                                               \
        m[(I)].buf = -1;                                                \
    } while (0)

static void array_history(const int steps)
{
    static const size_t sizes[] = { 1, 2, 3, 4, 8, 12, 16, 24, 40 };
    cstl_array_t * arr = malloc(NA * sizeof(*arr));
    struct { int buf; size_t off, len; } m[NA];
    struct { unsigned char * base; size_t nm, sz; int ext, refs; } buf[NBUF];
    int nbuf = 0, i, t;

    for (i = 0; i < NA; i++) { cstl_array_init(&arr[i]); m[i].buf = -1; }

    for (t = 0; t < steps && failures == 0; t++) {
        const int a = rnd() % NA, b = rnd() % NA;
        n_steps++;
        switch (rnd() % 8) {
        case 0:
        case 1:
            if (nbuf < NBUF) {
                const size_t sz = sizes[rnd() % 9];
                size_t nm = rnd() % 40;
                const int ext = (rnd() % 3 == 0);
                if (rnd() % 16 == 0) { nm = 1000 + rnd() % 3000; }
                DROP(a);
                if (ext) {
                    void * const mem = malloc(nm * sz + 1);
                    cstl_array_set(&arr[a], mem, nm, sz);
                    CHECK(cstl_array_data(&arr[a]) == mem);
                } else {
                    cstl_array_alloc(&arr[a], nm, sz);
                }
                buf[nbuf].base = cstl_array_data(&arr[a]);
                CHECK(buf[nbuf].base != NULL);
                buf[nbuf].nm = nm; buf[nbuf].sz = sz;
                buf[nbuf].ext = ext; buf[nbuf].refs = 1;
                memset(buf[nbuf].base, nbuf & 0xff, nm * sz);
                m[a].buf = nbuf++; m[a].off = 0; m[a].len = nm;
            }
            break;
        case 2:
            DROP(a);
            cstl_array_reset(&arr[a]);
            break;
        case 3:
        case 4:
            if (m[a].buf >= 0) {
                const size_t beg = rnd() % (m[a].len + 1);
                const size_t end = beg + rnd() % (m[a].len - beg + 1);
                if (a != b) {
                    DROP(b);
                    buf[m[a].buf].refs++;
                }
                cstl_array_slice(&arr[a], beg, end, &arr[b]);
                m[b].buf = m[a].buf;
                m[b].off = m[a].off + beg;
                m[b].len = end - beg;
            }
            break;
        case 5:
            if (m[a].buf >= 0) {
                if (a != b) {
                    DROP(b);
                    buf[m[a].buf].refs++;
                }
                cstl_array_unslice(&arr[a], &arr[b]);
                m[b].buf = m[a].buf;
                m[b].off = 0;
                m[b].len = buf[m[a].buf].nm;
            }
            break;
        case 6:
        {
            void * rel = &rel;
            const int ok = m[a].buf >= 0 && buf[m[a].buf].ext
                && buf[m[a].buf].refs == 1;
            if (rnd() & 1) {
                cstl_array_release(&arr[a], &rel);
                CHECK(rel == (ok ? (void *)buf[m[a].buf].base : NULL));
            } else {
                cstl_array_release(&arr[a], NULL);
            }
            if (ok) {
                free(buf[m[a].buf].base);
                buf[m[a].buf].refs = 0;
                buf[m[a].buf].ext = 2; /* given back */
                m[a].buf = -1;
            }
            break;
        }
        default:
            if (rnd() % 8 == 0) {
                /* relocate all array objects the documented way */
                cstl_array_t * const n = malloc(NA * sizeof(*n));
                for (i = 0; i < NA; i++) {
                    cstl_array_init(&n[i]);
                    if (m[i].buf >= 0) {
                        cstl_array_slice(&arr[i], 0, m[i].len, &n[i]);
                    }
                    cstl_array_reset(&arr[i]);
                }
                memset(arr, 0xcc, NA * sizeof(*arr));
                free(arr);
                arr = n;
            }
            break;
        }

        for (i = 0; i < NA; i++) {
            if (m[i].buf < 0) {
                CHECK(cstl_array_size(&arr[i]) == 0);
                CHECK(cstl_array_data_const(&arr[i]) == NULL);
            } else {
                const int k = m[i].buf;
                size_t j;
                CHECK(cstl_array_size(&arr[i]) == m[i].len);
                CHECK(cstl_array_data(&arr[i]) == buf[k].base);
                for (j = 0; j < m[i].len; j += 1 + m[i].len / 5) {
                    unsigned char * const e = cstl_array_at(&arr[i], j);
                    CHECK(e == buf[k].base + (m[i].off + j) * buf[k].sz);
                    CHECK(cstl_array_at_const(&arr[i], j) == e);
                    CHECK(e[0] == (k & 0xff) && e[buf[k].sz - 1] == (k & 0xff));
                }
                if (m[i].len > 0) {
                    unsigned char * const e =
                        cstl_array_at(&arr[i], m[i].len - 1);
                    CHECK(e == buf[k].base
                          + (m[i].off + m[i].len - 1) * buf[k].sz);
                    memset(e, k & 0xff, buf[k].sz);
                }
            }
        }
    }

    for (i = 0; i < NA; i++) {
        DROP(i);
        cstl_array_reset(&arr[i]);
    }
    for (i = 0; i < nbuf; i++) {
        CHECK(buf[i].refs == 0 && buf[i].ext != 1);
    }
    free(arr);
}

/* ------------------------------------------------------------------ */
/* a little concurrency: properly shared objects never abort           */
/* ------------------------------------------------------------------ */

#define NTHR 4
static cstl_shared_ptr_t root;
static cstl_weak_ptr_t root_weak[NTHR];
static unsigned long thr_clr;
static pthread_mutex_t thr_mtx = PTHREAD_MUTEX_INITIALIZER;

static void thr_clr_fn(void * const mem, void * const priv)
{
    (void)mem; (void)priv;
    pthread_mutex_lock(&thr_mtx);
    thr_clr++;
    pthread_mutex_unlock(&thr_mtx);
}

static void * thr_main(void * const arg)
{
    const int me = (int)(intptr_t)arg;
    DECLARE_CSTL_SHARED_PTR(mine);
    DECLARE_CSTL_SHARED_PTR(tmp);
    DECLARE_CSTL_WEAK_PTR(w);
    int i;

    /* each thread owns root_weak[me]; root itself is only read */
    cstl_weak_ptr_lock(&root_weak[me], &mine);
    for (i = 0; i < 20000; i++) {
        cstl_weak_ptr_from(&w, &mine);
        cstl_weak_ptr_lock(&w, &tmp);
        if (cstl_shared_ptr_get(&tmp) != cstl_shared_ptr_get(&mine)) {
            return (void *)1;
        }
        cstl_shared_ptr_swap(&tmp, &mine);
        if (cstl_shared_ptr_unique(&mine)) {
            return (void *)2;
        }
        cstl_shared_ptr_reset(&tmp);
        if ((i & 7) == 0) {
            cstl_shared_ptr_reset(&mine);
            cstl_weak_ptr_lock(&root_weak[me], &mine);
            if (cstl_shared_ptr_get(&mine) == NULL) {
                return (void *)3;
            }
        }
    }
    cstl_weak_ptr_reset(&w);
    cstl_shared_ptr_reset(&mine);
    cstl_weak_ptr_reset(&root_weak[me]);
    return NULL;
}

static void threads(void)
{
    pthread_t th[NTHR];
    int i;

    cstl_shared_ptr_init(&root);
    cstl_shared_ptr_alloc(&root, 256, thr_clr_fn);
    for (i = 0; i < NTHR; i++) {
        cstl_weak_ptr_init(&root_weak[i]);
        cstl_weak_ptr_from(&root_weak[i], &root);
    }
    for (i = 0; i < NTHR; i++) {
        pthread_create(&th[i], NULL, thr_main, (void *)(intptr_t)i);
    }
    for (i = 0; i < NTHR; i++) {
        void * r = NULL;
        pthread_join(th[i], &r);
        CHECK(r == NULL);
    }
    CHECK(thr_clr == 0);
    CHECK(cstl_shared_ptr_unique(&root));
    cstl_shared_ptr_reset(&root);
    CHECK(thr_clr == 1);
}

/* ------------------------------------------------------------------ */

static void sweep(scenario_fn * const fn, const char * const what,
                  const int nstate, const int static_state,
                  const int nabort, const int nop)
{
    int how, state, op;
    for (how = 0; how < HOW_N; how++) {
        for (state = 0; state < nstate; state++) {
            if (state == static_state
                && (how == HOW_RELOC || how == HOW_SHIFT)) {
                continue;
            }
            for (op = 0; op < nop; op++) {
                run_child(fn, what, how, state, op, op < nabort);
            }
        }
    }
}

int main(void)
{
    int round;

    stage = mmap(NULL, sizeof(*stage), PROT_READ | PROT_WRITE,
                 MAP_SHARED | MAP_ANONYMOUS, -1, 0);
    if (stage == MAP_FAILED) {
        perror("mmap");
        return 2;
    }
    *stage = 0;

    sweep(guarded_scn, "guarded", GS_N, GS_STATIC, G_ABORT_N, G_N);
    sweep(unique_scn, "unique", US_N, US_STATIC, U_ABORT_N, U_N);
    sweep(shared_scn, "shared", SS_N, SS_STATIC, S_ABORT_N, S_N);
    sweep(weak_scn, "weak", WS_N, WS_STATIC, W_ABORT_N, W_N);
    sweep(array_scn, "array", AS_N, AS_STATIC, A_ABORT_N, A_N);
    run_child(proper_scn, "proper", 0, 0, 0, 0);

    *stage = 0;
    for (round = 0; round < 6 && failures == 0; round++) {
        rng_state = 0x9e3779b9u * (round + 1);
        shared_history(6000);
        unique_history(6000);
        array_history(6000);
    }
    if (failures == 0) {
        threads();
    }

    printf("C20: %lu stray calls aborted, %lu good children, "
           "%lu model steps, %d failure(s)\n",
           n_abort_cases, n_ok_cases, n_steps, failures);
    return failures == 0 ? 0 : 1;
}
