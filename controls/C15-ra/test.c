/*
 * C15: clear hands over each element exactly once and never touches it again.
 *
 * Standalone test, public API only.  Every element is a raw block described
 * by a "layout" (where the key lives, where the container node lives), so a
 * single program exercises many different element types at once.  Every
 * element handed to a container is registered in a table; the clear callback
 * checks that it is called exactly once per contained element and for nothing
 * else, then poisons the whole element.  Depending on the mode the poisoned
 * block is kept (so a later write by the library is detected and a later
 * read follows a garbage pointer), freed, or immediately re-used by putting
 * it into ANOTHER container object from inside the callback.
 */
#define _POSIX_C_SOURCE 199309L

#include <stdio.h>
#include <stdlib.h>
#include <string.h>
#include <stdint.h>

#include "cstl/bintree.h"
#include "cstl/rbtree.h"
#include "cstl/heap.h"
#include "cstl/slist.h"
#include "cstl/dlist.h"
#include "cstl/map.h"

#define FAIL(...)                                                       \
    do {                                                                \
        fprintf(stderr, "FAIL %s:%d: ", __FILE__, __LINE__);            \
        fprintf(stderr, __VA_ARGS__);                                   \
        fprintf(stderr, "\n");                                          \
        exit(1);                                                        \
    } while (0)
#define CHECK(C) do { if (!(C)) FAIL("%s", #C); } while (0)

/* ------------------------------------------------------------------ */
/* allocation accounting (see the build command: -Wl,--wrap=...)       */

void * __real_malloc(size_t);
void __real_free(void *);
void * __wrap_malloc(size_t);
void __wrap_free(void *);

static size_t live_blocks;

void * __wrap_malloc(const size_t n)
{
    void * const p = __real_malloc(n);
    if (p != NULL) {
        live_blocks++;
    }
    return p;
}

void __wrap_free(void * const p)
{
    if (p != NULL) {
        if (live_blocks == 0) {
            fprintf(stderr, "FAIL: more blocks freed than allocated\n");
            exit(1);
        }
        live_blocks--;
    }
    __real_free(p);
}

/* ------------------------------------------------------------------ */
/* deterministic random numbers                                        */

static uint32_t rng_state = 0x1234567u;
static uint32_t rnd(void)
{
    rng_state ^= rng_state << 13;
    rng_state ^= rng_state >> 17;
    rng_state ^= rng_state << 5;
    return rng_state;
}

/* ------------------------------------------------------------------ */
/* element layouts and the registry                                    */

struct layout
{
    size_t key_off;
    size_t node_off;
    size_t size;
};

#define POISON 0xA5
/* room reserved in every element for the container's node */
#define NODE_MAX 64

enum { ST_OUT, ST_IN, ST_HANDED };

struct rec
{
    void * p;
    size_t sz;
    int key;
    int state;
    int freed;
};

static struct rec * recs;
static size_t nrecs, caprecs;

static void recs_reset(void)
{
    size_t i;
    for (i = 0; i < nrecs; i++) {
        if (recs[i].freed == 0) {
            free(recs[i].p);
        }
    }
    nrecs = 0;
}

static struct rec * rec_find(const void * const p)
{
    size_t i;
    /* most recently made elements are looked up most often */
    for (i = nrecs; i > 0; i--) {
        if (recs[i - 1].freed == 0 && recs[i - 1].p == p) {
            return &recs[i - 1];
        }
    }
    return NULL;
}

static int key_of(const struct layout * const L, const void * const e)
{
    int k;
    memcpy(&k, (const char *)e + L->key_off, sizeof(k));
    return k;
}

static void * mk(const struct layout * const L, const int key)
{
    void * const p = malloc(L->size);
    CHECK(p != NULL);
    /* garbage everywhere: insertion has to initialise the node itself */
    memset(p, 0x5a, L->size);
    memcpy((char *)p + L->key_off, &key, sizeof(key));
    if (nrecs == caprecs) {
        struct rec * const bigger =
            malloc((caprecs ? caprecs * 2 : 64) * sizeof(*recs));
        CHECK(bigger != NULL);
        if (nrecs > 0) {
            memcpy(bigger, recs, nrecs * sizeof(*recs));
        }
        free(recs);
        recs = bigger;
        caprecs = caprecs ? caprecs * 2 : 64;
    }
    recs[nrecs].p = p;
    recs[nrecs].sz = L->size;
    recs[nrecs].key = key;
    recs[nrecs].state = ST_OUT;
    recs[nrecs].freed = 0;
    nrecs++;
    return p;
}

static void mark_in(void * const e)
{
    struct rec * const r = rec_find(e);
    CHECK(r != NULL && r->state == ST_OUT);
    r->state = ST_IN;
}

static void mark_out(void * const e)
{
    struct rec * const r = rec_find(e);
    CHECK(r != NULL && r->state == ST_IN);
    r->state = ST_OUT;
}

static size_t count_state(const int st)
{
    size_t i, n = 0;
    for (i = 0; i < nrecs; i++) {
        if (recs[i].state == st) {
            n++;
        }
    }
    return n;
}

/* ------------------------------------------------------------------ */
/* the clear callback                                                  */

enum { MODE_QUARANTINE, MODE_FREE, MODE_REUSE, MODE_COUNT };

static struct
{
    int mode;
    size_t calls;
    int check_priv;
    void * expect_priv;
    /* MODE_REUSE: put the element somewhere else straight away */
    void (* sink)(void * e);
    /* the element is keyed by this layout (used to check the key survived) */
    const struct layout * L;
    int depth;
} cb;

static void cb_setup(const int mode, const struct layout * const L,
                     void (* const sink)(void *),
                     const int check_priv, void * const priv)
{
    cb.mode = mode;
    cb.calls = 0;
    cb.check_priv = check_priv;
    cb.expect_priv = priv;
    cb.sink = sink;
    cb.L = L;
    cb.depth = 0;
}

static void handed(void * const e, void * const priv)
{
    struct rec * const r = rec_find(e);

    if (r == NULL) {
        FAIL("callback for %p which was never put in a container", e);
    }
    if (r->state == ST_HANDED) {
        FAIL("callback twice for %p (key %d)", e, r->key);
    }
    if (r->state != ST_IN) {
        FAIL("callback for %p (key %d) which is not in the container",
             e, r->key);
    }
    if (cb.check_priv && priv != cb.expect_priv) {
        FAIL("private pointer not passed through");
    }
    /* the element has to be intact when it is handed over */
    if (cb.L != NULL && key_of(cb.L, e) != r->key) {
        FAIL("element %p damaged before hand-over", e);
    }

    r->state = ST_HANDED;
    cb.calls++;

    switch (cb.mode) {
    case MODE_QUARANTINE:
        memset(e, POISON, r->sz);
        break;
    case MODE_FREE:
        memset(e, POISON, r->sz);
        r->freed = 1;
        free(e);
        break;
    case MODE_REUSE:
        /* scribble over the node, then use the memory in another object */
        if (cb.L != NULL) {
            memset((char *)e + cb.L->node_off, POISON, NODE_MAX);
        }
        r->state = ST_OUT;
        cb.sink(e);
        break;
    default:
        FAIL("bad mode");
    }
}

/* after clear: everything that was in is handed; poisoned blocks untouched */
static void after_clear(const size_t expect_calls)
{
    size_t i;

    if (cb.calls != expect_calls) {
        FAIL("%lu callbacks, expected %lu",
             (unsigned long)cb.calls, (unsigned long)expect_calls);
    }
    if (cb.mode != MODE_REUSE && count_state(ST_IN) != 0) {
        FAIL("an element was never handed over");
    }
    for (i = 0; i < nrecs; i++) {
        if (recs[i].state == ST_HANDED && recs[i].freed == 0) {
            const unsigned char * const b = recs[i].p;
            size_t j;
            for (j = 0; j < recs[i].sz; j++) {
                if (b[j] != POISON) {
                    FAIL("element %p written at byte %lu after its callback",
                         recs[i].p, (unsigned long)j);
                }
            }
        }
    }
}

static void never(void * const e, void * const p)
{
    (void)e; (void)p;
    FAIL("callback invoked by clear of an empty container");
}

/* ------------------------------------------------------------------ */
/* permutations                                                        */

static int next_perm(int * const a, const int n)
{
    int i = n - 2, j, t;
    while (i >= 0 && a[i] >= a[i + 1]) {
        i--;
    }
    if (i < 0) {
        return 0;
    }
    for (j = n - 1; a[j] <= a[i]; j--)
        ;
    t = a[i]; a[i] = a[j]; a[j] = t;
    for (i++, j = n - 1; i < j; i++, j--) {
        t = a[i]; a[i] = a[j]; a[j] = t;
    }
    return 1;
}

static int cmp_layout(const void * const a, const void * const b, void * const p)
{
    const struct layout * const L = p;
    const int x = key_of(L, a), y = key_of(L, b);
    return (x > y) - (x < y);
}

/* a few element types: key before the node, node first, node far away */
static const struct layout LAYOUTS[] = {
    { 0, 8, 8 + NODE_MAX },
    { NODE_MAX, 0, NODE_MAX + 8 },
    { 4, 40, 40 + NODE_MAX + 16 },
    { 16 + NODE_MAX, 16, 16 + NODE_MAX + 8 },
};
#define NLAYOUTS (sizeof(LAYOUTS) / sizeof(LAYOUTS[0]))

/* ------------------------------------------------------------------ */
/* binary tree                                                         */

/* a model of the unbalanced tree: same insertion rule as documented */
#define MODEL_MAX 64
static struct { int key, l, r; } mnode[MODEL_MAX];
static int mcount, mroot;

static void model_reset(void) { mcount = 0; mroot = -1; }
static void model_insert(const int key)
{
    int * c = &mroot;
    while (*c >= 0) {
        c = key < mnode[*c].key ? &mnode[*c].l : &mnode[*c].r;
    }
    mnode[mcount].key = key;
    mnode[mcount].l = mnode[mcount].r = -1;
    *c = mcount++;
}

struct event { int key; int ord; };
#define EVENT_MAX (3 * MODEL_MAX)
static struct event mev[EVENT_MAX]; static int nmev;
static size_t mhmin, mhmax;

static void model_walk(const int n, const int rev, const size_t depth)
{
    const int f = rev ? mnode[n].r : mnode[n].l;
    const int s = rev ? mnode[n].l : mnode[n].r;
    if (f < 0 && s < 0) {
        mev[nmev].key = mnode[n].key;
        mev[nmev++].ord = CSTL_BINTREE_VISIT_ORDER_LEAF;
        if (depth < mhmin) mhmin = depth;
        if (depth > mhmax) mhmax = depth;
        return;
    }
    mev[nmev].key = mnode[n].key;
    mev[nmev++].ord = CSTL_BINTREE_VISIT_ORDER_PRE;
    if (f >= 0) model_walk(f, rev, depth + 1);
    mev[nmev].key = mnode[n].key;
    mev[nmev++].ord = CSTL_BINTREE_VISIT_ORDER_MID;
    if (s >= 0) model_walk(s, rev, depth + 1);
    mev[nmev].key = mnode[n].key;
    mev[nmev++].ord = CSTL_BINTREE_VISIT_ORDER_POST;
}

static void model_events(const int rev)
{
    nmev = 0;
    mhmin = SIZE_MAX; mhmax = 0;
    if (mroot >= 0) {
        model_walk(mroot, rev, 1);
    } else {
        mhmin = 0;
    }
}

struct walk
{
    const struct layout * L;
    struct event ev[EVENT_MAX];
    int n;
    int stop_at;   /* return stop_at + 100 at this event; -1 never */
};

static int walk_visit(const void * const e,
                      const cstl_bintree_visit_order_t ord, void * const p)
{
    struct walk * const w = p;
    CHECK(w->n < EVENT_MAX);
    w->ev[w->n].key = key_of(w->L, e);
    w->ev[w->n].ord = ord;
    if (w->n++ == w->stop_at) {
        return w->stop_at + 100;
    }
    return 0;
}

/* the tree must behave exactly like the model, traversals and all */
static void bintree_check_model(const struct cstl_bintree * const bt,
                                const struct layout * const L,
                                const int early)
{
    static struct walk w;
    int rev, i, k;
    size_t hmin, hmax;

    CHECK(cstl_bintree_size(bt) == (size_t)mcount);

    for (rev = 0; rev < 2; rev++) {
        const cstl_bintree_foreach_dir_t dir =
            rev ? CSTL_BINTREE_FOREACH_DIR_REV : CSTL_BINTREE_FOREACH_DIR_FWD;
        model_events(rev);
        w.L = L; w.n = 0; w.stop_at = -1;
        CHECK(cstl_bintree_foreach(bt, walk_visit, &w, dir) == 0);
        CHECK(w.n == nmev);
        for (i = 0; i < nmev; i++) {
            CHECK(w.ev[i].key == mev[i].key && w.ev[i].ord == mev[i].ord);
        }
        if (early) {
            for (k = 0; k < nmev; k++) {
                w.n = 0; w.stop_at = k;
                CHECK(cstl_bintree_foreach(bt, walk_visit, &w, dir) == k + 100);
                CHECK(w.n == k + 1);
                for (i = 0; i <= k; i++) {
                    CHECK(w.ev[i].key == mev[i].key
                          && w.ev[i].ord == mev[i].ord);
                }
            }
        }
    }

    cstl_bintree_height(bt, &hmin, &hmax);
    CHECK(hmin == mhmin && hmax == mhmax);

    for (i = 0; i < mcount; i++) {
        char probe[256];
        const void * f;
        memset(probe, 0, sizeof(probe));
        memcpy(probe + L->key_off, &mnode[i].key, sizeof(int));
        f = cstl_bintree_find(bt, probe, NULL);
        CHECK(f != NULL && key_of(L, f) == mnode[i].key);
    }
}

static int count_visit(const void * const e,
                       const cstl_bintree_visit_order_t ord, void * const p)
{
    (void)e; (void)ord;
    ++*(size_t *)p;
    return 0;
}

/* a cleared tree is indistinguishable from a freshly initialised one */
static void bintree_check_fresh(struct cstl_bintree * const bt,
                                const struct layout * const L)
{
    struct cstl_bintree fresh;
    size_t n = 0, hmin = 9, hmax = 9;
    char probe[256];

    memset(&fresh, 0, sizeof(fresh));
    cstl_bintree_init(&fresh, cmp_layout, (void *)L, L->node_off);
    CHECK(cstl_bintree_size(bt) == 0);
    CHECK(cstl_bintree_size(bt) == cstl_bintree_size(&fresh));
    CHECK(cstl_bintree_foreach(bt, count_visit, &n,
                               CSTL_BINTREE_FOREACH_DIR_FWD) == 0 && n == 0);
    CHECK(cstl_bintree_foreach(bt, count_visit, &n,
                               CSTL_BINTREE_FOREACH_DIR_REV) == 0 && n == 0);
    cstl_bintree_height(bt, &hmin, &hmax);
    CHECK(hmin == 0 && hmax == 0);
    memset(probe, 0, sizeof(probe));
    CHECK(cstl_bintree_find(bt, probe, NULL) == NULL);
    CHECK(cstl_bintree_erase(bt, probe) == NULL);
    cstl_bintree_clear(bt, never, NULL);
    CHECK(cstl_bintree_size(bt) == 0);
}

static struct cstl_bintree bt_sink;
static size_t bt_sink_events;
static void bt_sink_put(void * const e)
{
    size_t hmin, hmax;
    cstl_bintree_insert(&bt_sink, e, NULL);
    mark_in(e);
    /* walk the OTHER tree from inside the callback */
    cstl_bintree_foreach(&bt_sink, count_visit, &bt_sink_events,
                         CSTL_BINTREE_FOREACH_DIR_REV);
    cstl_bintree_height(&bt_sink, &hmin, &hmax);
    CHECK(hmax >= hmin && hmax <= cstl_bintree_size(&bt_sink));
}

struct sorted_priv { const struct layout * L; int last; size_t n; };
static int sorted_visit(const void * const e,
                        const cstl_bintree_visit_order_t ord, void * const p)
{
    struct sorted_priv * const sp = p;
    if (ord == CSTL_BINTREE_VISIT_ORDER_MID
        || ord == CSTL_BINTREE_VISIT_ORDER_LEAF) {
        const int k = key_of(sp->L, e);
        CHECK(sp->n == 0 || k >= sp->last);
        sp->last = k;
        sp->n++;
    }
    return 0;
}

static void bintree_one(const int * const keys, const int n,
                        const unsigned int erase_mask,
                        const struct layout * const L, const int mode,
                        const int early, const int use_static)
{
    struct cstl_bintree dyn;
    struct cstl_bintree * bt = &dyn;
    int token, i;
    size_t in;

    recs_reset();
    (void)use_static;
    cstl_bintree_init(&dyn, cmp_layout, (void *)L, L->node_off);
    cstl_bintree_init(&bt_sink, cmp_layout, (void *)L, L->node_off);

    model_reset();
    for (i = 0; i < n; i++) {
        void * const e = mk(L, keys[i]);
        cstl_bintree_insert(bt, e, NULL);
        mark_in(e);
        model_insert(keys[i]);
    }
    bintree_check_model(bt, L, early);

    /* optionally take some elements out again: no callback for those */
    for (i = 0; i < n; i++) {
        if (i < 32 && (erase_mask & (1u << i)) != 0) {
            char probe[256];
            void * e;
            memset(probe, 0, sizeof(probe));
            memcpy(probe + L->key_off, &keys[i], sizeof(int));
            e = cstl_bintree_erase(bt, probe);
            CHECK(e != NULL && key_of(L, e) == keys[i]);
            mark_out(e);
        }
    }
    in = count_state(ST_IN);
    CHECK(cstl_bintree_size(bt) == in);

    cb_setup(mode, L, bt_sink_put, 1, &token);
    cstl_bintree_clear(bt, handed, &token);
    after_clear(in);
    bintree_check_fresh(bt, L);

    if (mode == MODE_REUSE) {
        struct sorted_priv sp;
        sp.L = L; sp.n = 0; sp.last = 0;
        CHECK(cstl_bintree_size(&bt_sink) == in);
        cstl_bintree_foreach(&bt_sink, sorted_visit, &sp,
                             CSTL_BINTREE_FOREACH_DIR_FWD);
        CHECK(sp.n == in);
        cb_setup(MODE_QUARANTINE, L, NULL, 1, NULL);
        cstl_bintree_clear(&bt_sink, handed, NULL);
        after_clear(in);
        bintree_check_fresh(&bt_sink, L);
    }

    /* fill again, in another order, with new elements */
    model_reset();
    for (i = n - 1; i >= 0; i--) {
        void * const e = mk(L, keys[i] * 3 + 1);
        cstl_bintree_insert(bt, e, NULL);
        mark_in(e);
        model_insert(keys[i] * 3 + 1);
    }
    bintree_check_model(bt, L, 0);
    cb_setup(MODE_FREE, L, NULL, 1, bt);
    cstl_bintree_clear(bt, handed, bt);
    after_clear((size_t)n);
    bintree_check_fresh(bt, L);
}

struct s_bt { char pad[3]; int key; struct cstl_bintree_node n; char room[NODE_MAX]; };
static const struct layout L_s_bt = {
    offsetof(struct s_bt, key), offsetof(struct s_bt, n), sizeof(struct s_bt)
};
static DECLARE_CSTL_BINTREE(static_bt, struct s_bt, n,
                            cmp_layout, (void *)&L_s_bt);

static void test_bintree(void)
{
    int keys[8], n, i, round;
    unsigned long cases = 0;

    for (n = 0; n <= 7; n++) {
        unsigned int pi = 0;
        for (i = 0; i < n; i++) keys[i] = i;
        do {
            const struct layout * const L = &LAYOUTS[pi % NLAYOUTS];
            const int mode = (pi / NLAYOUTS) % MODE_COUNT;
            unsigned int mask = 0;
            if (pi % 5 == 3) mask = rnd() & ((1u << n) - 1);
            bintree_one(keys, n, mask, L, mode, n <= 5, 0);
            cases++;
            pi++;
        } while (next_perm(keys, n));
    }

    /* every mode and layout on every shape of up to 5 nodes */
    for (n = 0; n <= 5; n++) {
        for (i = 0; i < n; i++) keys[i] = i;
        do {
            unsigned int l; int mode;
            for (l = 0; l < NLAYOUTS; l++) {
                for (mode = 0; mode < MODE_COUNT; mode++) {
                    bintree_one(keys, n, 0, &LAYOUTS[l], mode, 0, 0);
                    cases++;
                }
            }
        } while (next_perm(keys, n));
    }

    /* random, larger, with duplicates never (model needs unique keys) */
    for (round = 0; round < 300; round++) {
        int big[MODEL_MAX], m = (int)(rnd() % 40), j;
        for (i = 0; i < m; i++) big[i] = i;
        for (i = m - 1; i > 0; i--) {
            j = (int)(rnd() % (unsigned)(i + 1));
            n = big[i]; big[i] = big[j]; big[j] = n;
        }
        bintree_one(big, m, rnd(), &LAYOUTS[round % NLAYOUTS],
                    round % MODE_COUNT, 0, 0);
        cases++;
    }

    /* degenerate chains, both ways, and a zig-zag: deep trees */
    for (round = 0; round < 3; round++) {
        struct cstl_bintree bt;
        const struct layout * const L = &LAYOUTS[round];
        const int N = 3000;
        size_t hmin, hmax;
        recs_reset();
        cstl_bintree_init(&bt, cmp_layout, (void *)L, L->node_off);
        for (i = 0; i < N; i++) {
            int k = round == 0 ? i : round == 1 ? N - i
                    : (i % 2 ? N - i / 2 : i / 2);
            void * const e = mk(L, k);
            cstl_bintree_insert(&bt, e, NULL);
            mark_in(e);
        }
        cstl_bintree_height(&bt, &hmin, &hmax);
        if (hmin != (size_t)N || hmax != (size_t)N) FAIL("round %d height %lu %lu", round, (unsigned long)hmin, (unsigned long)hmax);
        cb_setup(round == 1 ? MODE_FREE : MODE_QUARANTINE, L, NULL, 1, &bt);
        cstl_bintree_clear(&bt, handed, &bt);
        after_clear((size_t)N);
        bintree_check_fresh(&bt, L);
        cases++;
    }

    /* the statically initialised tree */
    for (round = 0; round < 20; round++) {
        size_t in = 0;
        recs_reset();
        bintree_check_fresh(&static_bt, &L_s_bt);
        n = (int)(rnd() % 30);
        for (i = 0; i < n; i++) {
            void * const e = mk(&L_s_bt, (int)(rnd() % 10));   /* duplicates */
            cstl_bintree_insert(&static_bt, e, NULL);
            mark_in(e);
            in++;
        }
        cb_setup(round % 2, &L_s_bt, NULL, 1, NULL);
        cstl_bintree_clear(&static_bt, handed, NULL);
        after_clear(in);
        bintree_check_fresh(&static_bt, &L_s_bt);
        cases++;
    }

    printf("bintree: %lu cases\n", cases);
}

/* ------------------------------------------------------------------ */
/* red-black tree                                                      */

static void rbtree_check_fresh(struct cstl_rbtree * const t)
{
    size_t n = 0, hmin = 9, hmax = 9;
    char probe[256];

    CHECK(cstl_rbtree_size(t) == 0);
    CHECK(cstl_rbtree_foreach(t, count_visit, &n,
                              CSTL_BINTREE_FOREACH_DIR_FWD) == 0 && n == 0);
    cstl_rbtree_height(t, &hmin, &hmax);
    CHECK(hmin == 0 && hmax == 0);
    memset(probe, 0, sizeof(probe));
    CHECK(cstl_rbtree_find(t, probe, NULL) == NULL);
    CHECK(cstl_rbtree_erase(t, probe) == NULL);
    cstl_rbtree_clear(t, never, NULL);
    CHECK(cstl_rbtree_size(t) == 0);
}

static void rbtree_check_content(const struct cstl_rbtree * const t,
                                 const struct layout * const L,
                                 const size_t n)
{
    struct sorted_priv sp;
    size_t hmin, hmax;
    sp.L = L; sp.n = 0; sp.last = 0;
    CHECK(cstl_rbtree_size(t) == n);
    CHECK(cstl_rbtree_foreach(t, sorted_visit, &sp,
                              CSTL_BINTREE_FOREACH_DIR_FWD) == 0);
    CHECK(sp.n == n);
    cstl_rbtree_height(t, &hmin, &hmax);
    /* red-black: the longest path is at most twice the shortest */
    CHECK(hmax <= 2 * hmin && (n == 0) == (hmax == 0));
}

static struct cstl_rbtree rb_sink;
static const struct layout * rb_sink_L;
static void rb_sink_put(void * const e)
{
    cstl_rbtree_insert(&rb_sink, e, NULL);
    mark_in(e);
    if (cstl_rbtree_size(&rb_sink) % 4 == 0) {
        rbtree_check_content(&rb_sink, rb_sink_L, cstl_rbtree_size(&rb_sink));
    }
}

static void rbtree_one(const int * const keys, const int n,
                       const unsigned int erase_mask,
                       const struct layout * const L, const int mode)
{
    struct cstl_rbtree t;
    int token, i;
    size_t in;

    recs_reset();
    cstl_rbtree_init(&t, cmp_layout, (void *)L, L->node_off);
    cstl_rbtree_init(&rb_sink, cmp_layout, (void *)L, L->node_off);
    rb_sink_L = L;
    rbtree_check_fresh(&t);

    for (i = 0; i < n; i++) {
        void * const e = mk(L, keys[i]);
        cstl_rbtree_insert(&t, e, NULL);
        mark_in(e);
    }
    rbtree_check_content(&t, L, (size_t)n);
    for (i = 0; i < n; i++) {
        if (i < 32 && (erase_mask & (1u << i)) != 0) {
            char probe[256];
            void * e;
            memset(probe, 0, sizeof(probe));
            memcpy(probe + L->key_off, &keys[i], sizeof(int));
            e = cstl_rbtree_erase(&t, probe);
            CHECK(e != NULL && key_of(L, e) == keys[i]);
            mark_out(e);
        }
    }
    in = count_state(ST_IN);
    rbtree_check_content(&t, L, in);

    cb_setup(mode, L, rb_sink_put, 1, &token);
    cstl_rbtree_clear(&t, handed, &token);
    after_clear(in);
    rbtree_check_fresh(&t);

    if (mode == MODE_REUSE) {
        rbtree_check_content(&rb_sink, L, in);
        cb_setup(MODE_QUARANTINE, L, NULL, 1, NULL);
        cstl_rbtree_clear(&rb_sink, handed, NULL);
        after_clear(in);
        rbtree_check_fresh(&rb_sink);
    }

    for (i = n - 1; i >= 0; i--) {
        void * const e = mk(L, keys[i] / 2);    /* duplicates now */
        cstl_rbtree_insert(&t, e, NULL);
        mark_in(e);
        rbtree_check_content(&t, L, (size_t)(n - i));
    }
    cb_setup(MODE_FREE, L, NULL, 1, &t);
    cstl_rbtree_clear(&t, handed, &t);
    after_clear((size_t)n);
    rbtree_check_fresh(&t);
}

struct s_rb { struct cstl_rbtree_node n; char room[NODE_MAX]; int key; };
static const struct layout L_s_rb = {
    offsetof(struct s_rb, key), offsetof(struct s_rb, n), sizeof(struct s_rb)
};
static DECLARE_CSTL_RBTREE(static_rb, struct s_rb, n,
                           cmp_layout, (void *)&L_s_rb);

static void test_rbtree(void)
{
    int keys[64], n, i, round;
    unsigned long cases = 0;

    for (n = 0; n <= 7; n++) {
        unsigned int pi = 0;
        for (i = 0; i < n; i++) keys[i] = i;
        do {
            unsigned int mask = 0;
            if (pi % 3 == 1) mask = rnd() & ((1u << n) - 1);
            rbtree_one(keys, n, mask, &LAYOUTS[pi % NLAYOUTS],
                       (int)((pi / NLAYOUTS) % MODE_COUNT));
            cases++;
            pi++;
        } while (next_perm(keys, n));
    }
    for (round = 0; round < 400; round++) {
        int j, m = (int)(rnd() % 64);
        for (i = 0; i < m; i++) keys[i] = i;
        for (i = m - 1; i > 0; i--) {
            j = (int)(rnd() % (unsigned)(i + 1));
            n = keys[i]; keys[i] = keys[j]; keys[j] = n;
        }
        rbtree_one(keys, m, rnd() & rnd(), &LAYOUTS[round % NLAYOUTS],
                   round % MODE_COUNT);
        cases++;
    }
    for (round = 0; round < 20; round++) {
        recs_reset();
        rbtree_check_fresh(&static_rb);
        n = (int)(rnd() % 50);
        for (i = 0; i < n; i++) {
            void * const e = mk(&L_s_rb, (int)(rnd() % 16));
            cstl_rbtree_insert(&static_rb, e, NULL);
            mark_in(e);
        }
        rbtree_check_content(&static_rb, &L_s_rb, (size_t)n);
        cb_setup(round % 2, &L_s_rb, NULL, 1, &static_rb);
        cstl_rbtree_clear(&static_rb, handed, &static_rb);
        after_clear((size_t)n);
        rbtree_check_fresh(&static_rb);
        cases++;
    }
    printf("rbtree: %lu cases\n", cases);
}

/* ------------------------------------------------------------------ */
/* heap                                                                */

static void heap_check_fresh(struct cstl_heap * const h)
{
    CHECK(cstl_heap_size(h) == 0);
    CHECK(cstl_heap_get(h) == NULL);
    CHECK(cstl_heap_pop(h) == NULL);
    cstl_heap_clear(h, never);
    CHECK(cstl_heap_size(h) == 0);
}

static struct cstl_heap heap_sink;
static void heap_sink_put(void * const e)
{
    cstl_heap_push(&heap_sink, e);
    mark_in(e);
}

/* pop everything: must come out highest first, and be exactly @n */
static void heap_drain(struct cstl_heap * const h,
                       const struct layout * const L, const size_t n)
{
    size_t i;
    int last = 0;
    CHECK(cstl_heap_size(h) == n);
    for (i = 0; i < n; i++) {
        const void * const top = cstl_heap_get(h);
        void * const e = cstl_heap_pop(h);
        CHECK(e != NULL && e == top);
        CHECK(i == 0 || key_of(L, e) <= last);
        last = key_of(L, e);
        mark_out(e);
        CHECK(cstl_heap_size(h) == n - i - 1);
    }
    heap_check_fresh(h);
}

static void heap_one(const int n, const int pops,
                     const struct layout * const L, const int mode)
{
    struct cstl_heap h;
    int i;
    size_t in;

    recs_reset();
    cstl_heap_init(&h, cmp_layout, (void *)L, L->node_off);
    cstl_heap_init(&heap_sink, cmp_layout, (void *)L, L->node_off);
    heap_check_fresh(&h);

    for (i = 0; i < n; i++) {
        void * const e = mk(L, (int)(rnd() % 20));
        cstl_heap_push(&h, e);
        mark_in(e);
    }
    for (i = 0; i < pops && i < n; i++) {
        mark_out(cstl_heap_pop(&h));
    }
    in = count_state(ST_IN);
    CHECK(cstl_heap_size(&h) == in);

    cb_setup(mode, L, heap_sink_put, 0, NULL);
    cstl_heap_clear(&h, handed);
    after_clear(in);
    heap_check_fresh(&h);

    if (mode == MODE_REUSE) {
        heap_drain(&heap_sink, L, in);
    }

    /* the cleared heap takes a new fill and orders it properly */
    for (i = 0; i < n + 3; i++) {
        void * const e = mk(L, (int)(rnd() % 50));
        cstl_heap_push(&h, e);
        mark_in(e);
    }
    if (n % 2) {
        heap_drain(&h, L, (size_t)n + 3);
    } else {
        cb_setup(MODE_FREE, L, NULL, 0, NULL);
        cstl_heap_clear(&h, handed);
        after_clear((size_t)n + 3);
        heap_check_fresh(&h);
    }
}

struct s_hp { int key; struct cstl_heap_node n; char room[NODE_MAX]; };
static const struct layout L_s_hp = {
    offsetof(struct s_hp, key), offsetof(struct s_hp, n), sizeof(struct s_hp)
};
static DECLARE_CSTL_HEAP(static_hp, struct s_hp, n,
                         cmp_layout, (void *)&L_s_hp);

static void test_heap(void)
{
    int n, mode, round, i;
    unsigned int l;
    unsigned long cases = 0;

    for (n = 0; n <= 40; n++) {
        for (l = 0; l < NLAYOUTS; l++) {
            for (mode = 0; mode < MODE_COUNT; mode++) {
                heap_one(n, 0, &LAYOUTS[l], mode);
                heap_one(n, (int)(rnd() % (unsigned)(n + 1)),
                         &LAYOUTS[l], mode);
                cases += 2;
            }
        }
    }
    heap_one(1000, 0, &LAYOUTS[0], MODE_QUARANTINE);
    heap_one(1023, 300, &LAYOUTS[1], MODE_REUSE);
    heap_one(1024, 1, &LAYOUTS[2], MODE_FREE);
    cases += 3;

    for (round = 0; round < 20; round++) {
        recs_reset();
        heap_check_fresh(&static_hp);
        n = (int)(rnd() % 33);
        for (i = 0; i < n; i++) {
            void * const e = mk(&L_s_hp, (int)(rnd() % 9));
            cstl_heap_push(&static_hp, e);
            mark_in(e);
        }
        cb_setup(round % 2, &L_s_hp, NULL, 0, NULL);
        cstl_heap_clear(&static_hp, handed);
        after_clear((size_t)n);
        heap_check_fresh(&static_hp);
        cases++;
    }
    printf("heap: %lu cases\n", cases);
}

/* ------------------------------------------------------------------ */
/* lists                                                               */

struct seq { const struct layout * L; int key[4096]; size_t n; int stop_at; };
static struct seq seq_a, seq_b;

static int seq_visit(void * const e, void * const p)
{
    struct seq * const s = p;
    CHECK(s->n < 4096);
    s->key[s->n] = key_of(s->L, e);
    if ((int)s->n++ == s->stop_at) {
        return 77;
    }
    return 0;
}

static int cmp_int(const void * a, const void * b)
{
    const int x = *(const int *)a, y = *(const int *)b;
    return (x > y) - (x < y);
}

/* --- singly-linked --- */

static void slist_expect(struct cstl_slist * const sl,
                         const struct layout * const L,
                         const int * const keys, const size_t n)
{
    size_t i;
    CHECK(cstl_slist_size(sl) == n);
    seq_a.L = L; seq_a.n = 0; seq_a.stop_at = -1;
    CHECK(cstl_slist_foreach(sl, seq_visit, &seq_a) == 0);
    CHECK(seq_a.n == n);
    for (i = 0; i < n; i++) {
        CHECK(seq_a.key[i] == keys[i]);
    }
    if (n == 0) {
        CHECK(cstl_slist_front(sl) == NULL && cstl_slist_back(sl) == NULL);
    } else {
        CHECK(key_of(L, cstl_slist_front(sl)) == keys[0]);
        CHECK(key_of(L, cstl_slist_back(sl)) == keys[n - 1]);
    }
}

static void slist_check_fresh(struct cstl_slist * const sl,
                              const struct layout * const L)
{
    struct cstl_slist other;
    slist_expect(sl, L, NULL, 0);
    CHECK(cstl_slist_pop_front(sl) == NULL);
    cstl_slist_reverse(sl);
    cstl_slist_sort(sl, cmp_layout, (void *)L);
    cstl_slist_init(&other, L->node_off);
    cstl_slist_concat(sl, &other);
    cstl_slist_concat(&other, sl);
    cstl_slist_swap(sl, &other);
    cstl_slist_clear(sl, never);
    cstl_slist_clear(&other, never);
    slist_expect(sl, L, NULL, 0);
    slist_expect(&other, L, NULL, 0);
}

static struct cstl_slist sl_sink;
static const struct layout * sl_sink_L;
static void sl_sink_put(void * const e)
{
    if (key_of(sl_sink_L, e) % 2) {
        cstl_slist_push_front(&sl_sink, e);
    } else {
        cstl_slist_push_back(&sl_sink, e);
    }
    mark_in(e);
    if (cstl_slist_size(&sl_sink) % 3 == 0) {
        cstl_slist_reverse(&sl_sink);
    }
}

static void slist_one(const int n, const int how,
                      const struct layout * const L, const int mode)
{
    struct cstl_slist sl, more;
    int keys[256], i;
    size_t in;
    void * e;

    recs_reset();
    cstl_slist_init(&sl, L->node_off);
    cstl_slist_init(&more, L->node_off);
    cstl_slist_init(&sl_sink, L->node_off);
    sl_sink_L = L;
    slist_check_fresh(&sl, L);

    /* build the list one way or another */
    for (i = 0; i < n; i++) {
        e = mk(L, (int)(rnd() % 30));
        switch (how % 4) {
        case 0: cstl_slist_push_back(&sl, e); break;
        case 1: cstl_slist_push_front(&sl, e); break;
        case 2:
            if (i == 0) cstl_slist_push_front(&sl, e);
            else cstl_slist_insert_after(&sl, cstl_slist_front(&sl), e);
            break;
        default:
            cstl_slist_push_back(i % 2 ? &more : &sl, e);
            break;
        }
        mark_in(e);
    }
    cstl_slist_concat(&sl, &more);
    switch ((how / 4) % 4) {
    case 1: cstl_slist_reverse(&sl); break;
    case 2: cstl_slist_sort(&sl, cmp_layout, (void *)L); break;
    case 3:
        if (n > 0) { mark_out(cstl_slist_pop_front(&sl)); }
        if (n > 2) {
            mark_out(cstl_slist_erase_after(&sl, cstl_slist_front(&sl)));
        }
        break;
    default: break;
    }
    in = count_state(ST_IN);
    CHECK(cstl_slist_size(&sl) == in);

    cb_setup(mode, L, sl_sink_put, 0, NULL);
    cstl_slist_clear(&sl, handed);
    after_clear(in);
    slist_check_fresh(&sl, L);

    if (mode == MODE_REUSE) {
        CHECK(cstl_slist_size(&sl_sink) == in);
        seq_b.L = L; seq_b.n = 0; seq_b.stop_at = -1;
        cstl_slist_foreach(&sl_sink, seq_visit, &seq_b);
        CHECK(seq_b.n == in);
        cb_setup(MODE_QUARANTINE, L, NULL, 0, NULL);
        cstl_slist_clear(&sl_sink, handed);
        after_clear(in);
        slist_check_fresh(&sl_sink, L);
    }

    /* refill: the tail has to be right for push_back to work */
    for (i = 0; i < n + 2; i++) {
        keys[i] = (int)(rnd() % 30);
        e = mk(L, keys[i]);
        cstl_slist_push_back(&sl, e);
        mark_in(e);
    }
    slist_expect(&sl, L, keys, (size_t)n + 2);
    cstl_slist_sort(&sl, cmp_layout, (void *)L);
    qsort(keys, (size_t)n + 2, sizeof(int), cmp_int);
    slist_expect(&sl, L, keys, (size_t)n + 2);
    cstl_slist_reverse(&sl);
    e = mk(L, -5);
    cstl_slist_push_back(&sl, e);
    mark_in(e);
    CHECK(cstl_slist_back(&sl) == e);
    CHECK(key_of(L, cstl_slist_front(&sl)) == keys[n + 1]);
    cb_setup(MODE_FREE, L, NULL, 0, NULL);
    cstl_slist_clear(&sl, handed);
    after_clear((size_t)n + 3);
    slist_check_fresh(&sl, L);
}

struct s_sl { short key_pad; int key; struct cstl_slist_node n; char room[NODE_MAX]; };
static const struct layout L_s_sl = {
    offsetof(struct s_sl, key), offsetof(struct s_sl, n), sizeof(struct s_sl)
};
static DECLARE_CSTL_SLIST(static_sl, struct s_sl, n);

/* --- doubly-linked --- */

static void dlist_expect(struct cstl_dlist * const l,
                         const struct layout * const L,
                         const int * const keys, const size_t n)
{
    size_t i;
    CHECK(cstl_dlist_size(l) == n);
    seq_a.L = L; seq_a.n = 0; seq_a.stop_at = -1;
    CHECK(cstl_dlist_foreach(l, seq_visit, &seq_a,
                             CSTL_DLIST_FOREACH_DIR_FWD) == 0);
    CHECK(seq_a.n == n);
    for (i = 0; i < n; i++) {
        CHECK(seq_a.key[i] == keys[i]);
    }
    seq_a.n = 0;
    CHECK(cstl_dlist_foreach(l, seq_visit, &seq_a,
                             CSTL_DLIST_FOREACH_DIR_REV) == 0);
    CHECK(seq_a.n == n);
    for (i = 0; i < n; i++) {
        CHECK(seq_a.key[i] == keys[n - 1 - i]);
    }
    /* stopping early, from both ends */
    for (i = 0; i < n && i < 3; i++) {
        seq_a.n = 0; seq_a.stop_at = (int)i;
        CHECK(cstl_dlist_foreach(l, seq_visit, &seq_a,
                                 CSTL_DLIST_FOREACH_DIR_FWD) == 77);
        CHECK(seq_a.n == i + 1 && seq_a.key[i] == keys[i]);
        seq_a.n = 0;
        CHECK(cstl_dlist_foreach(l, seq_visit, &seq_a,
                                 CSTL_DLIST_FOREACH_DIR_REV) == 77);
        CHECK(seq_a.n == i + 1 && seq_a.key[i] == keys[n - 1 - i]);
    }
    seq_a.stop_at = -1;
    if (n == 0) {
        CHECK(cstl_dlist_front(l) == NULL && cstl_dlist_back(l) == NULL);
    } else {
        CHECK(key_of(L, cstl_dlist_front(l)) == keys[0]);
        CHECK(key_of(L, cstl_dlist_back(l)) == keys[n - 1]);
    }
}

static void dlist_check_fresh(struct cstl_dlist * const l,
                              const struct layout * const L)
{
    struct cstl_dlist other;
    char probe[256];
    dlist_expect(l, L, NULL, 0);
    CHECK(cstl_dlist_pop_front(l) == NULL);
    CHECK(cstl_dlist_pop_back(l) == NULL);
    memset(probe, 0, sizeof(probe));
    CHECK(cstl_dlist_find(l, probe, cmp_layout, (void *)L,
                          CSTL_DLIST_FOREACH_DIR_FWD) == NULL);
    CHECK(cstl_dlist_find(l, probe, cmp_layout, (void *)L,
                          CSTL_DLIST_FOREACH_DIR_REV) == NULL);
    cstl_dlist_reverse(l);
    cstl_dlist_sort(l, cmp_layout, (void *)L);
    cstl_dlist_init(&other, L->node_off);
    cstl_dlist_concat(l, &other);
    cstl_dlist_concat(&other, l);
    cstl_dlist_swap(l, &other);
    cstl_dlist_clear(l, never);
    cstl_dlist_clear(&other, never);
    dlist_expect(l, L, NULL, 0);
    dlist_expect(&other, L, NULL, 0);
}

static struct cstl_dlist dl_sink;
static const struct layout * dl_sink_L;
static void dl_sink_put(void * const e)
{
    if (key_of(dl_sink_L, e) % 2) {
        cstl_dlist_push_front(&dl_sink, e);
    } else {
        cstl_dlist_push_back(&dl_sink, e);
    }
    mark_in(e);
    if (cstl_dlist_size(&dl_sink) % 3 == 0) {
        cstl_dlist_reverse(&dl_sink);
    }
    CHECK(cstl_dlist_find(&dl_sink, e, cmp_layout, (void *)dl_sink_L,
                          CSTL_DLIST_FOREACH_DIR_REV) != NULL);
}

static void dlist_one(const int n, const int how,
                      const struct layout * const L, const int mode)
{
    struct cstl_dlist l, more;
    int keys[256], i;
    size_t in;
    void * e;

    recs_reset();
    cstl_dlist_init(&l, L->node_off);
    cstl_dlist_init(&more, L->node_off);
    cstl_dlist_init(&dl_sink, L->node_off);
    dl_sink_L = L;
    dlist_check_fresh(&l, L);

    for (i = 0; i < n; i++) {
        e = mk(L, (int)(rnd() % 30));
        switch (how % 4) {
        case 0: cstl_dlist_push_back(&l, e); break;
        case 1: cstl_dlist_push_front(&l, e); break;
        case 2:
            if (i == 0) cstl_dlist_push_front(&l, e);
            else cstl_dlist_insert(&l, cstl_dlist_front(&l), e);
            break;
        default:
            cstl_dlist_push_back(i % 2 ? &more : &l, e);
            break;
        }
        mark_in(e);
    }
    cstl_dlist_concat(&l, &more);
    switch ((how / 4) % 4) {
    case 1: cstl_dlist_reverse(&l); break;
    case 2: cstl_dlist_sort(&l, cmp_layout, (void *)L); break;
    case 3:
        if (n > 0) { mark_out(cstl_dlist_pop_front(&l)); }
        if (n > 1) { mark_out(cstl_dlist_pop_back(&l)); }
        if (n > 4) {
            e = cstl_dlist_front(&l);
            cstl_dlist_erase(&l, e);
            mark_out(e);
        }
        break;
    default: break;
    }
    in = count_state(ST_IN);
    CHECK(cstl_dlist_size(&l) == in);

    cb_setup(mode, L, dl_sink_put, 0, NULL);
    cstl_dlist_clear(&l, handed);
    after_clear(in);
    dlist_check_fresh(&l, L);

    if (mode == MODE_REUSE) {
        CHECK(cstl_dlist_size(&dl_sink) == in);
        seq_b.L = L; seq_b.n = 0; seq_b.stop_at = -1;
        cstl_dlist_foreach(&dl_sink, seq_visit, &seq_b,
                           CSTL_DLIST_FOREACH_DIR_REV);
        CHECK(seq_b.n == in);
        cb_setup(MODE_QUARANTINE, L, NULL, 0, NULL);
        cstl_dlist_clear(&dl_sink, handed);
        after_clear(in);
        dlist_check_fresh(&dl_sink, L);
    }

    for (i = 0; i < n + 2; i++) {
        keys[i] = (int)(rnd() % 30);
        e = mk(L, keys[i]);
        if (i % 2) {
            cstl_dlist_push_back(&l, e);
        } else {
            cstl_dlist_push_front(&l, e);
        }
        mark_in(e);
    }
    cstl_dlist_sort(&l, cmp_layout, (void *)L);
    qsort(keys, (size_t)n + 2, sizeof(int), cmp_int);
    dlist_expect(&l, L, keys, (size_t)n + 2);
    cstl_dlist_reverse(&l);
    CHECK(key_of(L, cstl_dlist_front(&l)) == keys[n + 1]);
    CHECK(key_of(L, cstl_dlist_back(&l)) == keys[0]);
    cb_setup(MODE_FREE, L, NULL, 0, NULL);
    cstl_dlist_clear(&l, handed);
    after_clear((size_t)n + 2);
    dlist_check_fresh(&l, L);
}

struct s_dl { struct cstl_dlist_node n; char room[NODE_MAX]; char c; int key; };
static const struct layout L_s_dl = {
    offsetof(struct s_dl, key), offsetof(struct s_dl, n), sizeof(struct s_dl)
};
static DECLARE_CSTL_DLIST(static_dl, struct s_dl, n);

static void test_lists(void)
{
    int n, how, mode, round, i;
    unsigned long cases = 0;

    for (n = 0; n <= 20; n++) {
        for (how = 0; how < 16; how++) {
            for (mode = 0; mode < MODE_COUNT; mode++) {
                const struct layout * const L =
                    &LAYOUTS[(unsigned)(n + how + mode) % NLAYOUTS];
                slist_one(n, how, L, mode);
                dlist_one(n, how, L, mode);
                cases += 2;
            }
        }
    }
    slist_one(200, 6, &LAYOUTS[1], MODE_QUARANTINE);
    dlist_one(200, 9, &LAYOUTS[2], MODE_REUSE);
    cases += 2;

    for (round = 0; round < 20; round++) {
        void * e;
        recs_reset();
        slist_check_fresh(&static_sl, &L_s_sl);
        dlist_check_fresh(&static_dl, &L_s_dl);
        n = (int)(rnd() % 25);
        for (i = 0; i < n; i++) {
            e = mk(&L_s_sl, i);
            cstl_slist_push_back(&static_sl, e);
            mark_in(e);
        }
        cb_setup(round % 2, &L_s_sl, NULL, 0, NULL);
        cstl_slist_clear(&static_sl, handed);
        after_clear((size_t)n);
        slist_check_fresh(&static_sl, &L_s_sl);

        recs_reset();
        for (i = 0; i < n; i++) {
            e = mk(&L_s_dl, i);
            cstl_dlist_push_front(&static_dl, e);
            mark_in(e);
        }
        cb_setup(round % 2, &L_s_dl, NULL, 0, NULL);
        cstl_dlist_clear(&static_dl, handed);
        after_clear((size_t)n);
        dlist_check_fresh(&static_dl, &L_s_dl);
        cases += 2;
    }
    printf("lists: %lu cases\n", cases);
}

/* ------------------------------------------------------------------ */
/* map                                                                 */

/*
 * the test is linked with --wrap=malloc --wrap=free, so every block the
 * library (and the test) allocates and releases is counted: the map must
 * give back every internal node, once.
 */
#define HAVE_INUSE 1
static size_t inuse(void) { return live_blocks; }

/* map values: key at 0, a scratch area where other tests have a node */
static const struct layout L_mval = { 0, 8, 8 + NODE_MAX };

static size_t map_cmp_calls;
static int cmp_key(const void * const a, const void * const b, void * const p)
{
    int x, y;
    memcpy(&x, a, sizeof(x));
    memcpy(&y, b, sizeof(y));
    ++*(size_t *)p;
    return (x > y) - (x < y);
}

static void handed_map(void * const it, void * const priv)
{
    const cstl_map_iterator_t * const i = it;
    CHECK(i->val != NULL);
    CHECK(i->key == (const void *)((const char *)i->val + L_mval.key_off));
    handed(i->val, priv);
}

static cstl_map_t map_sink;
static void map_sink_put(void * const e)
{
    cstl_map_iterator_t i;
    CHECK(cstl_map_insert(&map_sink, e, e, &i) == 0);
    CHECK(i.key == e && i.val == e);
    mark_in(e);
    cstl_map_find(&map_sink, e, &i);
    CHECK(i.val == e);
}

static void map_check_fresh(cstl_map_t * const m)
{
    cstl_map_iterator_t i;
    int k;
    CHECK(cstl_map_size(m) == 0);
    for (k = -1; k < 8; k++) {
        cstl_map_find(m, &k, &i);
        CHECK(cstl_map_iterator_eq(&i, cstl_map_iterator_end(m)));
        CHECK(cstl_map_erase(m, &k, NULL) == -1);
    }
    cstl_map_clear(m, never, NULL);
    cstl_map_clear(m, NULL, NULL);
    CHECK(cstl_map_size(m) == 0);
}

static void map_check_content(cstl_map_t * const m, const size_t n)
{
    size_t i, found = 0;
    CHECK(cstl_map_size(m) == n);
    for (i = 0; i < nrecs; i++) {
        if (recs[i].state == ST_IN) {
            cstl_map_iterator_t it;
            cstl_map_find(m, recs[i].p, &it);
            CHECK(!cstl_map_iterator_eq(&it, cstl_map_iterator_end(m)));
            CHECK(it.val == recs[i].p && it.key == recs[i].p);
            found++;
        }
    }
    CHECK(found == n);
}

/* @clr_mode: -1 for a NULL callback, else a MODE_ */
static void map_one(const int * const keys, const int n,
                    const unsigned int erase_mask, const int clr_mode)
{
    cstl_map_t m;
    int token, i;
    size_t in, m0 = 0;

    recs_reset();
    cstl_map_init(&m, cmp_key, &map_cmp_calls);
    cstl_map_init(&map_sink, cmp_key, &map_cmp_calls);
    map_check_fresh(&m);

    for (i = 0; i < n; i++) {
        (void)mk(&L_mval, keys[i]);
    }
    m0 = inuse();
    for (i = 0; i < n; i++) {
        void * const e = recs[i].p;
        cstl_map_iterator_t it;
        CHECK(cstl_map_insert(&m, e, e, &it) == 0);
        CHECK(it.key == e && it.val == e);
        mark_in(e);
        /* a second insertion under the same key is refused */
        CHECK(cstl_map_insert(&m, &keys[i], &token, &it) == 1);
        CHECK(it.val == e);
    }
    map_check_content(&m, (size_t)n);
    for (i = 0; i < n; i++) {
        if (i < 32 && (erase_mask & (1u << i)) != 0) {
            cstl_map_iterator_t it;
            if (i % 2) {
                CHECK(cstl_map_erase(&m, &keys[i], &it) == 0);
                CHECK(it.val == recs[i].p);
            } else {
                cstl_map_find(&m, &keys[i], &it);
                CHECK(it.val == recs[i].p);
                cstl_map_erase_iterator(&m, &it);
            }
            mark_out(recs[i].p);
        }
    }
    in = count_state(ST_IN);
    map_check_content(&m, in);

    if (clr_mode < 0) {
        cstl_map_clear(&m, NULL, &token);
        if (HAVE_INUSE) {
            CHECK(inuse() == m0);
        }
        /* nobody told us, the values are still ours and intact */
        for (i = 0; i < n; i++) {
            CHECK(key_of(&L_mval, recs[i].p) == keys[i]);
            if (recs[i].state == ST_IN) mark_out(recs[i].p);
        }
    } else {
        cb_setup(clr_mode, &L_mval, map_sink_put, 1, &token);
        cstl_map_clear(&m, handed_map, &token);
        after_clear(in);
        if (clr_mode == MODE_QUARANTINE) {
            CHECK(inuse() == m0);
        } else if (clr_mode == MODE_FREE) {
            CHECK(inuse() == m0 - in);
        } else {
            CHECK(inuse() == m0 + in);  /* now in the other map */
        }
    }
    map_check_fresh(&m);

    if (clr_mode == MODE_REUSE) {
        map_check_content(&map_sink, in);
        cb_setup(MODE_QUARANTINE, &L_mval, NULL, 1, NULL);
        cstl_map_clear(&map_sink, handed_map, NULL);
        after_clear(in);
        map_check_fresh(&map_sink);
        if (HAVE_INUSE) {
            CHECK(inuse() == m0);
        }
    }

    /* refill the cleared map */
    {
        const size_t first = nrecs;
        for (i = n - 1; i >= 0; i--) {
            void * const e = mk(&L_mval, keys[i] + 100);
            CHECK(cstl_map_insert(&m, e, e, NULL) == 0);
            mark_in(e);
            CHECK(cstl_map_insert(&m, e, e, NULL) == 1);
        }
        map_check_content(&m, (size_t)n);
        if (n > 0) {
            int k = keys[0] + 100;
            CHECK(cstl_map_erase(&m, &k, NULL) == 0);
            CHECK(cstl_map_erase(&m, &k, NULL) == -1);
            CHECK(key_of(&L_mval, recs[first + (size_t)n - 1].p) == k);
            mark_out(recs[first + (size_t)n - 1].p);
        }
        cb_setup(MODE_FREE, &L_mval, NULL, 1, &m);
        cstl_map_clear(&m, handed_map, &m);
        after_clear(n > 0 ? (size_t)n - 1 : 0);
        map_check_fresh(&m);
    }
}

static void test_map(void)
{
    int keys[64], n, i, round;
    unsigned long cases = 0;

    for (n = 0; n <= 6; n++) {
        unsigned int pi = 0;
        for (i = 0; i < n; i++) keys[i] = i;
        do {
            unsigned int mask = 0;
            if (pi % 3 == 2) mask = rnd() & ((1u << n) - 1);
            map_one(keys, n, mask, (int)(pi % (MODE_COUNT + 1)) - 1);
            cases++;
            pi++;
        } while (next_perm(keys, n));
    }
    /* every subset of 7 keys, in a random order */
    for (round = 0; round < 128; round++) {
        int j, m = 0;
        for (i = 0; i < 7; i++) if (round & (1 << i)) keys[m++] = i;
        for (i = m - 1; i > 0; i--) {
            j = (int)(rnd() % (unsigned)(i + 1));
            n = keys[i]; keys[i] = keys[j]; keys[j] = n;
        }
        for (j = -1; j < MODE_COUNT; j++) {
            map_one(keys, m, 0, j);
            cases++;
        }
    }
    for (round = 0; round < 200; round++) {
        int j, m = (int)(rnd() % 64);
        for (i = 0; i < m; i++) keys[i] = i * 7 - 50;
        for (i = m - 1; i > 0; i--) {
            j = (int)(rnd() % (unsigned)(i + 1));
            n = keys[i]; keys[i] = keys[j]; keys[j] = n;
        }
        map_one(keys, m, rnd() & rnd(), (round % (MODE_COUNT + 1)) - 1);
        cases++;
    }
    CHECK(map_cmp_calls > 0);
    printf("map: %lu cases\n", cases);
}

/* ------------------------------------------------------------------ */
/* containers of containers: the callback clears OTHER objects         */

struct inner
{
    struct cstl_bintree bt;
    struct cstl_rbtree rb;
    struct cstl_heap hp;
    struct cstl_slist sl;
    struct cstl_dlist dl;
    cstl_map_t map;
};

#define OWNER_PREFIX (8 + NODE_MAX)
static const struct layout L_inner = { 0, 8, 8 + NODE_MAX };
static const struct layout L_owner = {
    0, 8, OWNER_PREFIX + sizeof(struct inner)
};
static size_t nested_total;

static void * mk_owner(const int key, const int fill)
{
    char * const o = mk(&L_owner, key);
    struct inner * const in = (struct inner *)(o + OWNER_PREFIX);
    int i;

    cstl_bintree_init(&in->bt, cmp_layout, (void *)&L_inner, L_inner.node_off);
    cstl_rbtree_init(&in->rb, cmp_layout, (void *)&L_inner, L_inner.node_off);
    cstl_heap_init(&in->hp, cmp_layout, (void *)&L_inner, L_inner.node_off);
    cstl_slist_init(&in->sl, L_inner.node_off);
    cstl_dlist_init(&in->dl, L_inner.node_off);
    cstl_map_init(&in->map, cmp_key, &map_cmp_calls);

    for (i = 0; i < fill; i++) {
        void * e;
        e = mk(&L_inner, (int)(rnd() % 100));
        cstl_bintree_insert(&in->bt, e, NULL); mark_in(e);
        e = mk(&L_inner, (int)(rnd() % 100));
        cstl_rbtree_insert(&in->rb, e, NULL); mark_in(e);
        e = mk(&L_inner, (int)(rnd() % 100));
        cstl_heap_push(&in->hp, e); mark_in(e);
        e = mk(&L_inner, (int)(rnd() % 100));
        cstl_slist_push_back(&in->sl, e); mark_in(e);
        e = mk(&L_inner, (int)(rnd() % 100));
        cstl_dlist_push_front(&in->dl, e); mark_in(e);
        e = mk(&L_inner, i);
        CHECK(cstl_map_insert(&in->map, e, e, NULL) == 0); mark_in(e);
        nested_total += 6;
    }
    nested_total++;
    return o;
}

static void handed_owner(void * const e, void * const priv)
{
    struct inner * const in = (struct inner *)((char *)e + OWNER_PREFIX);

    cstl_dlist_clear(&in->dl, handed);
    cstl_map_clear(&in->map, handed_map, priv);
    cstl_bintree_clear(&in->bt, handed, priv);
    cstl_slist_clear(&in->sl, handed);
    cstl_rbtree_clear(&in->rb, handed, priv);
    cstl_heap_clear(&in->hp, handed);
    bintree_check_fresh(&in->bt, &L_inner);
    rbtree_check_fresh(&in->rb);
    heap_check_fresh(&in->hp);
    map_check_fresh(&in->map);
    CHECK(cstl_slist_size(&in->sl) == 0 && cstl_dlist_size(&in->dl) == 0);
    handed(e, priv);
}

static void handed_owner_map(void * const it, void * const priv)
{
    handed_owner(((const cstl_map_iterator_t *)it)->val, priv);
}

static void test_nested(void)
{
    int kind, mode, n, i;
    unsigned long cases = 0;

    for (kind = 0; kind < 6; kind++) {
        for (mode = MODE_QUARANTINE; mode <= MODE_FREE; mode++) {
            for (n = 0; n <= 9; n++) {
                struct inner outer;
                recs_reset();
                nested_total = 0;
                cstl_bintree_init(&outer.bt, cmp_layout, (void *)&L_owner, 8);
                cstl_rbtree_init(&outer.rb, cmp_layout, (void *)&L_owner, 8);
                cstl_heap_init(&outer.hp, cmp_layout, (void *)&L_owner, 8);
                cstl_slist_init(&outer.sl, 8);
                cstl_dlist_init(&outer.dl, 8);
                cstl_map_init(&outer.map, cmp_key, &map_cmp_calls);

                for (i = 0; i < n; i++) {
                    void * const o =
                        mk_owner((i * 5) % 9 + 9 * (i / 9), (i + n) % 4);
                    switch (kind) {
                    case 0: cstl_bintree_insert(&outer.bt, o, NULL); break;
                    case 1: cstl_rbtree_insert(&outer.rb, o, NULL); break;
                    case 2: cstl_heap_push(&outer.hp, o); break;
                    case 3: cstl_slist_push_back(&outer.sl, o); break;
                    case 4: cstl_dlist_push_back(&outer.dl, o); break;
                    default:
                        CHECK(cstl_map_insert(&outer.map, o, o, NULL) == 0);
                        break;
                    }
                    mark_in(o);
                }
                /* priv is only checked where every level passes it on */
                cb_setup(mode, NULL, NULL, 0, NULL);
                switch (kind) {
                case 0: cstl_bintree_clear(&outer.bt, handed_owner, &outer); break;
                case 1: cstl_rbtree_clear(&outer.rb, handed_owner, &outer); break;
                case 2: cstl_heap_clear(&outer.hp, handed_owner); break;
                case 3: cstl_slist_clear(&outer.sl, handed_owner); break;
                case 4: cstl_dlist_clear(&outer.dl, handed_owner); break;
                default:
                    cstl_map_clear(&outer.map, handed_owner_map, &outer);
                    break;
                }
                after_clear(nested_total);
                bintree_check_fresh(&outer.bt, &L_owner);
                rbtree_check_fresh(&outer.rb);
                heap_check_fresh(&outer.hp);
                slist_check_fresh(&outer.sl, &L_owner);
                dlist_check_fresh(&outer.dl, &L_owner);
                map_check_fresh(&outer.map);
                cases++;
            }
        }
    }
    printf("nested: %lu cases\n", cases);
}

int main(void)
{
    setvbuf(stdout, NULL, _IONBF, 0);
    test_bintree();
    test_rbtree();
    test_heap();
    test_lists();
    test_map();
    test_nested();
    recs_reset();
    free(recs);
    if (live_blocks != 0) {
        FAIL("%lu blocks leaked", (unsigned long)live_blocks);
    }
    printf("C15 OK\n");
    return 0;
}
