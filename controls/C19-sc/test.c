/*
 * C19: rehash is incremental, finishes in bounded operations, lands
 * where requested.
 *
 * Only the public API of cstl/hash.h is used. What the library does is
 * observed from the outside:
 *   - cstl_hash_load(), cstl_hash_size()
 *   - the calls the library makes to the (user supplied) hash functions:
 *     how many per operation, and with which (function, table size)
 *   - cstl_hash_find()/cstl_hash_foreach_const() results
 *   - realloc() is wrapped (-Wl,--wrap=realloc) only to make requests fail
 *
 * Checked, against a model kept beside every table:
 *   1. after every satisfied resize(n >= 1), also one issued while an
 *      earlier one is pending, load == size / n
 *   2. after at most B keyed operations (B = number of buckets there were
 *      when the resize was requested) every find calls the hash function
 *      exactly once, with (key, n) and the function most recently
 *      requested (NULL meaning "the one before", cstl_hash_mul on a
 *      fresh table)
 *   3. while the rehash may still be pending, a keyed operation calls the
 *      hash functions no more often than 2 + the population of three
 *      buckets can explain (a bound independent of the table size), and
 *      only ever with the old or the new geometry
 *   4. nothing is lost, duplicated or mis-filed at any point
 *   5. a resize that fails, or asks for 0 buckets, or repeats the pending
 *      request changes nothing
 */

#include "cstl/hash.h"

#include <stdio.h>
#include <stdlib.h>
#include <string.h>

/* ------------------------------------------------------------------ */

static int fail_alloc;
static unsigned long failed_allocs;

void * __real_realloc(void *, size_t);
void * __wrap_realloc(void * const p, const size_t n)
{
    if (fail_alloc) {
        failed_allocs++;
        return NULL;
    }
    return __real_realloc(p, n);
}

static const char * ctx = "";
static unsigned long ctx_a, ctx_b;

#define CHECK(COND, ...)                                                \
    do {                                                                \
        if (!(COND)) {                                                  \
            fprintf(stderr, "FAIL %s:%d [%s %lu/%lu] %s: ",             \
                    __FILE__, __LINE__, ctx, ctx_a, ctx_b, #COND);      \
            fprintf(stderr, __VA_ARGS__);                               \
            fprintf(stderr, "\n");                                      \
            exit(1);                                                    \
        }                                                               \
    } while (0)

static unsigned long long rng_s = 88172645463325252ull;
static unsigned long rnd(void)
{
    rng_s ^= rng_s << 13;
    rng_s ^= rng_s >> 7;
    rng_s ^= rng_s << 17;
    return (unsigned long)(rng_s >> 11);
}
static size_t rndn(const size_t n)
{
    return (size_t)(rnd() % n);
}

/* ------------------------------------------------------------------ */
/* hash functions that report what the library asks of them           */

#define F_NULL (-3)
#define F_DIV  (-2)
#define F_MUL  (-1)
#define NF     4

struct geom
{
    int f;
    size_t m;
};

static struct
{
    unsigned long calls;
    size_t k, m;
    int f;
    struct geom ok[3];
    int nok;
    unsigned long bad;
    struct geom badg;
} L;

static void aux_touch(size_t k);

static size_t hv(const int f, const size_t k, const size_t m)
{
    switch (f) {
    case 0: return k % m;
    case 1: return (k * 7 + 3) % m;
    case 2: return (k / 3) % m;
    case 3: return (m - 1) - (k % m);
    case F_DIV: return cstl_hash_div(k, m);
    case F_MUL: return cstl_hash_mul(k, m);
    }
    abort();
}

static size_t hlog(const int f, const size_t k, const size_t m)
{
    int i, ok = 0;

    L.calls++;
    L.k = k;
    L.m = m;
    L.f = f;
    for (i = 0; i < L.nok; i++) {
        if (L.ok[i].f == f && L.ok[i].m == m) {
            ok = 1;
        }
    }
    if (!ok) {
        L.bad++;
        L.badg.f = f;
        L.badg.m = m;
    }
    if (f == 2) {
        /* a callback that uses ANOTHER hash object of another type */
        aux_touch(k);
    }
    return hv(f, k, m);
}

static size_t h0(const size_t k, const size_t m) { return hlog(0, k, m); }
static size_t h1(const size_t k, const size_t m) { return hlog(1, k, m); }
static size_t h2(const size_t k, const size_t m) { return hlog(2, k, m); }
static size_t h3(const size_t k, const size_t m) { return hlog(3, k, m); }

static cstl_hash_func_t * fptr(const int f)
{
    switch (f) {
    case 0: return h0;
    case 1: return h1;
    case 2: return h2;
    case 3: return h3;
    case F_DIV: return cstl_hash_div;
    case F_MUL: return cstl_hash_mul;
    case F_NULL: return NULL;
    }
    abort();
}

static void allow_reset(void)
{
    L.calls = 0;
    L.bad = 0;
    L.nok = 0;
}
static void allow(const int f, const size_t m)
{
    L.ok[L.nok].f = f;
    L.ok[L.nok].m = m;
    L.nok++;
}

/* ------------------------------------------------------------------ */
/* the auxiliary table, of a different element type, used by h2        */

struct elem2
{
    struct cstl_hash_node hn;   /* node first, offset 0 */
    double pad;
    size_t key;
};

#define AUXN 7
static DECLARE_CSTL_HASH(aux, struct elem2, hn);
static struct elem2 aux_e[AUXN];
static unsigned long aux_touches;

static void aux_setup(void)
{
    size_t i;
    cstl_hash_resize(&aux, 3, cstl_hash_div);
    for (i = 0; i < AUXN; i++) {
        aux_e[i].key = i;
        aux_e[i].pad = (double)i;
        cstl_hash_insert(&aux, i, &aux_e[i]);
    }
    /* leave a rehash pending; the touches below work it off */
    cstl_hash_resize(&aux, 5, NULL);
}

static void aux_touch(const size_t k)
{
    const struct elem2 * const e = cstl_hash_find(&aux, k % AUXN, NULL, NULL);
    CHECK(e == &aux_e[k % AUXN], "aux table lookup of %lu went wrong",
          (unsigned long)(k % AUXN));
    aux_touches++;
    if ((aux_touches & 1023) == 0) {
        /* keep the auxiliary table busy rehashing, too */
        cstl_hash_resize(&aux, 2 + (aux_touches >> 10) % 9,
                         (aux_touches & 1024) ? cstl_hash_mul : cstl_hash_div);
    }
}

/* ------------------------------------------------------------------ */
/* tables and their models                                             */

struct elem
{
    unsigned tag;
    int seen;
    size_t pos;                 /* index in the owning table's live[] */
    struct cstl_hash_node hn;
    size_t key;
};

struct meta
{
    int ready;                  /* resized at least once since init/clear */
    size_t n, on;               /* requested table size; the one before */
    int f, of;                  /* requested function; the one before */
    size_t budget;              /* keyed ops until the rehash must be done */
    size_t maxold, maxnew;      /* largest bucket populations, upper bounds */
    size_t * cnew;              /* populations under the new geometry */
    struct elem ** live;
    size_t nlive, caplive;
};

struct table
{
    struct cstl_hash h;
    struct meta m;
};

static struct
{
    unsigned long keyed, pending_ops, strict_finds, resizes, forced,
        failed_resizes, noop_resizes, tight_bounds, max_calls;
} S;

static void t_init(struct table * const T, const int how)
{
    if (how == 0) {
        /* garbage first: init must make the object usable on its own */
        memset(&T->h, 0xA5, sizeof(T->h));
        cstl_hash_init(&T->h, offsetof(struct elem, hn));
    } else {
        const struct cstl_hash x = CSTL_HASH_INITIALIZER(struct elem, hn);
        T->h = x;
    }
    memset(&T->m, 0, sizeof(T->m));
}

static void live_add(struct table * const T, struct elem * const e)
{
    if (T->m.nlive == T->m.caplive) {
        const size_t c = T->m.caplive ? T->m.caplive * 2 : 16;
        struct elem ** const l = malloc(c * sizeof(*l));
        CHECK(l != NULL, "out of memory");
        if (T->m.nlive > 0) {
            memcpy(l, T->m.live, T->m.nlive * sizeof(*l));
        }
        free(T->m.live);
        T->m.live = l;
        T->m.caplive = c;
    }
    e->pos = T->m.nlive;
    T->m.live[T->m.nlive++] = e;
}

static void live_del(struct table * const T, struct elem * const e)
{
    struct elem * const last = T->m.live[--T->m.nlive];
    T->m.live[e->pos] = last;
    last->pos = e->pos;
}

static void check_load(const struct table * const T)
{
    if (T->m.ready) {
        const float want = (float)T->m.nlive / T->m.n;
        const float got = cstl_hash_load(&T->h);
        CHECK(got == want, "load %g, want %lu/%lu = %g", got,
              (unsigned long)T->m.nlive, (unsigned long)T->m.n, want);
    }
    CHECK(cstl_hash_size(&T->h) == T->m.nlive, "size %lu, want %lu",
          (unsigned long)cstl_hash_size(&T->h), (unsigned long)T->m.nlive);
}

static void bounds_at_resize(struct table * const T)
{
    /* T->m.(of,on) and (f,n) are set; budget > 0 */
    size_t * cold;
    size_t i;

    cold = calloc(T->m.on, sizeof(*cold));
    free(T->m.cnew);
    T->m.cnew = calloc(T->m.n, sizeof(*T->m.cnew));
    CHECK(cold != NULL && T->m.cnew != NULL, "out of memory");

    T->m.maxold = T->m.maxnew = 0;
    for (i = 0; i < T->m.nlive; i++) {
        const size_t k = T->m.live[i]->key;
        const size_t o = ++cold[hv(T->m.of, k, T->m.on)];
        const size_t w = ++T->m.cnew[hv(T->m.f, k, T->m.n)];
        if (o > T->m.maxold) {
            T->m.maxold = o;
        }
        if (w > T->m.maxnew) {
            T->m.maxnew = w;
        }
    }
    free(cold);
}

/*
 * resize request. @f may be F_NULL. returns non-zero if the request
 * was satisfied
 */
static int t_resize(struct table * const T, const size_t n, const int f,
                    const int inject)
{
    const float before = cstl_hash_load(&T->h);
    const int newf = (f == F_NULL) ? (T->m.ready ? T->m.f : F_MUL) : f;
    const int noop = (n == 0)
        || (T->m.ready && n == T->m.n && newf == T->m.f);
    int fail = 0;
    float after;

    if (inject && !noop && (!T->m.ready || n != T->m.n)) {
        /*
         * an injected failure may or may not matter (the table may have
         * room already); the outcome is read off cstl_hash_load(), which
         * must be possible
         */
        if (!T->m.ready
            || (T->m.nlive > 0
                && (float)T->m.nlive / n != (float)T->m.nlive / T->m.n)) {
            fail = 1;
        }
    }

    allow_reset();
    allow(newf, n);
    if (T->m.ready) {
        allow(T->m.f, T->m.n);
        if (T->m.budget > 0) {
            allow(T->m.of, T->m.on);
        }
    }

    fail_alloc = fail;
    cstl_hash_resize(&T->h, n, fptr(f));
    fail_alloc = 0;

    CHECK(L.bad == 0, "resize(%lu) hashed with f%d m=%lu",
          (unsigned long)n, L.badg.f, (unsigned long)L.badg.m);
    after = cstl_hash_load(&T->h);

    if (noop) {
        S.noop_resizes++;
        CHECK(L.calls == 0, "no-op resize(%lu) hashed %lu times",
              (unsigned long)n, L.calls);
        if (T->m.ready) {
            CHECK(after == before, "no-op resize changed load");
        }
        check_load(T);
        return 0;
    }

    if (fail) {
        int satisfied;
        if (!T->m.ready) {
            satisfied = (after == 0.0f);   /* 0/n, instead of 0/0 */
        } else {
            satisfied = (after == (float)T->m.nlive / n);
        }
        if (!satisfied) {
            S.failed_resizes++;
            CHECK(L.calls == 0, "failed resize hashed %lu times", L.calls);
            if (T->m.ready) {
                CHECK(after == before, "failed resize changed the load");
            } else {
                CHECK(after != after, "failed first resize: load %g", after);
            }
            check_load(T);
            return 0;
        }
    }

    S.resizes++;
    if (T->m.ready && T->m.budget > 0) {
        S.forced++;
    }
    if (!T->m.ready) {
        /* there were no buckets: nothing to work off */
        T->m.budget = 0;
        T->m.ready = 1;
        T->m.n = n;
        T->m.f = newf;
    } else {
        T->m.on = T->m.n;
        T->m.of = T->m.f;
        T->m.budget = T->m.n;
        T->m.n = n;
        T->m.f = newf;
        bounds_at_resize(T);
    }

    /* the headline: immediately after the request, load is size/n */
    check_load(T);
    return 1;
}

static void pre_op(const struct table * const T)
{
    CHECK(T->m.ready, "test bug: keyed op on a table without buckets");
    allow_reset();
    allow(T->m.f, T->m.n);
    if (T->m.budget > 0) {
        allow(T->m.of, T->m.on);
    }
}

static void post_op(struct table * const T, const int is_find, const size_t k)
{
    S.keyed++;
    CHECK(L.bad == 0, "hashed with f%d m=%lu; table is f%d/%lu (was f%d/%lu)",
          L.badg.f, (unsigned long)L.badg.m, T->m.f, (unsigned long)T->m.n,
          T->m.of, (unsigned long)T->m.on);

    if (T->m.budget == 0) {
        /* the rehash must have finished */
        if (T->m.f >= 0) {
            if (is_find) {
                S.strict_finds++;
                CHECK(L.calls == 1, "%lu hash calls in a lookup", L.calls);
                CHECK(L.k == k && L.m == T->m.n && L.f == T->m.f,
                      "lookup hashed (f%d, %lu, %lu), want (f%d, %lu, %lu)",
                      L.f, (unsigned long)L.k, (unsigned long)L.m,
                      T->m.f, (unsigned long)k, (unsigned long)T->m.n);
            } else {
                CHECK(L.calls >= 1, "no hash call");
            }
        } else {
            CHECK(L.calls == 0, "%lu calls to a retired function", L.calls);
        }
    } else {
        /*
         * two calls to place the key, and one per relocated node, the
         * nodes coming out of at most three buckets. a bucket holds at
         * most the nodes that belong there under the old geometry plus
         * those that belong there under the new one
         */
        const size_t bound = 2 + 3 * (T->m.maxold + T->m.maxnew);
        S.pending_ops++;
        CHECK(L.calls <= bound,
              "%lu hash calls in one operation, three buckets explain %lu "
              "(%lu elements, %lu -> %lu buckets)", L.calls,
              (unsigned long)bound, (unsigned long)T->m.nlive,
              (unsigned long)T->m.on, (unsigned long)T->m.n);
        if (L.calls > S.max_calls) {
            S.max_calls = L.calls;
        }
        if (bound * 4 < T->m.nlive) {
            S.tight_bounds++;
        }
        T->m.budget--;
    }
    check_load(T);
}

static void t_insert(struct table * const T, struct elem * const e,
                     const size_t k)
{
    pre_op(T);
    e->key = k;
    if (T->m.budget > 0) {
        const size_t w = ++T->m.cnew[hv(T->m.f, k, T->m.n)];
        if (w > T->m.maxnew) {
            T->m.maxnew = w;
        }
    }
    cstl_hash_insert(&T->h, k, e);
    live_add(T, e);
    post_op(T, 0, k);
}

static void t_erase(struct table * const T, struct elem * const e)
{
    pre_op(T);
    cstl_hash_erase(&T->h, e);
    live_del(T, e);
    post_op(T, 0, e->key);
}

struct find_priv
{
    size_t k;
    const struct elem * want;
    unsigned long visits;
};

static int find_visit(const void * const p, void * const x)
{
    const struct elem * const e = p;
    struct find_priv * const fp = x;
    CHECK(e->key == fp->k, "find(%lu) visited an element with key %lu",
          (unsigned long)fp->k, (unsigned long)e->key);
    fp->visits++;
    return e == fp->want;
}

/*
 * @want == NULL: no visit function, any element with the key will do;
 * otherwise that very element must be returned
 */
static struct elem * t_find(struct table * const T, const size_t k,
                            const struct elem * const want)
{
    struct elem * e;
    size_t i, have = 0;

    pre_op(T);
    if (want == NULL) {
        e = cstl_hash_find(&T->h, k, NULL, NULL);
    } else {
        struct find_priv fp;
        fp.k = k;
        fp.want = want;
        fp.visits = 0;
        e = cstl_hash_find(&T->h, k, find_visit, &fp);
        CHECK(e == want, "find with visitor returned %p, want %p",
              (void *)e, (const void *)want);
        CHECK(fp.visits >= 1, "visitor never called");
    }
    post_op(T, 1, k);

    if (T->m.nlive <= 64 || want != NULL) {
        for (i = 0; i < T->m.nlive; i++) {
            have += (T->m.live[i]->key == k);
        }
        if (have == 0) {
            CHECK(e == NULL, "found key %lu that is not there",
                  (unsigned long)k);
        } else {
            CHECK(e != NULL, "key %lu not found", (unsigned long)k);
        }
    }
    if (e != NULL) {
        CHECK(e->key == k, "find(%lu) returned key %lu", (unsigned long)k,
              (unsigned long)e->key);
        CHECK(e->pos < T->m.nlive && T->m.live[e->pos] == e,
              "find(%lu) returned an element that is not in the table",
              (unsigned long)k);
    }
    return e;
}

static int verify_visit(const void * const p, void * const x)
{
    struct elem * const e = (struct elem *)(uintptr_t)p;
    struct table * const T = x;
    CHECK(e->pos < T->m.nlive && T->m.live[e->pos] == e,
          "foreach visited a stranger");
    CHECK(e->seen == 0, "foreach visited key %lu twice",
          (unsigned long)e->key);
    e->seen = 1;
    return 0;
}

/* contents are complete, without disturbing the rehash */
static void t_verify(struct table * const T)
{
    size_t i;

    allow_reset();
    CHECK(cstl_hash_foreach_const(&T->h, verify_visit, T) == 0, "foreach");
    CHECK(L.calls == 0, "foreach_const hashed");
    for (i = 0; i < T->m.nlive; i++) {
        CHECK(T->m.live[i]->seen == 1, "foreach missed key %lu",
              (unsigned long)T->m.live[i]->key);
        T->m.live[i]->seen = 0;
    }
    check_load(T);
}

static void t_rehash(struct table * const T)
{
    allow_reset();
    if (T->m.ready) {
        allow(T->m.f, T->m.n);
        if (T->m.budget > 0) {
            allow(T->m.of, T->m.on);
        }
    }
    cstl_hash_rehash(&T->h);
    CHECK(L.bad == 0, "rehash hashed with f%d m=%lu", L.badg.f,
          (unsigned long)L.badg.m);
    if (T->m.ready && T->m.budget == 0) {
        CHECK(L.calls == 0, "rehash of a finished table hashed %lu times",
              L.calls);
    }
    T->m.budget = 0;
    check_load(T);
}

static int foreach_visit(void * const p, void * const x)
{
    return verify_visit(p, x);
}

static void t_foreach(struct table * const T)
{
    size_t i;
    allow_reset();
    if (T->m.ready) {
        allow(T->m.f, T->m.n);
        if (T->m.budget > 0) {
            allow(T->m.of, T->m.on);
        }
    }
    CHECK(cstl_hash_foreach(&T->h, foreach_visit, T) == 0, "foreach");
    CHECK(L.bad == 0, "foreach hashed with f%d m=%lu", L.badg.f,
          (unsigned long)L.badg.m);
    for (i = 0; i < T->m.nlive; i++) {
        CHECK(T->m.live[i]->seen == 1, "foreach missed key %lu",
              (unsigned long)T->m.live[i]->key);
        T->m.live[i]->seen = 0;
    }
    /* documented: forces an in-progress rehash to complete */
    T->m.budget = 0;
    check_load(T);
}

static void t_shrink(struct table * const T)
{
    allow_reset();
    if (T->m.ready) {
        allow(T->m.f, T->m.n);
        if (T->m.budget > 0) {
            allow(T->m.of, T->m.on);
        }
    }
    cstl_hash_shrink_to_fit(&T->h);
    CHECK(L.bad == 0, "shrink_to_fit hashed with f%d m=%lu", L.badg.f,
          (unsigned long)L.badg.m);
    /* may or may not have finished the rehash: the budget stands */
    check_load(T);
}

static unsigned long cleared;
static void clear_cb(void * const p, void * const x)
{
    struct elem * const e = p;
    (void)x;
    CHECK(e->seen == 0, "clear visited key %lu twice", (unsigned long)e->key);
    e->seen = 1;
    cleared++;
}

/* returns the elements to the caller through @out (may be NULL) */
static void t_clear(struct table * const T, const int with_cb)
{
    size_t i;

    allow_reset();
    cleared = 0;
    cstl_hash_clear(&T->h, with_cb ? clear_cb : NULL);
    CHECK(L.calls == 0, "clear hashed");
    if (with_cb) {
        CHECK(cleared == T->m.nlive, "clear visited %lu of %lu", cleared,
              (unsigned long)T->m.nlive);
        for (i = 0; i < T->m.nlive; i++) {
            CHECK(T->m.live[i]->seen == 1, "clear missed an element");
            T->m.live[i]->seen = 0;
        }
    }
    CHECK(cstl_hash_size(&T->h) == 0, "size after clear");
    T->m.nlive = 0;
    T->m.ready = 0;
    T->m.budget = 0;
}

static void t_free(struct table * const T)
{
    free(T->m.live);
    free(T->m.cnew);
    T->m.live = NULL;
    T->m.cnew = NULL;
    T->m.caplive = 0;
}

static void t_swap(struct table * const A, struct table * const B)
{
    struct meta t;
    cstl_hash_swap(&A->h, &B->h);
    t = A->m;
    A->m = B->m;
    B->m = t;
    check_load(A);
    check_load(B);
}

/* finish by keyed operations alone, then look closely */
static void t_drain(struct table * const T, const size_t maxkey)
{
    size_t i;

    while (T->m.budget > 0) {
        t_find(T, rndn(maxkey), NULL);
    }
    t_verify(T);
    /* from here on every lookup is exactly one call with (k, n, f) */
    for (i = 0; i < T->m.nlive && i < 200; i++) {
        struct elem * const e = T->m.live[rndn(T->m.nlive)];
        CHECK(t_find(T, e->key, (i & 1) ? e : NULL) != NULL,
              "key %lu is in the table but was not found",
              (unsigned long)e->key);
    }
    for (i = 0; i < 20; i++) {
        t_find(T, rndn(maxkey) + maxkey, NULL);
    }
}

/* ------------------------------------------------------------------ */
/* 1. every short history over a small table                           */

#define SMALL_POOL 16

static const struct { size_t n; int f; } small_rs[] = {
    { 1, F_NULL }, { 2, F_NULL }, { 3, F_NULL }, { 4, F_NULL },
    { 1, 0 }, { 2, 0 }, { 3, 0 }, { 4, 0 },
    { 1, 1 }, { 2, 1 }, { 3, 1 }, { 5, 1 },
    { 0, 1 },
};
#define SMALL_NRS (sizeof(small_rs) / sizeof(small_rs[0]))
static const size_t small_keys[] = { 1, 6, 2 };
/* ops: [0, NRS) resize; +0,+1 insert key 1/6; +2..+4 find 1/6/2;
 * +5 erase oldest; +6 erase newest; +7 rehash; +8 find with visitor */
#define SMALL_NOPS (SMALL_NRS + 9)

static void small_run(const int * const ops, const int len, const int start)
{
    static struct table T;
    static struct elem pool[SMALL_POOL];
    size_t used = 0, i;
    int s;

    t_init(&T, start & 1);
    t_resize(&T, 3, (start & 2) ? F_NULL : 0, 0);
    if (start & 2) {
        /* fresh table, no function given: cstl_hash_mul */
        CHECK(T.m.f == F_MUL, "test bug");
    }
    for (i = 0; i < 5; i++) {
        t_insert(&T, &pool[used++], (i * 5 + 1) % 7);
    }
    if (start & 4) {
        /* start with a rehash pending, partly worked off */
        t_resize(&T, 4, 1, 0);
        t_find(&T, 1, NULL);
    }

    for (s = 0; s < len; s++) {
        const int op = ops[s];
        ctx_b = s;
        if (op < (int)SMALL_NRS) {
            t_resize(&T, small_rs[op].n, small_rs[op].f, 0);
        } else {
            switch (op - (int)SMALL_NRS) {
            case 0: case 1:
                t_insert(&T, &pool[used++], small_keys[op - SMALL_NRS]);
                break;
            case 2: case 3: case 4:
                t_find(&T, small_keys[op - SMALL_NRS - 2], NULL);
                break;
            case 5:
                if (T.m.nlive > 0) {
                    /* oldest: lowest pool index among the live */
                    struct elem * o = T.m.live[0];
                    for (i = 1; i < T.m.nlive; i++) {
                        if (T.m.live[i] < o) {
                            o = T.m.live[i];
                        }
                    }
                    t_erase(&T, o);
                }
                break;
            case 6:
                if (T.m.nlive > 0) {
                    struct elem * o = T.m.live[0];
                    for (i = 1; i < T.m.nlive; i++) {
                        if (T.m.live[i] > o) {
                            o = T.m.live[i];
                        }
                    }
                    t_erase(&T, o);
                }
                break;
            case 7:
                t_rehash(&T);
                break;
            case 8:
                if (T.m.nlive > 0) {
                    struct elem * const e = T.m.live[T.m.nlive / 2];
                    t_find(&T, e->key, e);
                }
                break;
            }
        }
        t_verify(&T);
    }

    /* work the rest off with lookups only, then every lookup is strict */
    while (T.m.budget > 0) {
        t_find(&T, small_keys[T.m.budget % 3], NULL);
    }
    t_verify(&T);
    for (i = 0; i < 8; i++) {
        t_find(&T, i, NULL);
    }
    t_clear(&T, 1);
    t_free(&T);
}

static void small_scope(const int depth, const int start)
{
    int ops[8];
    unsigned long total = 1, x;
    int i;

    ctx = "small";
    for (i = 0; i < depth; i++) {
        total *= SMALL_NOPS;
    }
    for (x = 0; x < total; x++) {
        unsigned long y = x;
        for (i = 0; i < depth; i++) {
            ops[i] = (int)(y % SMALL_NOPS);
            y /= SMALL_NOPS;
        }
        ctx_a = x;
        small_run(ops, depth, start);
    }
}

/* ------------------------------------------------------------------ */
/* 2. the named request patterns, idle and while pending               */

static void patterns(const size_t base, const size_t nelem)
{
    static const int fs[] = { 0, 1, 2, 3, F_NULL, F_DIV, F_MUL };
    struct table T;
    struct elem * pool;
    size_t i, used = 0;
    int worked, a, b;

    ctx = "patterns";
    pool = calloc(nelem + 64, sizeof(*pool));
    CHECK(pool != NULL, "out of memory");

    /* worked: how much of the first request is worked off before the next */
    for (worked = 0; worked < 4; worked++) {
        for (a = 0; a < 7; a++) {
            for (b = 0; b < 7; b++) {
                /* second request: n relative to first */
                static const int rel[] = { 0, 1, 2, 3, 4, 5, 6 };
                int r;
                for (r = 0; r < 7; r++) {
                    size_t n1, n2, w;
                    ctx_a = (unsigned long)(worked * 1000 + a * 100 + b * 10 + r);

                    t_init(&T, (a + b + r) & 1);
                    t_resize(&T, base, 0, 0);
                    used = 0;
                    for (i = 0; i < nelem; i++) {
                        t_insert(&T, &pool[used++], (i * 2654435761ul) % (4 * nelem));
                    }

                    n1 = (a & 1) ? base * 2 + 1 : (base + 1) / 2;
                    t_resize(&T, n1, fs[a], 0);

                    switch (worked) {
                    case 0: w = 0; break;
                    case 1: w = 1; break;
                    case 2: w = T.m.budget / 2; break;
                    default: w = T.m.budget; break;
                    }
                    for (i = 0; i < w; i++) {
                        switch (i % 3) {
                        case 0:
                            t_find(&T, rndn(4 * nelem), NULL);
                            break;
                        case 1:
                            t_insert(&T, &pool[used++], rndn(4 * nelem));
                            break;
                        default:
                            t_erase(&T, T.m.live[rndn(T.m.nlive)]);
                            break;
                        }
                    }

                    switch (rel[r]) {
                    case 0: n2 = n1; break;             /* same size */
                    case 1: n2 = base; break;           /* back */
                    case 2: n2 = n1 * 2; break;         /* grow */
                    case 3: n2 = (n1 + 1) / 2; break;   /* shrink */
                    case 4: n2 = 1; break;
                    case 5: n2 = n1 + 1; break;
                    default: n2 = base * 3; break;
                    }
                    t_resize(&T, n2, fs[b], 0);
                    /* repeated */
                    t_resize(&T, n2, fs[b], 0);
                    t_resize(&T, n2, F_NULL, 0);
                    t_resize(&T, 0, fs[b], 0);
                    t_verify(&T);
                    if (r & 1) {
                        /* a third one on top */
                        t_resize(&T, base, fs[(a + b) % 4], 0);
                    }
                    t_drain(&T, 4 * nelem);
                    if ((a + r) & 1) {
                        t_shrink(&T);
                        t_drain(&T, 4 * nelem);
                    }
                    t_clear(&T, (b & 1));
                    t_free(&T);
                }
            }
        }
    }
    free(pool);
}

/* ------------------------------------------------------------------ */
/* 3. a big table: no operation does work proportional to its size     */

static void big_table(void)
{
    const size_t nelem = 40000;
    static const struct { size_t n; int f; } steps[] = {
        { 8192, 1 }, { 1024, 0 }, { 1024, 3 }, { 4096, F_NULL },
        { 4096, 2 }, { 16384, 0 }, { 2048, 1 },
    };
    struct table T;
    struct elem * pool;
    size_t i, s;

    ctx = "big";
    pool = calloc(nelem, sizeof(*pool));
    CHECK(pool != NULL, "out of memory");

    t_init(&T, 0);
    t_resize(&T, 4096, 0, 0);
    for (i = 0; i < nelem; i++) {
        t_insert(&T, &pool[i], i * 3 + (i & 1));
    }
    for (s = 0; s < sizeof(steps) / sizeof(steps[0]); s++) {
        const size_t before = S.tight_bounds;
        ctx_a = s;
        t_resize(&T, steps[s].n, steps[s].f, 0);
        /* every operation until the end is held to the three-bucket bound */
        while (T.m.budget > 0) {
            t_find(&T, rndn(3 * nelem), NULL);
        }
        CHECK(S.tight_bounds > before, "test bug: bound was never tight");
        for (i = 0; i < 2000; i++) {
            t_find(&T, rndn(3 * nelem), NULL);
        }
        t_verify(&T);
    }
    t_clear(&T, 1);
    t_free(&T);
    free(pool);
}

/* ------------------------------------------------------------------ */
/* 4. seeded random histories, two tables, everything interleaved      */

static void random_history(const unsigned long seed, const unsigned long nops,
                           const size_t maxn, const size_t maxkey,
                           const size_t npool)
{
    struct table T[2];
    struct elem * pool;
    struct elem ** avail;
    size_t navail, i;
    unsigned long op;

    ctx = "random";
    ctx_a = seed;
    rng_s = 88172645463325252ull ^ (seed * 0x9E3779B97F4A7C15ull);

    pool = calloc(npool, sizeof(*pool));
    avail = malloc(npool * sizeof(*avail));
    CHECK(pool != NULL && avail != NULL, "out of memory");
    for (i = 0; i < npool; i++) {
        avail[i] = &pool[i];
    }
    navail = npool;

    t_init(&T[0], 0);
    t_init(&T[1], 1);

    for (op = 0; op < nops; op++) {
        struct table * const t = &T[rndn(4) == 0];
        const unsigned r = (unsigned)rndn(1000);
        ctx_b = op;

        if (!t->m.ready) {
            if (r < 900) {
                static const int fs[] = { 0, 1, 2, 3, F_NULL, F_DIV, F_MUL };
                t_resize(t, 1 + rndn(maxn), fs[rndn(7)], rndn(4) == 0);
            } else if (r < 950) {
                t_swap(&T[0], &T[1]);
            } else {
                t_resize(t, 0, 0, 0);
            }
            continue;
        }

        if (r < 300) {
            if (navail > 0) {
                t_insert(t, avail[--navail], rndn(maxkey));
            }
        } else if (r < 600) {
            if (t->m.nlive > 0 && rndn(3) != 0) {
                struct elem * const e = t->m.live[rndn(t->m.nlive)];
                CHECK(t_find(t, e->key, rndn(2) ? e : NULL) != NULL,
                      "key %lu is in the table but was not found",
                      (unsigned long)e->key);
            } else {
                t_find(t, rndn(2 * maxkey), NULL);
            }
        } else if (r < 800) {
            if (t->m.nlive > 0) {
                struct elem * const e = t->m.live[rndn(t->m.nlive)];
                t_erase(t, e);
                avail[navail++] = e;
            }
        } else if (r < 900) {
            int burst = 1 + (rndn(3) == 0) + (rndn(9) == 0);
            while (burst-- > 0) {
                static const int fs[] = { 0, 1, 2, 3, F_NULL, F_DIV, F_MUL };
                const int inject = (rndn(8) == 0);
                size_t n;
                int f = fs[rndn(7)];
                switch (rndn(9)) {
                case 0: n = t->m.n * 2 + rndn(3); break;
                case 1: n = (t->m.n + 1) / 2; break;
                case 2: n = t->m.n; break;
                case 3: n = t->m.budget > 0 ? t->m.on : t->m.n + 1; break;
                case 4: n = t->m.n; f = t->m.f; break;
                case 5: n = 0; break;
                case 6: n = 1 + rndn(4); break;
                case 7: n = t->m.budget > 0 ? t->m.on : t->m.n;
                    f = t->m.budget > 0 ? t->m.of : F_NULL; break;
                default: n = 1 + rndn(maxn); break;
                }
                if (n > 4 * maxn) {
                    n = maxn;
                }
                t_resize(t, n, f, inject);
            }
        } else if (r < 915) {
            t_rehash(t);
        } else if (r < 925) {
            t_foreach(t);
        } else if (r < 940) {
            t_shrink(t);
        } else if (r < 960) {
            t_verify(t);
        } else if (r < 975) {
            t_swap(&T[0], &T[1]);
        } else if (r < 995) {
            t_drain(t, maxkey);
        } else {
            for (i = 0; i < t->m.nlive; i++) {
                avail[navail++] = t->m.live[i];
            }
            t_clear(t, (int)rndn(2));
        }
    }

    for (i = 0; i < 2; i++) {
        if (T[i].m.ready) {
            t_drain(&T[i], maxkey);
        }
        t_clear(&T[i], 1);
        t_free(&T[i]);
    }
    free(avail);
    free(pool);
}

/* ------------------------------------------------------------------ */

int main(void)
{
    unsigned long seed;

    aux_setup();

    /* make sure the failure injection reaches the library at all */
    {
        struct table T;
        static struct elem e[3];
        ctx = "inject";
        t_init(&T, 1);
        CHECK(t_resize(&T, 4, 0, 1) == 0, "first resize did not fail");
        CHECK(t_resize(&T, 4, 0, 0) == 1, "first resize failed");
        t_insert(&T, &e[0], 1);
        t_insert(&T, &e[1], 2);
        t_insert(&T, &e[2], 2);
        CHECK(t_resize(&T, 100000, 1, 1) == 0, "huge resize did not fail");
        CHECK(failed_allocs >= 2, "realloc wrapper not in effect");
        t_find(&T, 2, &e[1]);
        t_find(&T, 2, &e[2]);
        t_clear(&T, 1);
        t_free(&T);
    }

    small_scope(4, 0);
    small_scope(3, 1);
    small_scope(3, 2);
    small_scope(5, 4);
    small_scope(4, 5);
    small_scope(3, 7);

    patterns(5, 40);
    patterns(16, 200);
    patterns(1, 9);

    big_table();

    for (seed = 1; seed <= 6; seed++) {
        random_history(seed, 150000, 40, 400, 600);
    }
    for (seed = 7; seed <= 10; seed++) {
        random_history(seed, 100000, 300, 5000, 4000);
    }
    random_history(11, 100000, 3, 10, 30);

    cstl_hash_clear(&aux, NULL);

    printf("ok: %lu keyed ops (%lu while a rehash could be pending, "
           "%lu of them with a bound under a quarter of the table, "
           "most hash calls in one op %lu), %lu strict lookups, "
           "%lu resizes (%lu while pending, %lu failed, %lu no-ops)\n",
           S.keyed, S.pending_ops, S.tight_bounds, S.max_calls,
           S.strict_finds, S.resizes, S.forced, S.failed_resizes,
           S.noop_resizes);
    return 0;
}
