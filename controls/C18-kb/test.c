/*
 * C18 / change b: a two-translation-unit C99 client of string.h (this file
 * compiled twice, -DTU=1 at -O0 and -DTU=2 at -O2) with the project's warning
 * flags plus -Werror, linked against libcstl.a and against libcstl.so. Unit 1
 * works on narrow strings, unit 2 on wide strings; both use the raw-string
 * entry points (compare_str, insert_str and the inline helpers layered on
 * them: compare, append_str, set_str) directly and through function pointers.
 *
 * build (from the worktree root, after `make build`):
 *   F="-std=c99 -pedantic -Wall -Wextra -Werror -Werror=vla -Werror=declaration-after-statement -D_POSIX_C_SOURCE=199309L -Iinclude" && gcc $F -O0 -DTU=1 -c _keep/b/test.c -o _keep/b/test_tu1.o && gcc $F -O2 -DTU=2 -c _keep/b/test.c -o _keep/b/test_tu2.o && gcc -o _keep/b/test_static _keep/b/test_tu1.o _keep/b/test_tu2.o build/libcstl.a -lm && gcc -o _keep/b/test_shared _keep/b/test_tu1.o _keep/b/test_tu2.o -Lbuild -lcstl -lm
 * run:
 *   ./_keep/b/test_static && LD_LIBRARY_PATH=build ./_keep/b/test_shared
 */
#if TU == 1
#include "cstl/string.h"
#include "cstl/vector.h"
#include "cstl/hash.h"
#else
#include "cstl/map.h"
#include "cstl/array.h"
#include "cstl/string.h"
#include "cstl/string.h"
#endif

#include <stdio.h>
#include <stdlib.h>

#define CHECK(X)                                                        \
    do {                                                                \
        if (!(X)) {                                                     \
            printf("FAIL %s:%d (TU %d): %s\n",                          \
                   __FILE__, __LINE__, TU, #X);                         \
            exit(1);                                                    \
        }                                                               \
    } while (0)

int tu1_run(void);
int tu2_run(void);

#if TU == 1
#define T(NAME)     cstl_string_##NAME
#define DECL(NAME)  DECLARE_CSTL_STRING(string, NAME)
#define CH_T        cstl_string_char_t
#define L_(X)       X
#define RUN         tu1_run
#else
#define T(NAME)     cstl_wstring_##NAME
#define DECL(NAME)  DECLARE_CSTL_STRING(wstring, NAME)
#define CH_T        cstl_wstring_char_t
#define L_(X)       L##X
#define RUN         tu2_run
#endif
#define L(X)        L_(X)

int RUN(void)
{
    DECL(s);
    DECL(o);
    int (* volatile cmp)(const T(t) *, const CH_T *) = T(compare_str);
    void (* volatile ins)(T(t) *, size_t, const CH_T *) = T(insert_str);

    /* an empty string compares like "" */
    CHECK(T(compare_str)(&s, L("")) == 0);
    CHECK(T(compare_str)(&s, L("a")) < 0);
    CHECK(cmp(&s, L("")) == 0);

    T(set_str)(&s, L("world"));
    CHECK(T(size)(&s) == 5);
    CHECK(T(compare_str)(&s, L("world")) == 0);
    T(insert_str)(&s, 0, L("hello, "));
    CHECK(cmp(&s, L("hello, world")) == 0);
    ins(&s, T(size)(&s), L("!"));
    CHECK(T(compare_str)(&s, L("hello, world!")) == 0);
    T(insert_str)(&s, 5, L(""));
    CHECK(T(size)(&s) == 13);
    T(append_str)(&s, L("?"));
    CHECK(T(compare_str)(&s, L("hello, world!?")) == 0);
    CHECK(T(compare_str)(&s, L("hello, world!")) > 0);
    CHECK(T(compare_str)(&s, L("hello, world!?x")) < 0);
    CHECK(T(compare_str)(&s, L("i")) < 0);
    CHECK(T(compare_str)(&s, L("g")) > 0);

    T(set_str)(&o, L("hello, world!?"));
    CHECK(T(compare)(&s, &o) == 0);
    T(append_ch)(&o, 1, L('z'));
    CHECK(T(compare)(&s, &o) < 0 && T(compare)(&o, &s) > 0);
    T(append)(&s, &o);
    CHECK(T(size)(&s) == 14 + 15);
    T(erase)(&s, 14, 100);
    CHECK(T(compare_str)(&s, L("hello, world!?")) == 0);

    /* a reserved but still empty string is "" too */
    T(clear)(&o);
    T(reserve)(&o, 10);
    CHECK(T(compare_str)(&o, L("")) == 0);
    T(insert_str)(&o, 0, L("x"));
    CHECK(T(compare_str)(&o, L("x")) == 0);

    T(clear)(&s);
    T(clear)(&o);
    return 1;
}

#if TU == 1
int main(void)
{
    CHECK(tu1_run());
    CHECK(tu2_run());
    printf("ok\n");
    return 0;
}
#endif
