/*
 * C18: public headers are usable by client programs that link the library.
 *
 * The program has two halves.
 *
 * 1. In-process (this translation unit): every public header is included,
 *    several times and in a scrambled order; the address of every function
 *    the headers declare is taken and checked, and every module is driven
 *    through its public API (inline functions from the headers as well as
 *    functions from the library), including objects set up with the static
 *    initialiser macros and callbacks that use other containers.
 *
 * 2. Driver (skipped with -DC18_NO_DRIVER): generates client programs and
 *    builds them with the project's own warning flags plus -Werror:
 *    every header alone, every ordered pair, all headers together in two
 *    orders; each as one and as two translation units (both of which take
 *    the address of every function visible to them); each linked against
 *    build/libcstl.a and build/libcstl.so; each result is run.  Finally
 *    this very file is rebuilt with the project's flags, against the shared
 *    and the static library, as half 1 only, and run.
 *
 * Run from the root of the source tree (or set CSTL_ROOT) after `make build`.
 */
#ifndef C18_NO_DRIVER
#ifndef _XOPEN_SOURCE
#define _XOPEN_SOURCE 700
#endif
#endif

#include "cstl/string.h"
#include "cstl/map.h"
#include "cstl/common.h"
#include "cstl/heap.h"
#include "cstl/array.h"
#include "cstl/slist.h"
#include "cstl/vector.h"
#include "cstl/hash.h"
#include "cstl/memory.h"
#include "cstl/rbtree.h"
#include "cstl/dlist.h"
#include "cstl/bintree.h"
/* and again, the other way around: the guards have to hold */
#include "cstl/bintree.h"
#include "cstl/dlist.h"
#include "cstl/rbtree.h"
#include "cstl/memory.h"
#include "cstl/hash.h"
#include "cstl/vector.h"
#include "cstl/slist.h"
#include "cstl/array.h"
#include "cstl/heap.h"
#include "cstl/common.h"
#include "cstl/map.h"
#include "cstl/string.h"

#include <stdio.h>
#include <stdlib.h>
#include <string.h>
#include <wchar.h>
#include <signal.h>
#include <unistd.h>
#include <sys/types.h>
#include <sys/wait.h>
#include <sys/resource.h>

static int failures;

#define CHECK(COND)                                                     \
    do {                                                                \
        if (!(COND)) {                                                  \
            fprintf(stderr, "%s:%d: check failed: %s\n",                \
                    __FILE__, __LINE__, #COND);                         \
            failures++;                                                 \
        }                                                               \
    } while (0)

/* ------------------------------------------------------------------ */
/* the address of everything                                          */
/* ------------------------------------------------------------------ */

typedef void (*c18_fn_t)(void);

#define FN(NAME)        { #NAME, (c18_fn_t)NAME }
static const struct
{
    const char * name;
    c18_fn_t fn;
} fn_tab[] = {
    FN(cstl_swap),
    FN(cstl_fls),
    FN(cstl_guarded_ptr_set),
    FN(cstl_guarded_ptr_init),
    FN(cstl_guarded_ptr_get_const),
    FN(cstl_guarded_ptr_get),
    FN(cstl_guarded_ptr_copy),
    FN(cstl_guarded_ptr_swap),
    FN(cstl_unique_ptr_init),
    FN(cstl_unique_ptr_alloc),
    FN(cstl_unique_ptr_get_const),
    FN(cstl_unique_ptr_get),
    FN(cstl_unique_ptr_release),
    FN(cstl_unique_ptr_swap),
    FN(cstl_unique_ptr_reset),
    FN(cstl_shared_ptr_init),
    FN(cstl_shared_ptr_alloc),
    FN(cstl_shared_ptr_unique),
    FN(cstl_shared_ptr_get_const),
    FN(cstl_shared_ptr_get),
    FN(cstl_shared_ptr_share),
    FN(cstl_shared_ptr_swap),
    FN(cstl_shared_ptr_reset),
    FN(cstl_weak_ptr_init),
    FN(cstl_weak_ptr_from),
    FN(cstl_weak_ptr_lock),
    FN(cstl_weak_ptr_swap),
    FN(cstl_weak_ptr_reset),
    FN(cstl_array_init),
    FN(cstl_array_size),
    FN(cstl_array_set),
    FN(cstl_array_release),
    FN(cstl_array_alloc),
    FN(cstl_array_reset),
    FN(cstl_array_data_const),
    FN(cstl_array_data),
    FN(cstl_array_at_const),
    FN(cstl_array_at),
    FN(cstl_array_slice),
    FN(cstl_array_unslice),
    FN(cstl_raw_array_reverse),
    FN(cstl_raw_array_search),
    FN(cstl_raw_array_find),
    FN(cstl_raw_array_sort),
    FN(cstl_bintree_init),
    FN(cstl_bintree_size),
    FN(cstl_bintree_insert),
    FN(cstl_bintree_find),
    FN(cstl_bintree_erase),
    FN(cstl_bintree_clear),
    FN(cstl_bintree_swap),
    FN(cstl_bintree_foreach),
    FN(cstl_bintree_height),
    FN(__cstl_bintree_cmp),
    FN(__cstl_bintree_erase),
    FN(__cstl_bintree_left),
    FN(__cstl_bintree_right),
    FN(__cstl_bintree_rotate),
    FN(cstl_dlist_init),
    FN(cstl_dlist_size),
    FN(cstl_dlist_insert),
    FN(cstl_dlist_erase),
    FN(cstl_dlist_front),
    FN(cstl_dlist_back),
    FN(cstl_dlist_push_front),
    FN(cstl_dlist_push_back),
    FN(cstl_dlist_pop_front),
    FN(cstl_dlist_pop_back),
    FN(cstl_dlist_reverse),
    FN(cstl_dlist_sort),
    FN(cstl_dlist_concat),
    FN(cstl_dlist_foreach),
    FN(cstl_dlist_find),
    FN(cstl_dlist_clear),
    FN(cstl_dlist_swap),
    FN(cstl_hash_init),
    FN(cstl_hash_size),
    FN(cstl_hash_load),
    FN(cstl_hash_shrink_to_fit),
    FN(cstl_hash_resize),
    FN(cstl_hash_rehash),
    FN(cstl_hash_insert),
    FN(cstl_hash_find),
    FN(cstl_hash_erase),
    FN(cstl_hash_foreach),
    FN(cstl_hash_foreach_const),
    FN(cstl_hash_clear),
    FN(cstl_hash_swap),
    FN(cstl_hash_div),
    FN(cstl_hash_mul),
    FN(cstl_heap_init),
    FN(cstl_heap_size),
    FN(cstl_heap_push),
    FN(cstl_heap_get),
    FN(cstl_heap_pop),
    FN(cstl_heap_clear),
    FN(cstl_heap_swap),
    FN(cstl_rbtree_init),
    FN(cstl_rbtree_size),
    FN(cstl_rbtree_insert),
    FN(cstl_rbtree_find),
    FN(cstl_rbtree_erase),
    FN(__cstl_rbtree_erase),
    FN(cstl_rbtree_clear),
    FN(cstl_rbtree_swap),
    FN(cstl_rbtree_foreach),
    FN(cstl_rbtree_height),
    FN(cstl_map_iterator_end),
    FN(cstl_map_iterator_eq),
    FN(cstl_map_init),
    FN(cstl_map_size),
    FN(cstl_map_insert),
    FN(cstl_map_find),
    FN(cstl_map_erase),
    FN(cstl_map_erase_iterator),
    FN(cstl_map_clear),
    FN(cstl_slist_init),
    FN(cstl_slist_size),
    FN(cstl_slist_insert_after),
    FN(cstl_slist_erase_after),
    FN(cstl_slist_push_front),
    FN(cstl_slist_push_back),
    FN(cstl_slist_pop_front),
    FN(cstl_slist_front),
    FN(cstl_slist_back),
    FN(cstl_slist_reverse),
    FN(cstl_slist_sort),
    FN(cstl_slist_concat),
    FN(cstl_slist_foreach),
    FN(cstl_slist_clear),
    FN(cstl_slist_swap),
    FN(cstl_vector_init_complex),
    FN(cstl_vector_init),
    FN(cstl_vector_size),
    FN(cstl_vector_capacity),
    FN(cstl_vector_data),
    FN(cstl_vector_at),
    FN(cstl_vector_at_const),
    FN(cstl_vector_reserve),
    FN(cstl_vector_shrink_to_fit),
    FN(cstl_vector_resize),
    FN(__cstl_vector_sort),
    FN(cstl_vector_sort),
    FN(cstl_vector_search),
    FN(cstl_vector_find),
    FN(__cstl_vector_reverse),
    FN(cstl_vector_reverse),
    FN(cstl_vector_swap),
    FN(cstl_vector_clear),
    FN(cstl_string_init),
    FN(cstl_string_size),
    FN(cstl_string_capacity),
    FN(cstl_string_reserve),
    FN(cstl_string_resize),
    FN(cstl_string_at),
    FN(cstl_string_at_const),
    FN(cstl_string_data),
    FN(cstl_string_str),
    FN(cstl_string_compare_str),
    FN(cstl_string_compare),
    FN(cstl_string_clear),
    FN(cstl_string_insert_ch),
    FN(cstl_string_insert_str_n),
    FN(cstl_string_insert_str),
    FN(cstl_string_insert),
    FN(cstl_string_append),
    FN(cstl_string_append_ch),
    FN(cstl_string_append_str_n),
    FN(cstl_string_append_str),
    FN(cstl_string_set_str),
    FN(cstl_string_erase),
    FN(cstl_string_substr),
    FN(cstl_string_find_ch),
    FN(cstl_string_find_str),
    FN(cstl_string_find),
    FN(cstl_string_swap),
    FN(cstl_wstring_init),
    FN(cstl_wstring_size),
    FN(cstl_wstring_capacity),
    FN(cstl_wstring_reserve),
    FN(cstl_wstring_resize),
    FN(cstl_wstring_at),
    FN(cstl_wstring_at_const),
    FN(cstl_wstring_data),
    FN(cstl_wstring_str),
    FN(cstl_wstring_compare_str),
    FN(cstl_wstring_compare),
    FN(cstl_wstring_clear),
    FN(cstl_wstring_insert_ch),
    FN(cstl_wstring_insert_str_n),
    FN(cstl_wstring_insert_str),
    FN(cstl_wstring_insert),
    FN(cstl_wstring_append),
    FN(cstl_wstring_append_ch),
    FN(cstl_wstring_append_str_n),
    FN(cstl_wstring_append_str),
    FN(cstl_wstring_set_str),
    FN(cstl_wstring_erase),
    FN(cstl_wstring_substr),
    FN(cstl_wstring_find_ch),
    FN(cstl_wstring_find_str),
    FN(cstl_wstring_find),
    FN(cstl_wstring_swap),
};
#undef FN

static void test_addresses(void)
{
    size_t i;
    const void * volatile d1 = &cstl_string_nul;
    const void * volatile d2 = &cstl_wstring_nul;

    for (i = 0; i < sizeof(fn_tab) / sizeof(fn_tab[0]); i++) {
        volatile c18_fn_t f = fn_tab[i].fn;
        if (f == (c18_fn_t)0) {
            fprintf(stderr, "no address for %s\n", fn_tab[i].name);
            failures++;
        }
    }
    CHECK(sizeof(fn_tab) / sizeof(fn_tab[0]) == 203);
    CHECK(d1 != NULL && d2 != NULL);
    CHECK(cstl_string_nul == '\0');
    CHECK(cstl_wstring_nul == L'\0');
}

/* ------------------------------------------------------------------ */
/* every module, through its public API                               */
/* ------------------------------------------------------------------ */

struct elem
{
    int v;
    struct cstl_bintree_node bn;
    struct cstl_rbtree_node rn;
    struct cstl_heap_node hn;
    struct cstl_dlist_node dn;
    struct cstl_slist_node sn;
    struct cstl_hash_node hsn;
};

static int cmp_calls;

static int elem_cmp(const void * const a, const void * const b, void * const p)
{
    (void)p;
    cmp_calls++;
    return ((const struct elem *)a)->v - ((const struct elem *)b)->v;
}

static int int_cmp(const void * const a, const void * const b, void * const p)
{
    if (p != NULL) {
        /* a callback that uses another container */
        struct cstl_vector * const log = p;
        cstl_vector_resize(log, cstl_vector_size(log) + 1);
        *(int *)cstl_vector_at(log, cstl_vector_size(log) - 1) =
            *(const int *)a;
    }
    return *(const int *)a - *(const int *)b;
}

/* objects set up by the static initialiser macros, at file scope */
static DECLARE_CSTL_VECTOR(g_vec, int);
static DECLARE_CSTL_BINTREE(g_bt, struct elem, bn, elem_cmp, NULL);
static DECLARE_CSTL_RBTREE(g_rb, struct elem, rn, elem_cmp, NULL);
static DECLARE_CSTL_HEAP(g_heap, struct elem, hn, elem_cmp, NULL);
static DECLARE_CSTL_DLIST(g_dl, struct elem, dn);
static DECLARE_CSTL_SLIST(g_sl, struct elem, sn);
static DECLARE_CSTL_HASH(g_hash, struct elem, hsn);
static DECLARE_CSTL_STRING(string, g_str);
static DECLARE_CSTL_STRING(wstring, g_wstr);
static DECLARE_CSTL_GUARDED_PTR(g_gp);
static DECLARE_CSTL_UNIQUE_PTR(g_up);
static DECLARE_CSTL_SHARED_PTR(g_sp);
static DECLARE_CSTL_WEAK_PTR(g_wp);
static DECLARE_CSTL_ARRAY(g_arr);

static unsigned int rnd_state = 12345;
static unsigned int rnd(void)
{
    rnd_state = rnd_state * 1103515245u + 12345u;
    return (rnd_state >> 16) & 0x7fff;
}

static void test_common(void)
{
    unsigned int i;

    CHECK(cstl_fls(0) == -1);
    CHECK(cstl_fls(1) == 0);
    CHECK(cstl_fls(~0UL) == (int)(8 * sizeof(unsigned long)) - 1);
    for (i = 0; i < 8 * sizeof(unsigned long); i++) {
        CHECK(cstl_fls(1UL << i) == (int)i);
        CHECK(cstl_fls((1UL << i) | 1UL) == (int)i);
    }

    for (i = 1; i <= 40; i++) {
        unsigned char a[40], b[40], t[40], a0[40], b0[40];
        unsigned int j;
        for (j = 0; j < i; j++) {
            a[j] = a0[j] = (unsigned char)rnd();
            b[j] = b0[j] = (unsigned char)rnd();
        }
        cstl_swap(a, b, t, i);
        CHECK(memcmp(a, b0, i) == 0);
        CHECK(memcmp(b, a0, i) == 0);
    }
    CHECK(CSTL_MAX_T(int, 3, 4) == 4);
}

static int clr_count;
static void count_clr(void * const p, void * const priv)
{
    (void)p;
    if (priv != NULL) {
        ++*(int *)priv;
    }
    clr_count++;
}

static void test_memory(void)
{
    struct cstl_guarded_ptr gp, gq;
    cstl_unique_ptr_t up, uq;
    cstl_shared_ptr_t sp, sq;
    cstl_weak_ptr_t wp, wq;
    cstl_xtor_func_t * clr;
    void * priv, * p;
    int x = 0, n = 0;

    CHECK(cstl_guarded_ptr_get(&g_gp) == NULL);
    cstl_guarded_ptr_init(&gp);
    cstl_guarded_ptr_set(&gq, &x);
    CHECK(cstl_guarded_ptr_get_const(&gp) == NULL);
    CHECK(cstl_guarded_ptr_get(&gq) == &x);
    cstl_guarded_ptr_swap(&gp, &gq);
    CHECK(cstl_guarded_ptr_get(&gp) == &x);
    CHECK(cstl_guarded_ptr_get(&gq) == NULL);
    cstl_guarded_ptr_copy(&gq, &gp);
    CHECK(cstl_guarded_ptr_get(&gq) == &x);

    CHECK(cstl_unique_ptr_get(&g_up) == NULL);
    cstl_unique_ptr_reset(&g_up);
    cstl_unique_ptr_init(&up);
    cstl_unique_ptr_init(&uq);
    cstl_unique_ptr_alloc(&up, 64, count_clr, &n);
    CHECK(cstl_unique_ptr_get(&up) != NULL);
    CHECK(cstl_unique_ptr_get_const(&up) == cstl_unique_ptr_get(&up));
    memset(cstl_unique_ptr_get(&up), 0x5a, 64);
    cstl_unique_ptr_swap(&up, &uq);
    CHECK(cstl_unique_ptr_get(&up) == NULL);
    CHECK(cstl_unique_ptr_get(&uq) != NULL);
    cstl_unique_ptr_reset(&uq);
    CHECK(n == 1);
    CHECK(cstl_unique_ptr_get(&uq) == NULL);
    cstl_unique_ptr_alloc(&up, 8, count_clr, &n);
    clr = NULL; priv = NULL;
    p = cstl_unique_ptr_release(&up, &clr, &priv);
    CHECK(p != NULL && clr == count_clr && priv == &n);
    CHECK(cstl_unique_ptr_get(&up) == NULL);
    free(p);
    cstl_unique_ptr_alloc(&up, 0, NULL, NULL);
    cstl_unique_ptr_reset(&up);
    cstl_unique_ptr_reset(&up);

    CHECK(cstl_shared_ptr_get(&g_sp) == NULL);
    CHECK(cstl_shared_ptr_unique(&g_sp));
    cstl_weak_ptr_reset(&g_wp);
    cstl_shared_ptr_init(&sp);
    cstl_shared_ptr_init(&sq);
    cstl_weak_ptr_init(&wp);
    cstl_weak_ptr_init(&wq);
    clr_count = 0;
    cstl_shared_ptr_alloc(&sp, 32, count_clr);
    CHECK(cstl_shared_ptr_get(&sp) != NULL);
    CHECK(cstl_shared_ptr_unique(&sp));
    cstl_shared_ptr_share(&sp, &sq);
    CHECK(!cstl_shared_ptr_unique(&sp));
    CHECK(cstl_shared_ptr_get_const(&sp) == cstl_shared_ptr_get(&sq));
    cstl_weak_ptr_from(&wp, &sp);
    cstl_weak_ptr_swap(&wp, &wq);
    cstl_shared_ptr_reset(&sp);
    CHECK(cstl_shared_ptr_get(&sp) == NULL);
    CHECK(clr_count == 0);
    cstl_weak_ptr_lock(&wq, &sp);
    CHECK(cstl_shared_ptr_get(&sp) == cstl_shared_ptr_get(&sq));
    cstl_shared_ptr_swap(&sp, &g_sp);
    CHECK(cstl_shared_ptr_get(&sp) == NULL);
    cstl_shared_ptr_reset(&g_sp);
    cstl_shared_ptr_reset(&sq);
    CHECK(clr_count == 1);
    cstl_weak_ptr_lock(&wq, &sp);
    CHECK(cstl_shared_ptr_get(&sp) == NULL);
    cstl_weak_ptr_reset(&wq);
    cstl_weak_ptr_reset(&wp);
    cstl_shared_ptr_reset(&sp);
}

static void test_array(void)
{
    cstl_array_t a, s;
    int raw[64], ext[8], t, i, key;
    void * buf;
    DECLARE_CSTL_VECTOR(log, int);

    CHECK(cstl_array_size(&g_arr) == 0);
    cstl_array_reset(&g_arr);

    cstl_array_init(&a);
    cstl_array_init(&s);
    cstl_array_alloc(&a, 20, sizeof(int));
    CHECK(cstl_array_size(&a) == 20);
    for (i = 0; i < 20; i++) {
        *(int *)cstl_array_at(&a, i) = 100 - i;
    }
    CHECK(*(const int *)cstl_array_at_const(&a, 19) == 81);
    CHECK(cstl_array_data(&a) == cstl_array_data_const(&a));
    cstl_array_slice(&a, 5, 10, &s);
    CHECK(cstl_array_size(&s) == 5);
    CHECK(*(int *)cstl_array_at(&s, 0) == 95);
    cstl_array_slice(&s, 1, 2, &s);
    CHECK(cstl_array_size(&s) == 1);
    CHECK(*(int *)cstl_array_at(&s, 0) == 94);
    cstl_array_reset(&a);
    /* the slice keeps the memory alive */
    CHECK(*(int *)cstl_array_at(&s, 0) == 94);
    cstl_array_unslice(&s, &a);
    CHECK(cstl_array_size(&a) == 20);
    CHECK(*(int *)cstl_array_at(&a, 0) == 100);
    cstl_array_reset(&a);
    cstl_array_reset(&s);

    cstl_array_set(&a, ext, 8, sizeof(ext[0]));
    CHECK(cstl_array_data(&a) == ext);
    cstl_array_slice(&a, 0, 8, &s);
    buf = ext;
    cstl_array_release(&a, &buf);
    CHECK(buf == NULL);
    cstl_array_reset(&s);
    cstl_array_release(&a, &buf);
    CHECK(buf == ext);
    cstl_array_reset(&a);

    for (i = 0; i < 64; i++) {
        raw[i] = (int)(rnd() % 50);
    }
    cstl_raw_array_sort(raw, 64, sizeof(raw[0]), int_cmp, &log,
                        cstl_swap, &t, CSTL_SORT_ALGORITHM_HEAP);
    CHECK(cstl_vector_size(&log) > 0);
    cstl_vector_clear(&log);
    for (i = 1; i < 64; i++) {
        CHECK(raw[i - 1] <= raw[i]);
    }
    key = raw[17];
    i = (int)cstl_raw_array_search(raw, 64, sizeof(raw[0]), &key, int_cmp, NULL);
    CHECK(i >= 0 && raw[i] == key);
    i = (int)cstl_raw_array_find(raw, 64, sizeof(raw[0]), &key, int_cmp, NULL);
    CHECK(i >= 0 && raw[i] == key && (i == 0 || raw[i - 1] != key));
    key = 1000;
    CHECK(cstl_raw_array_search(raw, 64, sizeof(raw[0]), &key, int_cmp, NULL) == -1);
    CHECK(cstl_raw_array_find(raw, 64, sizeof(raw[0]), &key, int_cmp, NULL) == -1);
    cstl_raw_array_reverse(raw, 64, sizeof(raw[0]), cstl_swap, &t);
    for (i = 1; i < 64; i++) {
        CHECK(raw[i - 1] >= raw[i]);
    }
    for (i = 0; i <= (int)CSTL_SORT_ALGORITHM_HEAP; i++) {
        int j;
        for (j = 0; j < 64; j++) {
            raw[j] = (int)(rnd() % 1000);
        }
        cstl_raw_array_sort(raw, 64, sizeof(raw[0]), int_cmp, NULL,
                            cstl_swap, &t, (cstl_sort_algorithm_t)i);
        for (j = 1; j < 64; j++) {
            CHECK(raw[j - 1] <= raw[j]);
        }
    }
}

static int xtor_balance;
static void vec_cons(void * const e, void * const p)
{
    (void)p;
    *(int *)e = -7;
    xtor_balance++;
}
static void vec_dest(void * const e, void * const p)
{
    (void)e; (void)p;
    xtor_balance--;
}

static void test_vector(void)
{
    struct cstl_vector v, w;
    size_t i;
    int key;

    CHECK(cstl_vector_size(&g_vec) == 0);
    cstl_vector_resize(&g_vec, 3);
    *(int *)cstl_vector_at(&g_vec, 2) = 9;
    CHECK(cstl_vector_capacity(&g_vec) >= 3);

    cstl_vector_init(&v, sizeof(int));
    cstl_vector_init_complex(&w, sizeof(int), vec_cons, vec_dest, NULL);
    cstl_vector_reserve(&v, 10);
    CHECK(cstl_vector_size(&v) == 0 && cstl_vector_capacity(&v) >= 10);
    cstl_vector_resize(&v, 100);
    CHECK(cstl_vector_data(&v) == cstl_vector_at(&v, 0));
    for (i = 0; i < 100; i++) {
        *(int *)cstl_vector_at(&v, i) = (int)(rnd() % 1000);
    }
    cstl_vector_sort(&v, int_cmp, NULL);
    for (i = 1; i < 100; i++) {
        CHECK(*(const int *)cstl_vector_at_const(&v, i - 1) <=
              *(const int *)cstl_vector_at_const(&v, i));
    }
    key = *(int *)cstl_vector_at(&v, 42);
    CHECK(cstl_vector_search(&v, &key, int_cmp, NULL) >= 0);
    CHECK(cstl_vector_find(&v, &key, int_cmp, NULL) >= 0);
    key = -1;
    CHECK(cstl_vector_search(&v, &key, int_cmp, NULL) == -1);
    CHECK(cstl_vector_find(&v, &key, int_cmp, NULL) == -1);
    cstl_vector_reverse(&v);
    for (i = 1; i < 100; i++) {
        CHECK(*(int *)cstl_vector_at(&v, i - 1) >= *(int *)cstl_vector_at(&v, i));
    }
    __cstl_vector_sort(&v, int_cmp, NULL, cstl_swap, CSTL_SORT_ALGORITHM_QUICK_R);
    __cstl_vector_reverse(&v, cstl_swap);
    __cstl_vector_reverse(&v, cstl_swap);
    for (i = 1; i < 100; i++) {
        CHECK(*(int *)cstl_vector_at(&v, i - 1) <= *(int *)cstl_vector_at(&v, i));
    }
    cstl_vector_resize(&v, 10);
    cstl_vector_shrink_to_fit(&v);
    CHECK(cstl_vector_capacity(&v) == 10);

    cstl_vector_resize(&w, 17);
    CHECK(xtor_balance == 17);
    CHECK(*(int *)cstl_vector_at(&w, 16) == -7);
    cstl_vector_swap(&v, &w);
    CHECK(cstl_vector_size(&v) == 17 && cstl_vector_size(&w) == 10);
    cstl_vector_resize(&v, 5);
    CHECK(xtor_balance == 5);
    cstl_vector_clear(&v);
    CHECK(xtor_balance == 0);
    cstl_vector_clear(&w);
    cstl_vector_clear(&g_vec);
    CHECK(cstl_vector_size(&g_vec) == 0 && cstl_vector_capacity(&g_vec) == 0);
}

static void test_string(void)
{
    DECLARE_CSTL_STRING(string, s);
    DECLARE_CSTL_STRING(wstring, ws);
    cstl_string_t t;
    cstl_wstring_t wt;

    CHECK(cstl_string_size(&g_str) == 0);
    CHECK(strcmp(cstl_string_str(&g_str), "") == 0);
    CHECK(wcscmp(cstl_wstring_str(&g_wstr), L"") == 0);

    cstl_string_init(&t);
    cstl_string_set_str(&s, "hello");
    cstl_string_append_ch(&s, 2, ',');
    cstl_string_append_str(&s, " world");
    cstl_string_append_str_n(&s, "!!!!", 2);
    CHECK(cstl_string_compare_str(&s, "hello,, world!!") == 0);
    CHECK(cstl_string_size(&s) == 15);
    cstl_string_erase(&s, 5, 1);
    CHECK(cstl_string_find_ch(&s, ',', 0) == 5);
    CHECK(cstl_string_find_str(&s, "world", 0) == 7);
    CHECK(cstl_string_find_str(&s, "worlds", 0) == -1);
    cstl_string_substr(&s, 7, 5, &t);
    CHECK(cstl_string_compare_str(&t, "world") == 0);
    CHECK(cstl_string_find(&s, &t, 2) == 7);
    cstl_string_insert(&s, 0, &t);
    cstl_string_insert_str(&s, 5, ": ");
    cstl_string_insert_str_n(&s, 0, "<<<<", 1);
    cstl_string_insert_ch(&s, cstl_string_size(&s), 1, '>');
    CHECK(strcmp(cstl_string_str(&s), "<world: hello, world!!>") == 0);
    cstl_string_set_str(&g_str, "wide");
    cstl_string_append(&t, &g_str);
    CHECK(cstl_string_compare_str(&t, "worldwide") == 0);
    cstl_string_clear(&g_str);
    CHECK(cstl_string_compare(&s, &t) < 0);
    cstl_string_swap(&s, &t);
    CHECK(cstl_string_compare(&s, &t) > 0);
    CHECK(*cstl_string_at(&s, 0) == 'w' && *cstl_string_at_const(&t, 0) == '<');
    CHECK(cstl_string_data(&s) == cstl_string_at(&s, 0));
    cstl_string_reserve(&s, 100);
    CHECK(cstl_string_capacity(&s) >= 100);
    cstl_string_resize(&s, 3);
    CHECK(strcmp(cstl_string_str(&s), "wor") == 0);
    cstl_string_clear(&s);
    cstl_string_clear(&t);
    CHECK(cstl_string_size(&s) == 0);

    cstl_wstring_init(&wt);
    cstl_wstring_set_str(&ws, L"hello");
    cstl_wstring_append_ch(&ws, 2, L',');
    cstl_wstring_append_str(&ws, L" world");
    cstl_wstring_append_str_n(&ws, L"!!!!", 2);
    CHECK(cstl_wstring_compare_str(&ws, L"hello,, world!!") == 0);
    CHECK(cstl_wstring_size(&ws) == 15);
    cstl_wstring_erase(&ws, 5, 1);
    CHECK(cstl_wstring_find_ch(&ws, L',', 0) == 5);
    CHECK(cstl_wstring_find_str(&ws, L"world", 0) == 7);
    CHECK(cstl_wstring_find_str(&ws, L"worlds", 0) == -1);
    cstl_wstring_substr(&ws, 7, 5, &wt);
    CHECK(cstl_wstring_compare_str(&wt, L"world") == 0);
    CHECK(cstl_wstring_find(&ws, &wt, 2) == 7);
    cstl_wstring_insert(&ws, 0, &wt);
    cstl_wstring_insert_str(&ws, 5, L": ");
    cstl_wstring_insert_str_n(&ws, 0, L"<<<<", 1);
    cstl_wstring_insert_ch(&ws, cstl_wstring_size(&ws), 1, L'>');
    CHECK(wcscmp(cstl_wstring_str(&ws), L"<world: hello, world!!>") == 0);
    cstl_wstring_set_str(&g_wstr, L"wide");
    cstl_wstring_append(&wt, &g_wstr);
    CHECK(cstl_wstring_compare_str(&wt, L"worldwide") == 0);
    cstl_wstring_clear(&g_wstr);
    CHECK(cstl_wstring_compare(&ws, &wt) < 0);
    cstl_wstring_swap(&ws, &wt);
    CHECK(cstl_wstring_compare(&ws, &wt) > 0);
    CHECK(*cstl_wstring_at(&ws, 0) == L'w');
    CHECK(*cstl_wstring_at_const(&wt, 0) == L'<');
    CHECK(cstl_wstring_data(&ws) == cstl_wstring_at(&ws, 0));
    cstl_wstring_reserve(&ws, 100);
    CHECK(cstl_wstring_capacity(&ws) >= 100);
    cstl_wstring_resize(&ws, 3);
    CHECK(wcscmp(cstl_wstring_str(&ws), L"wor") == 0);
    cstl_wstring_clear(&ws);
    cstl_wstring_clear(&wt);
}

static int sum_visit(void * const e, void * const p)
{
    *(long *)p += ((struct elem *)e)->v;
    return 0;
}
static int sum_visit_const(const void * const e, void * const p)
{
    *(long *)p += ((const struct elem *)e)->v;
    return 0;
}
static int match_visit(const void * const e, void * const p)
{
    return e == p;
}

static void test_lists(struct elem * const pool, const size_t n)
{
    struct cstl_dlist dl;
    struct cstl_slist sl;
    size_t i;
    long sum, want = 0;
    int prev;
    struct elem * e;

    cstl_dlist_init(&dl, offsetof(struct elem, dn));
    cstl_slist_init(&sl, offsetof(struct elem, sn));
    for (i = 0; i < n; i++) {
        pool[i].v = (int)(rnd() % 500);
        want += pool[i].v;
        if (i % 2 == 0) {
            cstl_dlist_push_back(&g_dl, &pool[i]);
            cstl_slist_push_back(&g_sl, &pool[i]);
        } else {
            cstl_dlist_push_front(&dl, &pool[i]);
            cstl_slist_push_front(&sl, &pool[i]);
        }
    }
    CHECK(cstl_dlist_size(&g_dl) + cstl_dlist_size(&dl) == n);
    CHECK(cstl_slist_size(&g_sl) + cstl_slist_size(&sl) == n);
    cstl_dlist_concat(&g_dl, &dl);
    cstl_slist_concat(&g_sl, &sl);
    CHECK(cstl_dlist_size(&g_dl) == n && cstl_dlist_size(&dl) == 0);
    CHECK(cstl_slist_size(&g_sl) == n && cstl_slist_size(&sl) == 0);
    cstl_dlist_swap(&g_dl, &dl);
    cstl_slist_swap(&g_sl, &sl);
    CHECK(cstl_dlist_size(&dl) == n && cstl_slist_size(&sl) == n);

    cstl_dlist_sort(&dl, elem_cmp, NULL);
    cstl_slist_sort(&sl, elem_cmp, NULL);
    sum = 0;
    CHECK(cstl_dlist_foreach(&dl, sum_visit, &sum, CSTL_DLIST_FOREACH_DIR_FWD) == 0);
    CHECK(sum == want);
    sum = 0;
    CHECK(cstl_dlist_foreach(&dl, sum_visit, &sum, CSTL_DLIST_FOREACH_DIR_REV) == 0);
    CHECK(sum == want);
    sum = 0;
    CHECK(cstl_slist_foreach(&sl, sum_visit, &sum) == 0);
    CHECK(sum == want);
    CHECK(((struct elem *)cstl_dlist_front(&dl))->v <=
          ((struct elem *)cstl_dlist_back(&dl))->v);
    CHECK(((struct elem *)cstl_slist_front(&sl))->v <=
          ((struct elem *)cstl_slist_back(&sl))->v);
    CHECK(cstl_dlist_find(&dl, &pool[3], elem_cmp, NULL,
                          CSTL_DLIST_FOREACH_DIR_REV) != NULL);
    cstl_dlist_reverse(&dl);
    cstl_slist_reverse(&sl);

    /* the new object goes after the one named */
    e = cstl_dlist_back(&dl);
    cstl_dlist_erase(&dl, e);
    CHECK(cstl_dlist_size(&dl) == n - 1);
    cstl_dlist_insert(&dl, cstl_dlist_back(&dl), e);
    CHECK(cstl_dlist_back(&dl) == e);
    e = cstl_slist_pop_front(&sl);
    cstl_slist_insert_after(&sl, cstl_slist_front(&sl), e);
    CHECK(cstl_slist_erase_after(&sl, cstl_slist_front(&sl)) == e);
    cstl_slist_push_front(&sl, e);
    CHECK(cstl_slist_size(&sl) == n);

    prev = 1000000;
    for (i = 0; i < n / 2; i++) {
        e = cstl_dlist_pop_front(&dl);
        CHECK(e != NULL && e->v <= prev);
        if (e != NULL) {
            prev = e->v;
        }
    }
    prev = 1000000;
    while ((e = cstl_slist_pop_front(&sl)) != NULL) {
        CHECK(e->v <= prev);
        prev = e->v;
    }
    prev = -1;
    while ((e = cstl_dlist_pop_back(&dl)) != NULL) {
        CHECK(e->v >= prev);
        prev = e->v;
    }
    clr_count = 0;
    cstl_dlist_push_back(&dl, &pool[0]);
    cstl_slist_push_back(&sl, &pool[0]);
    cstl_dlist_clear(&dl, count_clr);
    cstl_slist_clear(&sl, count_clr);
    CHECK(clr_count == 2);
    CHECK(cstl_dlist_size(&dl) == 0 && cstl_slist_size(&sl) == 0);
}

static void test_hash(struct elem * const pool, const size_t n)
{
    struct cstl_hash h;
    size_t i;
    long sum, want = 0;

    cstl_hash_init(&h, offsetof(struct elem, hsn));
    CHECK(cstl_hash_size(&g_hash) == 0);
    cstl_hash_resize(&g_hash, 8, cstl_hash_div);
    cstl_hash_resize(&h, 5, NULL);
    for (i = 0; i < n; i++) {
        pool[i].v = (int)i;
        want += (long)i;
        cstl_hash_insert(&g_hash, i % 37, &pool[i]);
        if (i == n / 2) {
            cstl_hash_resize(&g_hash, 64, cstl_hash_mul);
        }
    }
    CHECK(cstl_hash_size(&g_hash) == n);
    CHECK(cstl_hash_load(&g_hash) > 0.0f);
    for (i = 0; i < n; i++) {
        CHECK(cstl_hash_find(&g_hash, i % 37, match_visit, &pool[i]) == &pool[i]);
    }
    CHECK(cstl_hash_find(&g_hash, 5, NULL, NULL) != NULL);
    CHECK(cstl_hash_find(&g_hash, 1000, NULL, NULL) == NULL);
    sum = 0;
    cstl_hash_foreach_const(&g_hash, sum_visit_const, &sum);
    CHECK(sum == want);
    cstl_hash_rehash(&g_hash);
    cstl_hash_swap(&g_hash, &h);
    CHECK(cstl_hash_size(&h) == n && cstl_hash_size(&g_hash) == 0);
    sum = 0;
    cstl_hash_foreach(&h, sum_visit, &sum);
    CHECK(sum == want);
    for (i = 0; i < n; i += 2) {
        cstl_hash_erase(&h, &pool[i]);
    }
    CHECK(cstl_hash_size(&h) == n / 2);
    cstl_hash_resize(&h, 3, NULL);
    cstl_hash_shrink_to_fit(&h);
    CHECK(cstl_hash_find(&h, 1, match_visit, &pool[1]) == &pool[1]);
    CHECK(cstl_hash_find(&h, 0, match_visit, &pool[0]) == NULL);
    CHECK(cstl_hash_div(10, 7) < 7 && cstl_hash_mul(10, 7) < 7);
    clr_count = 0;
    cstl_hash_clear(&h, NULL);
    cstl_hash_clear(&g_hash, NULL);
    CHECK(cstl_hash_size(&h) == 0);
}

struct walk
{
    int prev;
    size_t count;
    int bad;
};

static int walk_visit(const void * const e,
                      const cstl_bintree_visit_order_t ord, void * const p)
{
    struct walk * const w = p;
    if (ord == CSTL_BINTREE_VISIT_ORDER_MID
        || ord == CSTL_BINTREE_VISIT_ORDER_LEAF) {
        const int v = ((const struct elem *)e)->v;
        if (w->count > 0 && v < w->prev) {
            w->bad++;
        }
        w->prev = v;
        w->count++;
    }
    return 0;
}

static void test_trees(struct elem * const pool, const size_t n)
{
    struct cstl_bintree bt;
    struct cstl_rbtree rb;
    struct cstl_heap hp;
    struct walk w;
    struct elem key;
    const void * par;
    size_t i, min, max;
    int prev;
    struct elem * e;
    int priv_count = 0;

    cstl_bintree_init(&bt, elem_cmp, NULL, offsetof(struct elem, bn));
    cstl_rbtree_init(&rb, elem_cmp, NULL, offsetof(struct elem, rn));
    cstl_heap_init(&hp, elem_cmp, NULL, offsetof(struct elem, hn));

    for (i = 0; i < n; i++) {
        pool[i].v = (int)((i * 7919u) % 1009u);
        cstl_bintree_insert(&g_bt, &pool[i], NULL);
        cstl_rbtree_insert(&g_rb, &pool[i], NULL);
        cstl_heap_push(&g_heap, &pool[i]);
    }
    CHECK(cstl_bintree_size(&g_bt) == n);
    CHECK(cstl_rbtree_size(&g_rb) == n);
    CHECK(cstl_heap_size(&g_heap) == n);
    cstl_bintree_swap(&g_bt, &bt);
    cstl_rbtree_swap(&g_rb, &rb);
    cstl_heap_swap(&g_heap, &hp);
    CHECK(cstl_bintree_size(&bt) == n && cstl_bintree_size(&g_bt) == 0);
    CHECK(cstl_rbtree_size(&rb) == n && cstl_rbtree_size(&g_rb) == 0);
    CHECK(cstl_heap_size(&hp) == n && cstl_heap_size(&g_heap) == 0);

    memset(&w, 0, sizeof(w));
    CHECK(cstl_bintree_foreach(&bt, walk_visit, &w,
                               CSTL_BINTREE_FOREACH_DIR_FWD) == 0);
    CHECK(w.count == n && w.bad == 0);
    memset(&w, 0, sizeof(w));
    CHECK(cstl_rbtree_foreach(&rb, walk_visit, &w,
                              CSTL_BINTREE_FOREACH_DIR_FWD) == 0);
    CHECK(w.count == n && w.bad == 0);

    cstl_bintree_height(&bt, &min, &max);
    CHECK(min <= max && max <= n);
    cstl_rbtree_height(&rb, &min, &max);
    CHECK(min <= max && max <= 2 * min + 1);

    for (i = 0; i < n; i += 3) {
        key.v = pool[i].v;
        par = NULL;
        CHECK(cstl_bintree_find(&bt, &key, &par) != NULL);
        CHECK(cstl_rbtree_find(&rb, &key, NULL) != NULL);
        e = cstl_bintree_erase(&bt, &key);
        CHECK(e != NULL && e->v == key.v);
        e = cstl_rbtree_erase(&rb, &key);
        CHECK(e != NULL && e->v == key.v);
    }
    key.v = 5000;
    CHECK(cstl_bintree_find(&bt, &key, NULL) == NULL);
    CHECK(cstl_rbtree_find(&rb, &key, &par) == NULL);
    CHECK(cstl_bintree_erase(&bt, &key) == NULL);
    CHECK(cstl_rbtree_erase(&rb, &key) == NULL);
    CHECK(cstl_bintree_size(&bt) == cstl_rbtree_size(&rb));
    cstl_rbtree_height(&rb, &min, &max);
    CHECK(min <= max && max <= 2 * min + 1);

    CHECK(((const struct elem *)cstl_heap_get(&hp))->v >= pool[0].v);
    prev = 1000000;
    for (i = 0; i < n / 2; i++) {
        e = cstl_heap_pop(&hp);
        CHECK(e != NULL && e->v <= prev);
        prev = e->v;
    }
    CHECK(cstl_heap_size(&hp) == n - n / 2);

    clr_count = 0;
    cstl_bintree_clear(&bt, count_clr, &priv_count);
    cstl_rbtree_clear(&rb, count_clr, &priv_count);
    CHECK(clr_count == priv_count && clr_count > 0);
    clr_count = 0;
    cstl_heap_clear(&hp, count_clr);
    CHECK((size_t)clr_count == n - n / 2);
    CHECK(cstl_bintree_size(&bt) == 0 && cstl_rbtree_size(&rb) == 0);
    CHECK(cstl_heap_size(&hp) == 0);
    CHECK(cstl_heap_pop(&hp) == NULL && cstl_heap_get(&hp) == NULL);
}

static void map_clr(void * const it, void * const p)
{
    const cstl_map_iterator_t * const i = it;
    *(long *)p += *(const int *)i->key + *(int *)i->val;
}

static void test_map(void)
{
    static int keys[200], vals[200];
    cstl_map_t m;
    cstl_map_iterator_t it;
    int i, k;
    long sum = 0, want = 0;

    cstl_map_init(&m, int_cmp, NULL);
    for (i = 0; i < 200; i++) {
        keys[i] = (i * 37) % 200;
        vals[i] = i;
        CHECK(cstl_map_insert(&m, &keys[i], &vals[i], &it) == 0);
        CHECK(it.key == &keys[i] && it.val == &vals[i]);
        CHECK(!cstl_map_iterator_eq(&it, cstl_map_iterator_end(&m)));
    }
    CHECK(cstl_map_size(&m) == 200);
    k = keys[10];
    CHECK(cstl_map_insert(&m, &k, &vals[0], &it) == 1);
    CHECK(it.key == &keys[10] && it.val == &vals[10]);
    CHECK(cstl_map_insert(&m, &k, &vals[0], NULL) == 1);
    k = 1000;
    cstl_map_find(&m, &k, &it);
    CHECK(cstl_map_iterator_eq(&it, cstl_map_iterator_end(&m)));
    CHECK(cstl_map_erase(&m, &k, NULL) == -1);
    for (i = 0; i < 200; i += 2) {
        k = keys[i];
        if (i % 4 == 0) {
            CHECK(cstl_map_erase(&m, &k, &it) == 0);
            CHECK(it.key == &keys[i] && it.val == &vals[i]);
            CHECK(cstl_map_iterator_eq(&it, cstl_map_iterator_end(&m)));
        } else {
            cstl_map_find(&m, &k, &it);
            CHECK(it.val == &vals[i]);
            cstl_map_erase_iterator(&m, &it);
        }
    }
    CHECK(cstl_map_size(&m) == 100);
    for (i = 1; i < 200; i += 2) {
        want += keys[i] + vals[i];
    }
    cstl_map_clear(&m, map_clr, &sum);
    CHECK(sum == want);
    CHECK(cstl_map_size(&m) == 0);
    cstl_map_clear(&m, NULL, NULL);
}

/* ------------------------------------------------------------------ */
/* documented aborts still end the program with SIGABRT               */
/* ------------------------------------------------------------------ */

static void misuse(const int which)
{
    DECLARE_CSTL_VECTOR(v, int);
    DECLARE_CSTL_STRING(string, s);
    DECLARE_CSTL_STRING(wstring, ws);
    DECLARE_CSTL_ARRAY(a);
    DECLARE_CSTL_ARRAY(sl);
    struct cstl_guarded_ptr gp, cp;

    cstl_vector_resize(&v, 4);
    cstl_string_set_str(&s, "abc");
    cstl_wstring_set_str(&ws, L"abc");
    cstl_array_alloc(&a, 4, sizeof(int));
    cstl_guarded_ptr_set(&gp, &v);

    switch (which) {
    case 0: (void)cstl_vector_at(&v, 4); break;
    case 1: (void)cstl_vector_at_const(&v, 1000); break;
    case 2: (void)cstl_string_at(&s, 3); break;
    case 3: (void)cstl_wstring_at_const(&ws, 3); break;
    case 4: cstl_string_insert_ch(&s, 4, 1, 'x'); break;
    case 5: cstl_wstring_insert_str(&ws, 4, L"x"); break;
    case 6: cstl_string_erase(&s, 4, 1); break;
    case 7: (void)cstl_string_find_ch(&s, 'a', 20); break;
    case 8: (void)cstl_wstring_find_str(&ws, L"a", 20); break;
    case 9: (void)cstl_array_at(&a, 4); break;
    case 10: cstl_array_slice(&a, 3, 2, &sl); break;
    case 11: cstl_array_slice(&a, 0, 5, &sl); break;
    case 12: cp = gp; (void)cstl_guarded_ptr_get(&cp); break;
    case 13: cstl_string_substr(&s, 9, 1, &s); break;
    default: abort();
    }
}

static void test_aborts(void)
{
    int which;

    fflush(NULL);
    for (which = 0; which < 14; which++) {
        int status = 0;
        const pid_t pid = fork();
        if (pid < 0) {
            perror("fork");
            failures++;
            return;
        }
        if (pid == 0) {
            struct rlimit rl;
            rl.rlim_cur = 0;
            rl.rlim_max = 0;
            (void)setrlimit(RLIMIT_CORE, &rl);
            misuse(which);
            _exit(0);
        }
        if (waitpid(pid, &status, 0) != pid
            || !WIFSIGNALED(status) || WTERMSIG(status) != SIGABRT) {
            fprintf(stderr, "misuse %d did not abort (status %#x)\n",
                    which, (unsigned int)status);
            failures++;
        }
    }
}

static int in_process(void)
{
    static struct elem pool[300];
    int round;

    test_addresses();
    test_aborts();
    for (round = 0; round < 3; round++) {
        test_common();
        test_memory();
        test_array();
        test_vector();
        test_string();
        test_lists(pool, 50 + 100 * (size_t)round);
        test_hash(pool, 60 + 120 * (size_t)round);
        test_trees(pool, 30 + 135 * (size_t)round);
        test_map();
    }
    CHECK(cmp_calls > 0);
    return failures;
}

#ifdef C18_NO_DRIVER

int main(void)
{
    return in_process() != 0;
}

#else

/* ------------------------------------------------------------------ */
/* the driver                                                         */
/* ------------------------------------------------------------------ */

#include <unistd.h>
#include <libgen.h>
#include <limits.h>

/* generated from the public headers: every function each header makes visible */
static const char * const all_funcs[] = {
    "cstl_swap",
    "cstl_fls",
    "cstl_guarded_ptr_set",
    "cstl_guarded_ptr_init",
    "cstl_guarded_ptr_get_const",
    "cstl_guarded_ptr_get",
    "cstl_guarded_ptr_copy",
    "cstl_guarded_ptr_swap",
    "cstl_unique_ptr_init",
    "cstl_unique_ptr_alloc",
    "cstl_unique_ptr_get_const",
    "cstl_unique_ptr_get",
    "cstl_unique_ptr_release",
    "cstl_unique_ptr_swap",
    "cstl_unique_ptr_reset",
    "cstl_shared_ptr_init",
    "cstl_shared_ptr_alloc",
    "cstl_shared_ptr_unique",
    "cstl_shared_ptr_get_const",
    "cstl_shared_ptr_get",
    "cstl_shared_ptr_share",
    "cstl_shared_ptr_swap",
    "cstl_shared_ptr_reset",
    "cstl_weak_ptr_init",
    "cstl_weak_ptr_from",
    "cstl_weak_ptr_lock",
    "cstl_weak_ptr_swap",
    "cstl_weak_ptr_reset",
    "cstl_array_init",
    "cstl_array_size",
    "cstl_array_set",
    "cstl_array_release",
    "cstl_array_alloc",
    "cstl_array_reset",
    "cstl_array_data_const",
    "cstl_array_data",
    "cstl_array_at_const",
    "cstl_array_at",
    "cstl_array_slice",
    "cstl_array_unslice",
    "cstl_raw_array_reverse",
    "cstl_raw_array_search",
    "cstl_raw_array_find",
    "cstl_raw_array_sort",
    "cstl_bintree_init",
    "cstl_bintree_size",
    "cstl_bintree_insert",
    "cstl_bintree_find",
    "cstl_bintree_erase",
    "cstl_bintree_clear",
    "cstl_bintree_swap",
    "cstl_bintree_foreach",
    "cstl_bintree_height",
    "__cstl_bintree_cmp",
    "__cstl_bintree_erase",
    "__cstl_bintree_left",
    "__cstl_bintree_right",
    "__cstl_bintree_rotate",
    "cstl_dlist_init",
    "cstl_dlist_size",
    "cstl_dlist_insert",
    "cstl_dlist_erase",
    "cstl_dlist_front",
    "cstl_dlist_back",
    "cstl_dlist_push_front",
    "cstl_dlist_push_back",
    "cstl_dlist_pop_front",
    "cstl_dlist_pop_back",
    "cstl_dlist_reverse",
    "cstl_dlist_sort",
    "cstl_dlist_concat",
    "cstl_dlist_foreach",
    "cstl_dlist_find",
    "cstl_dlist_clear",
    "cstl_dlist_swap",
    "cstl_hash_init",
    "cstl_hash_size",
    "cstl_hash_load",
    "cstl_hash_shrink_to_fit",
    "cstl_hash_resize",
    "cstl_hash_rehash",
    "cstl_hash_insert",
    "cstl_hash_find",
    "cstl_hash_erase",
    "cstl_hash_foreach",
    "cstl_hash_foreach_const",
    "cstl_hash_clear",
    "cstl_hash_swap",
    "cstl_hash_div",
    "cstl_hash_mul",
    "cstl_heap_init",
    "cstl_heap_size",
    "cstl_heap_push",
    "cstl_heap_get",
    "cstl_heap_pop",
    "cstl_heap_clear",
    "cstl_heap_swap",
    "cstl_rbtree_init",
    "cstl_rbtree_size",
    "cstl_rbtree_insert",
    "cstl_rbtree_find",
    "cstl_rbtree_erase",
    "__cstl_rbtree_erase",
    "cstl_rbtree_clear",
    "cstl_rbtree_swap",
    "cstl_rbtree_foreach",
    "cstl_rbtree_height",
    "cstl_map_iterator_end",
    "cstl_map_iterator_eq",
    "cstl_map_init",
    "cstl_map_size",
    "cstl_map_insert",
    "cstl_map_find",
    "cstl_map_erase",
    "cstl_map_erase_iterator",
    "cstl_map_clear",
    "cstl_slist_init",
    "cstl_slist_size",
    "cstl_slist_insert_after",
    "cstl_slist_erase_after",
    "cstl_slist_push_front",
    "cstl_slist_push_back",
    "cstl_slist_pop_front",
    "cstl_slist_front",
    "cstl_slist_back",
    "cstl_slist_reverse",
    "cstl_slist_sort",
    "cstl_slist_concat",
    "cstl_slist_foreach",
    "cstl_slist_clear",
    "cstl_slist_swap",
    "cstl_vector_init_complex",
    "cstl_vector_init",
    "cstl_vector_size",
    "cstl_vector_capacity",
    "cstl_vector_data",
    "cstl_vector_at",
    "cstl_vector_at_const",
    "cstl_vector_reserve",
    "cstl_vector_shrink_to_fit",
    "cstl_vector_resize",
    "__cstl_vector_sort",
    "cstl_vector_sort",
    "cstl_vector_search",
    "cstl_vector_find",
    "__cstl_vector_reverse",
    "cstl_vector_reverse",
    "cstl_vector_swap",
    "cstl_vector_clear",
    "cstl_string_init",
    "cstl_string_size",
    "cstl_string_capacity",
    "cstl_string_reserve",
    "cstl_string_resize",
    "cstl_string_at",
    "cstl_string_at_const",
    "cstl_string_data",
    "cstl_string_str",
    "cstl_string_compare_str",
    "cstl_string_compare",
    "cstl_string_clear",
    "cstl_string_insert_ch",
    "cstl_string_insert_str_n",
    "cstl_string_insert_str",
    "cstl_string_insert",
    "cstl_string_append",
    "cstl_string_append_ch",
    "cstl_string_append_str_n",
    "cstl_string_append_str",
    "cstl_string_set_str",
    "cstl_string_erase",
    "cstl_string_substr",
    "cstl_string_find_ch",
    "cstl_string_find_str",
    "cstl_string_find",
    "cstl_string_swap",
    "cstl_wstring_init",
    "cstl_wstring_size",
    "cstl_wstring_capacity",
    "cstl_wstring_reserve",
    "cstl_wstring_resize",
    "cstl_wstring_at",
    "cstl_wstring_at_const",
    "cstl_wstring_data",
    "cstl_wstring_str",
    "cstl_wstring_compare_str",
    "cstl_wstring_compare",
    "cstl_wstring_clear",
    "cstl_wstring_insert_ch",
    "cstl_wstring_insert_str_n",
    "cstl_wstring_insert_str",
    "cstl_wstring_insert",
    "cstl_wstring_append",
    "cstl_wstring_append_ch",
    "cstl_wstring_append_str_n",
    "cstl_wstring_append_str",
    "cstl_wstring_set_str",
    "cstl_wstring_erase",
    "cstl_wstring_substr",
    "cstl_wstring_find_ch",
    "cstl_wstring_find_str",
    "cstl_wstring_find",
    "cstl_wstring_swap",
};
#define N_FUNCS (sizeof(all_funcs) / sizeof(all_funcs[0]))
static const struct { const char * hdr; const char * vis; } hdr_tab[] = {
    { "array",
      "11111111111111111111111111111111111111111111000000000000000000000000000000000000000000000000000000000000000000000000000000000000000000000000000000000000000000000000000000000000000000000000000000000000000" },
    { "bintree",
      "11000000000000000000000000000000000000000000111111111111110000000000000000000000000000000000000000000000000000000000000000000000000000000000000000000000000000000000000000000000000000000000000000000000000" },
    { "common",
      "11000000000000000000000000000000000000000000000000000000000000000000000000000000000000000000000000000000000000000000000000000000000000000000000000000000000000000000000000000000000000000000000000000000000" },
    { "dlist",
      "11000000000000000000000000000000000000000000000000000000001111111111111111100000000000000000000000000000000000000000000000000000000000000000000000000000000000000000000000000000000000000000000000000000000" },
    { "hash",
      "11000000000000000000000000000000000000000000000000000000000000000000000000011111111111111100000000000000000000000000000000000000000000000000000000000000000000000000000000000000000000000000000000000000000" },
    { "heap",
      "11000000000000000000000000000000000000000000111111111111110000000000000000000000000000000011111110000000000000000000000000000000000000000000000000000000000000000000000000000000000000000000000000000000000" },
    { "map",
      "11000000000000000000000000000000000000000000111111111111110000000000000000000000000000000000000001111111111111111111000000000000000000000000000000000000000000000000000000000000000000000000000000000000000" },
    { "memory",
      "11111111111111111111111111110000000000000000000000000000000000000000000000000000000000000000000000000000000000000000000000000000000000000000000000000000000000000000000000000000000000000000000000000000000" },
    { "rbtree",
      "11000000000000000000000000000000000000000000111111111111110000000000000000000000000000000000000001111111111000000000000000000000000000000000000000000000000000000000000000000000000000000000000000000000000" },
    { "slist",
      "11000000000000000000000000000000000000000000000000000000000000000000000000000000000000000000000000000000000000000000111111111111111000000000000000000000000000000000000000000000000000000000000000000000000" },
    { "string",
      "11000000000000000000000000000000000000000000000000000000000000000000000000000000000000000000000000000000000000000000000000000000000111111111111111111111111111111111111111111111111111111111111111111111111" },
    { "vector",
      "11000000000000000000000000000000000000000000000000000000000000000000000000000000000000000000000000000000000000000000000000000000000111111111111111111000000000000000000000000000000000000000000000000000000" },
};

#define N_HDRS (sizeof(hdr_tab) / sizeof(hdr_tab[0]))

static char root[PATH_MAX + 1];    /* absolute path of the source tree */
static char work[PATH_MAX + 1];    /* scratch directory */
static unsigned int n_cmds, n_clients;

/* the project's own flags (Makefile: CFLAGS, less -MMD), warnings fatal */
static const char * const proj_flags =
    "-Wall -Wextra -Werror=vla -Werror=declaration-after-statement "
    "-std=c99 -pedantic -D_POSIX_C_SOURCE=199309L -Werror";

static int run(const char * const what, const char * const cmd)
{
    const int res = system(cmd);
    n_cmds++;
    if (res != 0) {
        fprintf(stderr, "FAILED (%s): %s\n", what, cmd);
        failures++;
    }
    return res;
}

/*
 * write a client translation unit that includes the given headers in
 * the given order and takes the address of every function they make
 * visible
 */
static void write_client(const char * const path,
                         const unsigned int * const hdrs, const size_t n)
{
    FILE * const f = fopen(path, "w");
    size_t i, j;
    int data = 0;

    if (f == NULL) {
        perror(path);
        exit(2);
    }
    for (i = 0; i < n; i++) {
        fprintf(f, "#include \"cstl/%s.h\"\n", hdr_tab[hdrs[i]].hdr);
        if (strcmp(hdr_tab[hdrs[i]].hdr, "string") == 0) {
            data = 1;
        }
    }
    fprintf(f, "#include <stddef.h>\n");
    fprintf(f, "typedef void (*c18_fn_t)(void);\n");
    fprintf(f, "static c18_fn_t const volatile tab[] = {\n");
    for (j = 0; j < N_FUNCS; j++) {
        for (i = 0; i < n; i++) {
            if (hdr_tab[hdrs[i]].vis[j] == '1') {
                fprintf(f, "    (c18_fn_t)%s,\n", all_funcs[j]);
                break;
            }
        }
    }
    fprintf(f, "};\n");
    fprintf(f, "int C18_TU(void)\n{\n    size_t i;\n    int bad = 0;\n");
    fprintf(f, "    for (i = 0; i < sizeof(tab) / sizeof(tab[0]); i++) {\n");
    fprintf(f, "        if (tab[i] == (c18_fn_t)0) {\n            bad++;\n");
    fprintf(f, "        }\n    }\n");
    if (data) {
        fprintf(f, "    if (cstl_string_nul != '\\0') {\n        bad++;\n    }\n");
        fprintf(f, "    if (cstl_wstring_nul != L'\\0') {\n        bad++;\n    }\n");
    }
    fprintf(f, "    return bad;\n}\n");
    fprintf(f, "#ifdef C18_MAIN\n");
    fprintf(f, "#ifdef C18_TWO\nextern int c18_tu2(void);\n#endif\n");
    fprintf(f, "int main(void)\n{\n    int bad = C18_TU();\n");
    fprintf(f, "#ifdef C18_TWO\n    bad += c18_tu2();\n#endif\n");
    fprintf(f, "    return bad != 0;\n}\n#endif\n");
    fclose(f);
}

static void client(const char * const name, const char * const opt,
                   const unsigned int * const hdrs, const size_t n)
{
    char cmd[8 * PATH_MAX];
    static const char * const lib[] = { "a", "so" };
    unsigned int two, l;

    n_clients++;
    snprintf(cmd, sizeof(cmd), "%s/%s.c", work, name);
    write_client(cmd, hdrs, n);

    snprintf(cmd, sizeof(cmd),
             "gcc %s %s -I%s/include -DC18_TU=c18_tu1 -DC18_MAIN "
             "-c %s/%s.c -o %s/m1.o", proj_flags, opt, root, work, name, work);
    if (run(name, cmd) != 0) {
        return;
    }
    snprintf(cmd, sizeof(cmd),
             "gcc %s %s -I%s/include -DC18_TU=c18_tu1 -DC18_MAIN -DC18_TWO "
             "-c %s/%s.c -o %s/m2.o", proj_flags, opt, root, work, name, work);
    run(name, cmd);
    snprintf(cmd, sizeof(cmd),
             "gcc %s %s -I%s/include -DC18_TU=c18_tu2 "
             "-c %s/%s.c -o %s/t2.o", proj_flags, opt, root, work, name, work);
    run(name, cmd);

    for (two = 0; two < 2; two++) {
        for (l = 0; l < 2; l++) {
            snprintf(cmd, sizeof(cmd),
                     "gcc -o %s/exe %s/m%u.o %s %s/build/libcstl.%s "
                     "-Wl,-rpath,%s/build -lm",
                     work, work, two + 1, two ? "t2.o" : "",
                     root, lib[l], root);
            if (two) {
                /* t2.o needs its directory */
                snprintf(cmd, sizeof(cmd),
                         "gcc -o %s/exe %s/m2.o %s/t2.o %s/build/libcstl.%s "
                         "-Wl,-rpath,%s/build -lm",
                         work, work, work, root, lib[l], root);
            }
            if (run(name, cmd) != 0) {
                continue;
            }
            snprintf(cmd, sizeof(cmd), "LD_LIBRARY_PATH=%s/build %s/exe",
                     root, work);
            run(name, cmd);
        }
    }
}

static void self(const char * const libname, const char * const opt)
{
    char cmd[8 * PATH_MAX];
    char src[2 * PATH_MAX];

    if (__FILE__[0] == '/') {
        snprintf(src, sizeof(src), "%s", __FILE__);
    } else {
        snprintf(src, sizeof(src), "%s/%s", root, __FILE__);
    }
    if (access(src, R_OK) != 0) {
        fprintf(stderr, "note: %s not found, self rebuild skipped\n", src);
        return;
    }
    snprintf(cmd, sizeof(cmd),
             "gcc %s %s -DC18_NO_DRIVER -I%s/include -o %s/self %s "
             "%s/build/%s -Wl,-rpath,%s/build -lm",
             proj_flags, opt, root, work, src, root, libname, root);
    if (run("self", cmd) == 0) {
        snprintf(cmd, sizeof(cmd), "LD_LIBRARY_PATH=%s/build %s/self",
                 root, work);
        run("self", cmd);
    }
}

int main(int argc, char ** argv)
{
    char cmd[2 * PATH_MAX];
    char name[64];
    unsigned int hdrs[2 * N_HDRS];
    unsigned int i, j;
    const char * env = getenv("CSTL_ROOT");

    (void)argc;

    if (realpath(env != NULL ? env : ".", root) == NULL) {
        perror("realpath");
        return 2;
    }
    snprintf(cmd, sizeof(cmd), "%s/build/libcstl.a", root);
    if (access(cmd, R_OK) != 0) {
        fprintf(stderr, "%s: not found; run from the tree root after "
                "`make build`\n", cmd);
        return 2;
    }
    snprintf(cmd, sizeof(cmd), "%s/build/libcstl.so", root);
    if (access(cmd, R_OK) != 0) {
        fprintf(stderr, "%s: not found\n", cmd);
        return 2;
    }

    /* scratch space next to the executable, else in /tmp */
    {
        char exe[PATH_MAX], tmpl[PATH_MAX];
        work[0] = '\0';
        if (realpath(argv[0], exe) != NULL) {
            snprintf(tmpl, sizeof(tmpl), "%s/c18work.XXXXXX", dirname(exe));
            if (mkdtemp(tmpl) != NULL) {
                snprintf(work, sizeof(work), "%s", tmpl);
            }
        }
        if (work[0] == '\0') {
            snprintf(tmpl, sizeof(tmpl), "/tmp/c18work.XXXXXX");
            if (mkdtemp(tmpl) == NULL) {
                perror("mkdtemp");
                return 2;
            }
            snprintf(work, sizeof(work), "%s", tmpl);
        }
    }

    in_process();
    if (failures != 0) {
        fprintf(stderr, "in-process part failed\n");
    }

    /* every header alone */
    for (i = 0; i < N_HDRS; i++) {
        hdrs[0] = i;
        snprintf(name, sizeof(name), "one_%s", hdr_tab[i].hdr);
        client(name, "-O0", hdrs, 1);
    }
    /* every pair, both orders */
    for (i = 0; i < N_HDRS; i++) {
        for (j = 0; j < N_HDRS; j++) {
            if (i != j) {
                hdrs[0] = i;
                hdrs[1] = j;
                snprintf(name, sizeof(name), "two_%s_%s",
                         hdr_tab[i].hdr, hdr_tab[j].hdr);
                client(name, (i + j) % 2 ? "-O0" : "-O2", hdrs, 2);
            }
        }
    }
    /* everything, forwards, backwards, and forwards then backwards */
    for (i = 0; i < N_HDRS; i++) {
        hdrs[i] = i;
        hdrs[2 * N_HDRS - 1 - i] = i;
    }
    client("all_fwd", "-O0 -g", hdrs, N_HDRS);
    client("all_fwd_rel", "-O2 -fPIC -DNDEBUG", hdrs, N_HDRS);
    client("all_rev", "-O0", hdrs + N_HDRS, N_HDRS);
    client("all_rev_rel", "-O2 -fPIC -DNDEBUG", hdrs + N_HDRS, N_HDRS);
    client("all_twice", "-O1", hdrs, 2 * N_HDRS);

    /* this file itself, under the project's flags, against both libraries */
    self("libcstl.so", "-O0");
    self("libcstl.a", "-O2 -DNDEBUG");
    self("libcstl.so", "-O2 -fPIC");

    snprintf(cmd, sizeof(cmd), "rm -rf '%s'", work);
    if (system(cmd) != 0) {
        fprintf(stderr, "warning: could not remove %s\n", work);
    }

    printf("C18: %u clients, %u commands, %d failure(s)\n",
           n_clients, n_cmds, failures);
    return failures != 0;
}

#endif
