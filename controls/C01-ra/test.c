/*
 * C01: ordered trees (cstl_bintree / cstl_rbtree) hold exactly the
 * inserted-minus-erased multiset, in order.
 *
 * Model based test that only uses the public API.  Every tree operation is
 * mirrored in a trivially correct model (a list of held element pointers and
 * a per-key counter).  Three families of histories are driven:
 *
 *   1. every operation sequence over a small alphabet up to a fixed length
 *      (insert / hinted insert / erase of each key, clear), full check of
 *      the final state of every sequence (hence of every prefix);
 *   2. every insertion order of up to 6 distinct keys followed by every
 *      erase order (all shapes of an unbalanced tree, every kind of victim:
 *      leaf, one child, two children with near / far successor, root);
 *   3. long seeded random histories over narrow (many duplicates) and wide
 *      key ranges.
 *
 * The same code runs on the plain binary tree and on the red-black tree.
 */

#include "cstl/bintree.h"
#include "cstl/rbtree.h"

#include <stdio.h>
#include <stdlib.h>
#include <string.h>
#include <stdint.h>
#include <limits.h>

#ifndef VARIANT
#define VARIANT "a"
#endif

#define FAIL(...)                                                       \
    do {                                                                \
        fprintf(stderr, "FAIL %s:%d: ", __FILE__, __LINE__);            \
        fprintf(stderr, __VA_ARGS__);                                   \
        fprintf(stderr, "\n");                                          \
        exit(1);                                                        \
    } while (0)

#define CHECK(c)                                                        \
    do {                                                                \
        if (!(c)) {                                                     \
            FAIL("check failed: %s [%s]", #c, g_ctx);                   \
        }                                                               \
    } while (0)

static char g_ctx[256] = "";

/* ------------------------------------------------------------------ */
/* a second, unrelated element type living in its own tree.  the       */
/* comparator and the visitors of the tree under test call into it.    */
/* ------------------------------------------------------------------ */

struct aux
{
    struct cstl_rbtree_node n;     /* node first */
    short k;
};

static int aux_cmp(const void * const a, const void * const b, void * const p)
{
    (void)p;
    return (int)((const struct aux *)a)->k - (int)((const struct aux *)b)->k;
}

static struct cstl_rbtree g_aux =
    CSTL_RBTREE_INITIALIZER(struct aux, n, aux_cmp, NULL);
static struct aux g_aux_el[16];
static unsigned long g_aux_hits;

static void aux_setup(void)
{
    unsigned int i;
    for (i = 0; i < 16; i++) {
        g_aux_el[i].k = (short)((i * 7) % 16);
        cstl_rbtree_insert(&g_aux, &g_aux_el[i], NULL);
    }
    if (cstl_rbtree_size(&g_aux) != 16) {
        FAIL("aux size");
    }
}

static void aux_poke(const int key)
{
    struct aux probe;
    const struct aux * f;

    probe.k = (short)(((unsigned int)key) & 15u);
    f = cstl_rbtree_find(&g_aux, &probe, NULL);
    if (f == NULL || f->k != probe.k) {
        FAIL("aux tree lost an element");
    }
    g_aux_hits++;
}

/* ------------------------------------------------------------------ */
/* element type of the trees under test                                */
/* ------------------------------------------------------------------ */

struct el
{
    int key;
    struct cstl_bintree_node bn;
    char pad[3];
    int id;
    struct cstl_rbtree_node rn;
    int held;           /* model: which tree (id) holds it, 0 if none */
    size_t slot;        /* model: index in held[] */
    /* scratch used by traversal checks */
    unsigned char pre, mid, post, leaf;
    long stamp;
};

static int g_cookie;
static unsigned long g_cmp_calls;
static int g_cmp_poke;

static int el_cmp(const void * const a, const void * const b, void * const p)
{
    const struct el * const ea = a, * const eb = b;

    if (p != &g_cookie) {
        FAIL("comparator got the wrong private pointer");
    }
    g_cmp_calls++;
    if (g_cmp_poke != 0) {
        /* use another container object from inside the callback */
        aux_poke(ea->key + eb->key);
    }
    /* only the sign may matter; use big magnitudes */
    if (ea->key < eb->key) {
        return -1 - (int)(g_cmp_calls & 1023u);
    } else if (ea->key > eb->key) {
        return 1 + (int)(g_cmp_calls & 1023u);
    }
    return 0;
}

enum kind { K_BIN, K_RB };

struct tree
{
    enum kind kind;
    int id;
    struct cstl_bintree bt;
    struct cstl_rbtree rt;

    /* model */
    struct el ** held;
    size_t nheld, cap;
    unsigned int * cnt;     /* per key (offset by kbias) */
    int kmin, kmax;
};

static int g_next_tree_id = 1;

static void tree_setup(struct tree * const t, const enum kind kind,
                       const int use_init_func,
                       const int kmin, const int kmax, const size_t cap)
{
    static const struct cstl_bintree bt_tmpl =
        CSTL_BINTREE_INITIALIZER(struct el, bn, el_cmp, &g_cookie);
    static const struct cstl_rbtree rt_tmpl =
        CSTL_RBTREE_INITIALIZER(struct el, rn, el_cmp, &g_cookie);

    memset(t, 0xa5, sizeof(*t));
    t->kind = kind;
    t->id = g_next_tree_id++;
    if (use_init_func != 0) {
        cstl_bintree_init(&t->bt, el_cmp, &g_cookie, offsetof(struct el, bn));
        cstl_rbtree_init(&t->rt, el_cmp, &g_cookie, offsetof(struct el, rn));
    } else {
        t->bt = bt_tmpl;
        t->rt = rt_tmpl;
    }
    t->cap = cap;
    t->held = malloc(cap * sizeof(*t->held));
    t->nheld = 0;
    t->kmin = kmin;
    t->kmax = kmax;
    t->cnt = calloc((size_t)(kmax - kmin + 1), sizeof(*t->cnt));
    if (t->held == NULL || t->cnt == NULL) {
        FAIL("out of memory");
    }
}

static void tree_teardown(struct tree * const t)
{
    free(t->held);
    free(t->cnt);
}

static size_t t_size(const struct tree * const t)
{
    return t->kind == K_BIN
        ? cstl_bintree_size(&t->bt) : cstl_rbtree_size(&t->rt);
}

static const struct el * t_find(const struct tree * const t,
                                const struct el * const probe,
                                const void ** const par)
{
    return t->kind == K_BIN
        ? cstl_bintree_find(&t->bt, probe, par)
        : cstl_rbtree_find(&t->rt, probe, par);
}

static void t_insert_raw(struct tree * const t,
                         struct el * const e, void * const hint)
{
    if (t->kind == K_BIN) {
        cstl_bintree_insert(&t->bt, e, hint);
    } else {
        cstl_rbtree_insert(&t->rt, e, hint);
    }
}

static struct el * t_erase_raw(struct tree * const t,
                               const struct el * const probe)
{
    return t->kind == K_BIN
        ? cstl_bintree_erase(&t->bt, probe)
        : cstl_rbtree_erase(&t->rt, probe);
}

static int t_foreach(const struct tree * const t,
                     cstl_bintree_const_visit_func_t * const v,
                     void * const p, const cstl_bintree_foreach_dir_t dir)
{
    return t->kind == K_BIN
        ? cstl_bintree_foreach(&t->bt, v, p, dir)
        : cstl_rbtree_foreach(&t->rt, v, p, dir);
}

static void t_height(const struct tree * const t,
                     size_t * const mn, size_t * const mx)
{
    if (t->kind == K_BIN) {
        cstl_bintree_height(&t->bt, mn, mx);
    } else {
        cstl_rbtree_height(&t->rt, mn, mx);
    }
}

/* ------------------------------------------------------------------ */
/* model bookkeeping                                                   */
/* ------------------------------------------------------------------ */

static void model_add(struct tree * const t, struct el * const e)
{
    CHECK(e->held == 0);
    CHECK(t->nheld < t->cap);
    CHECK(e->key >= t->kmin && e->key <= t->kmax);
    e->held = t->id;
    e->slot = t->nheld;
    t->held[t->nheld++] = e;
    t->cnt[e->key - t->kmin]++;
}

static void model_del(struct tree * const t, struct el * const e)
{
    CHECK(e->held == t->id);
    CHECK(e->slot < t->nheld && t->held[e->slot] == e);
    t->held[e->slot] = t->held[t->nheld - 1];
    t->held[e->slot]->slot = e->slot;
    t->nheld--;
    e->held = 0;
    CHECK(t->cnt[e->key - t->kmin] > 0);
    t->cnt[e->key - t->kmin]--;
}

static unsigned int model_cnt(const struct tree * const t, const int key)
{
    if (key < t->kmin || key > t->kmax) {
        return 0;
    }
    return t->cnt[key - t->kmin];
}

/* ------------------------------------------------------------------ */
/* operations, each checked against the model                          */
/* ------------------------------------------------------------------ */

static void op_insert(struct tree * const t, struct el * const e,
                      const int hinted)
{
    const size_t sz = t_size(t);
    void * hint = NULL;

    CHECK(sz == t->nheld);
    if (hinted != 0) {
        const void * par = (const void *)&g_cookie;
        const struct el * const f = t_find(t, e, &par);

        CHECK((f != NULL) == (model_cnt(t, e->key) > 0));
        CHECK(par != (const void *)&g_cookie);
        if (par != NULL) {
            CHECK(((const struct el *)par)->held == t->id);
        }
        if (sz == 0) {
            CHECK(par == NULL && f == NULL);
        }
        if (f == NULL && sz > 0) {
            /* where it would be located: below some held element */
            CHECK(par != NULL);
        }
        hint = (void *)par;
    }
    t_insert_raw(t, e, hint);
    model_add(t, e);
    CHECK(t_size(t) == sz + 1);
}

/* returns the erased element or NULL */
static struct el * op_erase(struct tree * const t, const int key)
{
    struct el probe;
    struct el * r;
    const size_t sz = t_size(t);

    memset(&probe, 0x5a, sizeof(probe));
    probe.key = key;
    probe.held = 0;

    r = t_erase_raw(t, &probe);
    if (model_cnt(t, key) == 0) {
        CHECK(r == NULL);
        CHECK(t_size(t) == sz);
    } else {
        CHECK(r != NULL);
        CHECK(r != &probe);
        CHECK(r->held == t->id);
        CHECK(r->key == key);
        model_del(t, r);
        CHECK(t_size(t) == sz - 1);
    }
    CHECK(t_size(t) == t->nheld);
    return r;
}

static void op_find(const struct tree * const t, const int key)
{
    struct el probe;
    const struct el * f, * f2;
    const void * par = (const void *)&g_cookie;

    memset(&probe, 0x5a, sizeof(probe));
    probe.key = key;
    probe.held = 0;

    f = t_find(t, &probe, &par);
    f2 = t_find(t, &probe, NULL);
    CHECK(f == f2);
    CHECK(par != (const void *)&g_cookie);
    if (model_cnt(t, key) == 0) {
        CHECK(f == NULL);
    } else {
        CHECK(f != NULL);
        CHECK(f != &probe);
        CHECK(f->key == key);
        CHECK(f->held == t->id);
    }
    if (par != NULL) {
        CHECK(((const struct el *)par)->held == t->id);
        CHECK(par != (const void *)f);
    }
    if (t->nheld == 0) {
        CHECK(par == NULL);
    } else if (f == NULL) {
        CHECK(par != NULL);
    }
}

struct clr_ctx
{
    struct tree * t;
    size_t calls;
    int do_free;
};

static void clr_cb(void * const obj, void * const priv)
{
    struct clr_ctx * const c = priv;
    struct el * const e = obj;

    CHECK(e->held == c->t->id);
    model_del(c->t, e);
    c->calls++;
    aux_poke(e->key);
    /* the callee owns the element now: scribble over it, maybe free it */
    memset(&e->bn, 0xee, sizeof(e->bn));
    memset(&e->rn, 0xee, sizeof(e->rn));
    if (c->do_free != 0) {
        free(e);
    }
}

static void op_clear(struct tree * const t, const int do_free)
{
    struct clr_ctx c;
    const size_t n = t->nheld;

    c.t = t;
    c.calls = 0;
    c.do_free = do_free;
    if (t->kind == K_BIN) {
        cstl_bintree_clear(&t->bt, clr_cb, &c);
    } else {
        cstl_rbtree_clear(&t->rt, clr_cb, &c);
    }
    CHECK(c.calls == n);
    CHECK(t->nheld == 0);
    CHECK(t_size(t) == 0);
}

/* ------------------------------------------------------------------ */
/* traversal checks                                                    */
/* ------------------------------------------------------------------ */

struct visit_rec
{
    const struct el * e;
    cstl_bintree_visit_order_t ord;
};

struct walk_ctx
{
    const struct tree * t;
    struct visit_rec * rec;
    size_t n, cap;
    size_t stop_at;     /* 1-based visit number to stop at, 0: never */
    int stop_val;
};

static int walk_cb(const void * const e,
                   const cstl_bintree_visit_order_t ord, void * const p)
{
    struct walk_ctx * const w = p;

    CHECK(w->n < w->cap);
    w->rec[w->n].e = e;
    w->rec[w->n].ord = ord;
    w->n++;
    if ((w->n & 7u) == 0) {
        aux_poke((int)w->n);
    }
    if (w->stop_at != 0 && w->n == w->stop_at) {
        return w->stop_val;
    }
    CHECK(w->stop_at == 0 || w->n < w->stop_at);
    return 0;
}

static struct visit_rec * g_rec[3];
static const struct el ** g_stack;
static const struct el ** g_inorder;
static size_t g_rec_cap;

static void rec_reserve(const size_t nel)
{
    const size_t need = 3 * nel + 8;
    if (need > g_rec_cap) {
        int i;
        for (i = 0; i < 3; i++) {
            g_rec[i] = realloc(g_rec[i], need * sizeof(*g_rec[i]));
            if (g_rec[i] == NULL) {
                FAIL("out of memory");
            }
        }
        g_stack = realloc((void *)g_stack, need * sizeof(*g_stack));
        g_inorder = realloc((void *)g_inorder, need * sizeof(*g_inorder));
        if (g_stack == NULL || g_inorder == NULL) {
            FAIL("out of memory");
        }
        g_rec_cap = need;
    }
}

static long g_stamp;

/*
 * run a complete traversal in direction dir into g_rec[which];
 * verify everything the property says about it.
 * the in-order sequence of elements is left in g_inorder (if keep != 0).
 * returns the number of visits.
 */
static size_t check_walk(const struct tree * const t,
                         const cstl_bintree_foreach_dir_t dir,
                         const int which, const int keep)
{
    struct walk_ctx w;
    size_t i, sp = 0, nin = 0;
    int res;
    const struct el * last = NULL;

    rec_reserve(t->nheld);
    w.t = t;
    w.rec = g_rec[which];
    w.n = 0;
    w.cap = g_rec_cap;
    w.stop_at = 0;
    w.stop_val = 0;

    res = t_foreach(t, walk_cb, &w, dir);
    CHECK(res == 0);

    g_stamp++;
    for (i = 0; i < w.n; i++) {
        struct el * const e = (struct el *)w.rec[i].e;

        CHECK(e != NULL);
        CHECK(e->held == t->id);
        if (e->stamp != g_stamp) {
            e->stamp = g_stamp;
            e->pre = e->mid = e->post = e->leaf = 0;
        }
        switch (w.rec[i].ord) {
        case CSTL_BINTREE_VISIT_ORDER_PRE:
            CHECK(e->pre == 0 && e->mid == 0 && e->post == 0 && e->leaf == 0);
            e->pre = 1;
            g_stack[sp++] = e;
            break;
        case CSTL_BINTREE_VISIT_ORDER_MID:
            CHECK(e->pre == 1 && e->mid == 0 && e->post == 0 && e->leaf == 0);
            e->mid = 1;
            CHECK(sp > 0 && g_stack[sp - 1] == e);
            break;
        case CSTL_BINTREE_VISIT_ORDER_POST:
            CHECK(e->pre == 1 && e->mid == 1 && e->post == 0 && e->leaf == 0);
            e->post = 1;
            CHECK(sp > 0 && g_stack[sp - 1] == e);
            sp--;
            break;
        case CSTL_BINTREE_VISIT_ORDER_LEAF:
            CHECK(e->pre == 0 && e->mid == 0 && e->post == 0 && e->leaf == 0);
            e->leaf = 1;
            break;
        default:
            FAIL("unknown visit order %d", (int)w.rec[i].ord);
        }
        if (w.rec[i].ord == CSTL_BINTREE_VISIT_ORDER_MID
            || w.rec[i].ord == CSTL_BINTREE_VISIT_ORDER_LEAF) {
            if (last != NULL) {
                if (dir == CSTL_BINTREE_FOREACH_DIR_FWD) {
                    CHECK(last->key <= e->key);
                } else {
                    CHECK(last->key >= e->key);
                }
            }
            last = e;
            if (keep != 0) {
                g_inorder[nin] = e;
            }
            nin++;
        }
    }
    CHECK(sp == 0);
    CHECK(nin == t->nheld);
    CHECK(nin == t_size(t));

    /* every held element exactly once, completely */
    for (i = 0; i < t->nheld; i++) {
        const struct el * const e = t->held[i];
        CHECK(e->stamp == g_stamp);
        CHECK((e->leaf == 1 && e->pre == 0 && e->mid == 0 && e->post == 0)
              || (e->leaf == 0 && e->pre == 1 && e->mid == 1 && e->post == 1));
    }
    /* a non-empty tree has at least one leaf, and with n > 1 a non-leaf */
    if (t->nheld > 0) {
        CHECK(w.n >= t->nheld && w.n <= 3 * t->nheld);
        CHECK((w.n - t->nheld) % 2 == 0);
        if (t->nheld > 1) {
            CHECK(w.n > t->nheld);
            CHECK(w.rec[0].ord == CSTL_BINTREE_VISIT_ORDER_PRE);
            CHECK(w.rec[w.n - 1].ord == CSTL_BINTREE_VISIT_ORDER_POST);
            CHECK(w.rec[0].e == w.rec[w.n - 1].e);
        } else {
            CHECK(w.n == 1 && w.rec[0].ord == CSTL_BINTREE_VISIT_ORDER_LEAF);
        }
    } else {
        CHECK(w.n == 0);
    }

    return w.n;
}

/* stop a traversal at its k-th visit; compare with the full one */
static void check_stop(const struct tree * const t,
                       const cstl_bintree_foreach_dir_t dir,
                       const int full, const size_t nfull, const size_t k)
{
    struct walk_ctx w;
    int res;
    size_t i;
    const int val = (k & 1u) ? (int)(1000 + k) : -(int)(1000 + k);

    w.t = t;
    w.rec = g_rec[2];
    w.n = 0;
    w.cap = g_rec_cap;
    w.stop_at = k;
    w.stop_val = val;

    res = t_foreach(t, walk_cb, &w, dir);
    CHECK(k >= 1 && k <= nfull);
    CHECK(res == val);
    CHECK(w.n == k);
    /* the visits made before stopping are the first k of the full walk */
    for (i = 0; i < k; i++) {
        CHECK(g_rec[2][i].e == g_rec[full][i].e);
        CHECK(g_rec[2][i].ord == g_rec[full][i].ord);
    }
}

static double log2_approx(size_t n)
{
    /* ceil(log2(n)) as a safe upper bound */
    double r = 0;
    size_t v = 1;
    while (v < n) {
        v <<= 1;
        r += 1;
    }
    return r;
}

/*
 * stop_mode: 0 none, 1 a few sampled positions, 2 every position
 */
static void full_check(const struct tree * const t, const int stop_mode)
{
    size_t nf, nr, i;
    size_t mn, mx;
    int k;

    CHECK(t_size(t) == t->nheld);

    /* membership for every key in (and just outside of) the range */
    if (t->kmax - t->kmin <= 64) {
        for (k = t->kmin - 1; k <= t->kmax + 1; k++) {
            op_find(t, k);
        }
    } else {
        op_find(t, t->kmin - 1);
        op_find(t, t->kmax + 1);
        for (i = 0; i < t->nheld && i < 64; i++) {
            op_find(t, t->held[i]->key);
            op_find(t, t->held[i]->key + 1);
        }
    }
    op_find(t, INT_MIN);
    op_find(t, INT_MAX);

    nf = check_walk(t, CSTL_BINTREE_FOREACH_DIR_FWD, 0, 1);
    nr = check_walk(t, CSTL_BINTREE_FOREACH_DIR_REV, 1, 0);
    CHECK(nf == nr);

    /* the multiset, key by key, from the forward in-order sequence */
    for (i = 0; i < t->nheld; ) {
        const int key = g_inorder[i]->key;
        size_t j = i;
        while (j < t->nheld && g_inorder[j]->key == key) {
            j++;
        }
        CHECK(j - i == model_cnt(t, key));
        i = j;
    }

    if (stop_mode == 2) {
        for (i = 1; i <= nf; i++) {
            check_stop(t, CSTL_BINTREE_FOREACH_DIR_FWD, 0, nf, i);
            check_stop(t, CSTL_BINTREE_FOREACH_DIR_REV, 1, nr, i);
        }
    } else if (stop_mode == 1 && nf > 0) {
        check_stop(t, CSTL_BINTREE_FOREACH_DIR_FWD, 0, nf, 1);
        check_stop(t, CSTL_BINTREE_FOREACH_DIR_REV, 1, nr, nr);
        check_stop(t, CSTL_BINTREE_FOREACH_DIR_FWD, 0, nf, (nf + 1) / 2);
        check_stop(t, CSTL_BINTREE_FOREACH_DIR_REV, 1, nr, (nr + 2) / 3);
    }

    t_height(t, &mn, &mx);
    if (t->nheld == 0) {
        CHECK(mn == 0 && mx == 0);
    } else {
        CHECK(mn >= 1 && mn <= mx && mx <= t->nheld);
        if (t->kind == K_RB) {
            CHECK((double)mx <= 2.0 * log2_approx(t->nheld + 1));
            CHECK(mx <= 2 * mn);
        }
    }
}

/* ------------------------------------------------------------------ */
/* 1. exhaustive operation sequences                                   */
/* ------------------------------------------------------------------ */

#define EX_MAXLEN 8

struct ex_cfg
{
    enum kind kind;
    int nkeys;
    int maxlen;
    int with_clear;
};

static unsigned long g_ex_count;

/* op encoding: 0..nkeys-1 insert, nkeys..2n-1 hinted insert,
 * 2n..3n-1 erase, 3n clear */
static void ex_replay(const struct ex_cfg * const cfg,
                      const int * const ops, const int len)
{
    struct tree t;
    struct el pool[EX_MAXLEN];
    int i;
    const int n = cfg->nkeys;

    tree_setup(&t, cfg->kind, len & 1, 0, n - 1, EX_MAXLEN);
    memset(pool, 0, sizeof(pool));

    for (i = 0; i < len; i++) {
        const int op = ops[i];
        if (op < 2 * n) {
            pool[i].key = op % n;
            pool[i].id = i;
            pool[i].held = 0;
            op_insert(&t, &pool[i], op >= n);
        } else if (op < 3 * n) {
            (void)op_erase(&t, op - 2 * n);
        } else {
            op_clear(&t, 0);
        }
    }

    full_check(&t, len < cfg->maxlen ? 2 : 1);
    g_ex_count++;

    /* alternate the way the tree is emptied */
    if ((g_ex_count & 1u) != 0) {
        op_clear(&t, 0);
    } else {
        while (t.nheld > 0) {
            struct el * const r = op_erase(&t, t.held[t.nheld / 2]->key);
            CHECK(r != NULL);
        }
    }
    full_check(&t, 0);
    tree_teardown(&t);
}

static void ex_dfs(const struct ex_cfg * const cfg, int * const ops,
                   const int len)
{
    int op;
    const int nops = 3 * cfg->nkeys + (cfg->with_clear ? 1 : 0);

    ex_replay(cfg, ops, len);
    if (len == cfg->maxlen) {
        return;
    }
    for (op = 0; op < nops; op++) {
        ops[len] = op;
        ex_dfs(cfg, ops, len + 1);
    }
}

static void exhaustive(void)
{
    static const struct ex_cfg cfgs[] = {
        { K_BIN, 3, 6, 1 },
        { K_RB,  3, 6, 1 },
        { K_BIN, 4, 5, 0 },
        { K_RB,  4, 5, 0 },
        { K_BIN, 2, 8, 0 },
        { K_RB,  2, 8, 0 },
        { K_BIN, 1, 8, 1 },
        { K_RB,  1, 8, 1 },
    };
    size_t i;

    for (i = 0; i < sizeof(cfgs) / sizeof(cfgs[0]); i++) {
        int ops[EX_MAXLEN];
        const unsigned long before = g_ex_count;

        snprintf(g_ctx, sizeof(g_ctx), "exhaustive cfg %u", (unsigned)i);
        g_cmp_poke = (int)(i & 1u);
        ex_dfs(&cfgs[i], ops, 0);
        printf("  exhaustive: %s keys=%d len<=%d: %lu sequences\n",
               cfgs[i].kind == K_BIN ? "bintree" : "rbtree ",
               cfgs[i].nkeys, cfgs[i].maxlen, g_ex_count - before);
    }
    g_cmp_poke = 0;
}

/* ------------------------------------------------------------------ */
/* 2. every insertion order x every erase order                        */
/* ------------------------------------------------------------------ */

static int next_perm(int * const a, const int n)
{
    int i = n - 2, j = n - 1, l, r;

    while (i >= 0 && a[i] >= a[i + 1]) {
        i--;
    }
    if (i < 0) {
        return 0;
    }
    while (a[j] <= a[i]) {
        j--;
    }
    l = a[i]; a[i] = a[j]; a[j] = l;
    for (l = i + 1, r = n - 1; l < r; l++, r--) {
        const int x = a[l];
        a[l] = a[r];
        a[r] = x;
    }
    return 1;
}

static void light_check(const struct tree * const t)
{
    CHECK(t_size(t) == t->nheld);
    (void)check_walk(t, CSTL_BINTREE_FOREACH_DIR_FWD, 0, 0);
}

static void perms(const enum kind kind, const int n, const int dup)
{
    int ins[8], ers[8];
    int i;
    unsigned long count = 0;

    for (i = 0; i < n; i++) {
        ins[i] = i;
    }
    do {
        for (i = 0; i < n; i++) {
            ers[i] = i;
        }
        do {
            struct tree t;
            struct el pool[8];

            tree_setup(&t, kind, (int)(count & 1u), 0, n, 8);
            memset(pool, 0, sizeof(pool));
            for (i = 0; i < n; i++) {
                /* with dup, keys are halved: pairs of equal keys */
                pool[i].key = dup ? ins[i] / 2 : ins[i];
                pool[i].id = i;
                op_insert(&t, &pool[i], (int)((count >> 1) & 1u));
            }
            if ((count % 720u) == 0) {
                full_check(&t, 1);
            }
            for (i = 0; i < n; i++) {
                const int key = dup ? ers[i] / 2 : ers[i];
                struct el * const r = op_erase(&t, key);
                CHECK(r != NULL && r->key == key);
                light_check(&t);
                if (!dup) {
                    /* distinct keys: it is exactly that element */
                    CHECK(r->key == ers[i]);
                    op_find(&t, key);
                }
            }
            CHECK(t.nheld == 0);
            full_check(&t, 0);
            tree_teardown(&t);
            count++;
        } while (next_perm(ers, n));
    } while (next_perm(ins, n));

    printf("  perms: %s n=%d dup=%d: %lu histories\n",
           kind == K_BIN ? "bintree" : "rbtree ", n, dup, count);
}

static void all_perms(void)
{
    int n;

    for (n = 1; n <= 6; n++) {
        snprintf(g_ctx, sizeof(g_ctx), "perms n=%d", n);
        perms(K_BIN, n, 0);
        perms(K_RB, n, 0);
    }
    snprintf(g_ctx, sizeof(g_ctx), "perms dup");
    perms(K_BIN, 6, 1);
    perms(K_RB, 6, 1);
}

/* ------------------------------------------------------------------ */
/* 3. long seeded random histories                                     */
/* ------------------------------------------------------------------ */

static uint64_t g_rng;

static uint32_t rnd(void)
{
    /* xorshift64* */
    g_rng ^= g_rng >> 12;
    g_rng ^= g_rng << 25;
    g_rng ^= g_rng >> 27;
    return (uint32_t)((g_rng * UINT64_C(2685821657736338717)) >> 32);
}

static struct el * new_el(const int key, const int id)
{
    struct el * const e = malloc(sizeof(*e));
    if (e == NULL) {
        FAIL("out of memory");
    }
    memset(e, 0x77, sizeof(*e));
    e->key = key;
    e->id = id;
    e->held = 0;
    e->stamp = 0;
    return e;
}

static void random_history(const enum kind kind, const uint64_t seed,
                           const int krange, const size_t maxpop,
                           const unsigned long nops,
                           const unsigned long full_every)
{
    struct tree t;
    unsigned long i;
    int id = 0;
    /* phases bias toward growth, then churn, then shrink */
    unsigned int grow = 70;

    g_rng = seed * UINT64_C(0x9e3779b97f4a7c15) + 1;
    tree_setup(&t, kind, (int)(seed & 1u), 0, krange - 1, maxpop + 1);
    snprintf(g_ctx, sizeof(g_ctx), "random %s seed=%lu range=%d",
             kind == K_BIN ? "bintree" : "rbtree",
             (unsigned long)seed, krange);

    for (i = 0; i < nops; i++) {
        const unsigned int r = rnd() % 100;
        const int key = (int)(rnd() % (uint32_t)krange);

        if (i == nops / 3) {
            grow = 50;
        } else if (i == 2 * (nops / 3)) {
            grow = 35;
        }

        if (r < grow && t.nheld < maxpop) {
            op_insert(&t, new_el(key, id++), (int)(rnd() & 1u));
        } else if (r < 92) {
            struct el * e;
            int k = key;
            if (t.nheld > 0 && (rnd() & 1u) != 0) {
                /* aim at something that is held */
                k = t.held[rnd() % t.nheld]->key;
            }
            e = op_erase(&t, k);
            if (e != NULL) {
                free(e);
            }
        } else if (r < 99) {
            op_find(&t, key);
        } else if ((rnd() % 64) == 0) {
            op_clear(&t, 1);
            full_check(&t, 0);
        }

        if (full_every != 0 && (i % full_every) == 0) {
            full_check(&t, 1);
        }
    }

    full_check(&t, 1);

    /* drain: half by erasing in random order, then clear the rest */
    while (t.nheld > maxpop / 4 && t.nheld > 0) {
        struct el * const e =
            op_erase(&t, t.held[rnd() % t.nheld]->key);
        CHECK(e != NULL);
        free(e);
        if ((t.nheld % 257) == 0) {
            full_check(&t, 1);
        }
    }
    full_check(&t, 1);
    op_clear(&t, 1);
    full_check(&t, 0);

    /* the cleared tree is as good as new */
    op_insert(&t, new_el(0, id++), 0);
    op_insert(&t, new_el(krange - 1, id++), 1);
    op_insert(&t, new_el(0, id++), 1);
    full_check(&t, 2);
    op_clear(&t, 1);
    tree_teardown(&t);
}

static void random_histories(void)
{
    uint64_t seed;

    for (seed = 1; seed <= 6; seed++) {
        g_cmp_poke = (int)(seed & 1u);
        /* everything equal */
        random_history(K_BIN, seed, 1, 300, 6000, 500);
        random_history(K_RB, seed, 1, 300, 6000, 500);
        /* many duplicates */
        random_history(K_BIN, seed, 4, 400, 30000, 1500);
        random_history(K_RB, seed, 4, 400, 30000, 1500);
        /* some duplicates */
        random_history(K_BIN, seed, 64, 600, 40000, 2000);
        random_history(K_RB, seed, 64, 600, 40000, 2000);
        /* mostly distinct */
        random_history(K_BIN, seed, 100000, 3000, 60000, 6000);
        random_history(K_RB, seed, 100000, 3000, 60000, 6000);
    }
    g_cmp_poke = 0;
    printf("  random histories done\n");
}

/* ------------------------------------------------------------------ */
/* 4. monotone insertions (degenerate plain tree, rotating rb tree)    */
/* ------------------------------------------------------------------ */

static void monotone(const enum kind kind, const int n, const int dir)
{
    struct tree t;
    int i;

    snprintf(g_ctx, sizeof(g_ctx), "monotone kind=%d n=%d dir=%d",
             (int)kind, n, dir);
    tree_setup(&t, kind, 1, 0, n - 1, (size_t)n);
    for (i = 0; i < n; i++) {
        const int key = dir > 0 ? i : (dir < 0 ? n - 1 - i : n / 2);
        op_insert(&t, new_el(key, i), i & 1);
    }
    full_check(&t, 1);
    /* erase from the root end / the far end / the middle */
    for (i = 0; t.nheld > 0; i++) {
        int key;
        struct el * e;
        const struct el * lo = t.held[0], * hi = t.held[0];
        size_t j;

        for (j = 1; j < t.nheld; j++) {
            if (t.held[j]->key < lo->key) {
                lo = t.held[j];
            }
            if (t.held[j]->key > hi->key) {
                hi = t.held[j];
            }
        }
        switch (i % 3) {
        case 0: key = lo->key; break;
        case 1: key = hi->key; break;
        default: key = t.held[t.nheld / 2]->key; break;
        }
        e = op_erase(&t, key);
        CHECK(e != NULL);
        free(e);
        if ((i % 16) == 0) {
            full_check(&t, 1);
        }
    }
    full_check(&t, 0);
    tree_teardown(&t);
}

/* two trees of the same kind sharing nothing but the element type:
 * an element moves from one to the other and back */
static void two_trees(const enum kind kind)
{
    struct tree a, b;
    int i;

    snprintf(g_ctx, sizeof(g_ctx), "two trees kind=%d", (int)kind);
    tree_setup(&a, kind, 0, 0, 31, 64);
    tree_setup(&b, kind, 1, 0, 31, 64);
    for (i = 0; i < 48; i++) {
        op_insert(&a, new_el((i * 11) % 32, i), i & 1);
    }
    full_check(&a, 1);
    full_check(&b, 1);
    for (i = 0; i < 200; i++) {
        struct tree * const from = (i & 1) ? &b : &a;
        struct tree * const to = (i & 1) ? &a : &b;
        struct el * const e = op_erase(from, (i * 5) % 32);
        if (e != NULL) {
            op_insert(to, e, (i >> 1) & 1);
        }
        if ((i % 20) == 0) {
            full_check(&a, 1);
            full_check(&b, 1);
        }
    }
    full_check(&a, 2);
    full_check(&b, 2);
    CHECK(a.nheld + b.nheld == 48);
    op_clear(&a, 1);
    op_clear(&b, 1);
    tree_teardown(&a);
    tree_teardown(&b);
}

int main(void)
{
    int n;

    printf("C01 keep test, variant %s\n", VARIANT);
    aux_setup();

    exhaustive();
    all_perms();

    for (n = 1; n <= 40; n++) {
        monotone(K_BIN, n, 1);
        monotone(K_BIN, n, -1);
        monotone(K_BIN, n, 0);
        monotone(K_RB, n, 1);
        monotone(K_RB, n, -1);
        monotone(K_RB, n, 0);
    }
    monotone(K_BIN, 700, 1);
    monotone(K_BIN, 700, -1);
    monotone(K_RB, 5000, 1);
    monotone(K_RB, 5000, -1);
    monotone(K_RB, 2000, 0);
    printf("  monotone done\n");

    two_trees(K_BIN);
    two_trees(K_RB);

    random_histories();

    if (cstl_rbtree_size(&g_aux) != 16 || g_aux_hits == 0) {
        FAIL("aux tree disturbed");
    }
    printf("OK (%lu comparator calls, %lu aux lookups)\n",
           g_cmp_calls, g_aux_hits);
    return 0;
}
