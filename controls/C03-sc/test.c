/*
 * C03: hash lookups stay exact while the table is incrementally rehashed.
 *
 * Standalone test; public API only (cstl/hash.h). The library's calls to
 * the allocator are intercepted with the linker's --wrap so that allocation
 * failures can be injected; nothing else of the library is looked at.
 *
 * Parts:
 *   1. exhaustive: every sequence of up to DEPTH operations over a small
 *      alphabet (insert with two keys, erase of a member / a non-member,
 *      finds, resizes (grow, shrink, other hash function, on top of a
 *      pending one), rehash, shrink-to-fit, swap), model-checked after
 *      every single operation
 *   2. long seeded random histories over two tables, duplicated keys,
 *      boundary keys, many bucket counts, five hash functions, injected
 *      allocation failures, statically and dynamically initialised tables
 *   3. two tables of different element types/offsets, one object living
 *      in two tables at once through two different nodes
 */

#include "cstl/hash.h"

#include <stdio.h>
#include <stdlib.h>
#include <string.h>
#include <stdint.h>

/* ------------------------------------------------------------------ */
/* allocation failure injection                                        */

void * __real_malloc(size_t);
void * __real_calloc(size_t, size_t);
void * __real_realloc(void *, size_t);

static int alloc_fail;          /* while set, every allocation fails */
static unsigned long alloc_calls, alloc_refused;

void * __wrap_malloc(size_t n)
{
    alloc_calls++;
    if (alloc_fail) {
        alloc_refused++;
        return NULL;
    }
    return __real_malloc(n);
}

void * __wrap_calloc(size_t n, size_t m)
{
    alloc_calls++;
    if (alloc_fail) {
        alloc_refused++;
        return NULL;
    }
    return __real_calloc(n, m);
}

void * __wrap_realloc(void * p, size_t n)
{
    alloc_calls++;
    if (alloc_fail) {
        alloc_refused++;
        return NULL;
    }
    return __real_realloc(p, n);
}

/* ------------------------------------------------------------------ */

static const char * phase = "";
static unsigned long step;

#define FAIL(...)                                                       \
    do {                                                                \
        fprintf(stderr, "FAIL [%s step %lu] %s:%d: ",                   \
                phase, step, __FILE__, __LINE__);                       \
        fprintf(stderr, __VA_ARGS__);                                   \
        fprintf(stderr, "\n");                                          \
        exit(1);                                                        \
    } while (0)

#define CHECK(C)  do { if (!(C)) FAIL("check failed: %s", #C); } while (0)

/* small deterministic generator */
static uint64_t rng_s;
static uint32_t rnd(void)
{
    rng_s = rng_s * 6364136223846793005ull + 1442695040888963407ull;
    return (uint32_t)(rng_s >> 33);
}
static unsigned int rndn(const unsigned int n)
{
    return rnd() % n;
}

/* ------------------------------------------------------------------ */
/* hash functions; all of them return a value in [0, m)                */

static unsigned long hcalls;

static size_t h_zero(const size_t k, const size_t m)
{
    (void)k; (void)m;
    hcalls++;
    return 0;
}

static size_t h_last(const size_t k, const size_t m)
{
    (void)k;
    hcalls++;
    return m - 1;
}

static size_t h_rev(const size_t k, const size_t m)
{
    hcalls++;
    return m - 1 - (k % m);
}

static size_t h_mix(const size_t k, const size_t m)
{
    size_t x = k;
    hcalls++;
    x ^= x >> 15;
    x *= (size_t)2654435761u;
    x ^= x >> 13;
    return x % m;
}

#define NHASH 6
static cstl_hash_func_t * const hfun[NHASH] = {
    cstl_hash_div, cstl_hash_mul, h_zero, h_last, h_rev, h_mix
};

/* ------------------------------------------------------------------ */

#define NITEM 40
#define NTAB  2

struct item
{
    int id;
    char pad[3];
    struct cstl_hash_node hn;
    int tab;                    /* model: table it lives in, or -1 */
    size_t key;                 /* model: key it was inserted with */
    int seen;                   /* scratch for the visit functions */
    int ever;                   /* was inserted at least once */
};

static struct item items[NITEM];

static struct cstl_hash T0 = CSTL_HASH_INITIALIZER(struct item, hn);
static struct cstl_hash T1;
static struct cstl_hash * const T[NTAB] = { &T0, &T1 };

/* model of each table */
static size_t m_size[NTAB];
static size_t m_cnt[NTAB];      /* bucket count the table is heading for */
static int m_cnt_known[NTAB];
static int m_ready[NTAB];

static const size_t keyset[] = {
    0, 1, 2, 3, 5, 7, 8, 15, 16, 17, 31, 32, 33, 64, 100, 255, 256, 1000,
    65535, 65536, 1u << 20, 0x7fffffffu, 0x80000000u, 0xffffffffu,
    (size_t)-1, (size_t)-2, ((size_t)-1) / 2, ((size_t)-1) / 2 + 1
};
#define NKEYSET (sizeof(keyset) / sizeof(keyset[0]))

/* ------------------------------------------------------------------ */
/* visit functions                                                     */

struct fctx
{
    int t;                      /* table being searched */
    size_t k;                   /* key being sought */
    int want;                   /* id to accept, or -1 to accept none */
    int accept_nth;             /* accept the nth offer (1-based), or 0 */
    int offers;
};

/*
 * a table that belongs to the visit functions: callbacks are free to
 * use other containers while the library is in the middle of a find
 */
struct aux
{
    struct cstl_hash_node n;
    size_t k;
    int in;
};

#define NAUX 8
static struct aux auxs[NAUX];
static struct cstl_hash X = CSTL_HASH_INITIALIZER(struct aux, n);
static size_t x_size;
static unsigned int x_tick;

static int aux_visit(const void * const e, void * const p)
{
    return e == p;
}

static void aux_work(void)
{
    struct aux * const a = &auxs[x_tick % NAUX];
    int i;

    if (x_tick % 5 == 0) {
        cstl_hash_resize(&X, 1 + (x_tick / 5) % 11,
                         (x_tick % 2) ? cstl_hash_div : h_mix);
    }
    if (a->in) {
        cstl_hash_erase(&X, a);
        a->in = 0; x_size--;
    } else {
        a->k = x_tick % 3;
        cstl_hash_insert(&X, a->k, a);
        a->in = 1; x_size++;
    }
    x_tick++;

    if (cstl_hash_size(&X) != x_size) {
        FAIL("aux table size %zu, expected %zu", cstl_hash_size(&X), x_size);
    }
    for (i = 0; i < NAUX; i++) {
        const struct aux * const q = &auxs[i];
        if ((cstl_hash_find(&X, q->k, aux_visit, (void *)q) == q)
            != (q->in != 0)) {
            FAIL("aux element %d: in=%d", i, q->in);
        }
    }
}

static int find_visit(const void * const e, void * const p)
{
    const struct item * const ci = e;
    struct fctx * const c = p;
    struct item * it;

    if (ci < items || ci >= items + NITEM) {
        FAIL("find offered a pointer that is not an element");
    }
    it = &items[ci - items];
    if (it != ci) {
        FAIL("find offered a misaligned element pointer");
    }
    if (it->tab != c->t) {
        FAIL("find offered element %d which is not in table %d (tab %d)",
             it->id, c->t, it->tab);
    }
    if (it->key != c->k) {
        FAIL("find for key %zu offered element %d with key %zu",
             c->k, it->id, it->key);
    }
    if (it->seen != 0) {
        FAIL("find offered element %d twice", it->id);
    }
    it->seen = 1;
    c->offers++;

    aux_work();

    if (c->want >= 0 && it->id == c->want) {
        return 1;
    }
    if (c->accept_nth > 0 && c->offers == c->accept_nth) {
        return 7;
    }
    return 0;
}

static void clear_seen(void)
{
    int i;
    for (i = 0; i < NITEM; i++) {
        items[i].seen = 0;
    }
}

static size_t model_matches(const int t, const size_t k)
{
    size_t n = 0;
    int i;
    for (i = 0; i < NITEM; i++) {
        if (items[i].tab == t && items[i].key == k) {
            n++;
        }
    }
    return n;
}

/* find with a visit function that accepts nothing: all must be offered */
static void find_reject_all(const int t, const size_t k)
{
    struct fctx c;
    void * r;
    int i;

    c.t = t; c.k = k; c.want = -1; c.accept_nth = 0; c.offers = 0;
    clear_seen();
    r = cstl_hash_find(T[t], k, find_visit, &c);
    if (r != NULL) {
        FAIL("find returned %p though the visit function accepted nothing", r);
    }
    for (i = 0; i < NITEM; i++) {
        const int should = (items[i].tab == t && items[i].key == k);
        if (should != items[i].seen) {
            FAIL("reject-all find of key %zu in table %d: element %d "
                 "offered=%d expected=%d", k, t, i, items[i].seen, should);
        }
    }
}

/* find without visit function: any live element with that key, or NULL */
static void find_any(const int t, const size_t k)
{
    struct item * const r = cstl_hash_find(T[t], k, NULL, NULL);
    const size_t n = model_matches(t, k);

    if (n == 0) {
        if (r != NULL) {
            FAIL("find(NULL visit) of absent key %zu returned %p",
                 k, (void *)r);
        }
    } else {
        if (r == NULL) {
            FAIL("find(NULL visit) of key %zu missed %zu live elements", k, n);
        }
        if (r < items || r >= items + NITEM || r != &items[r - items]) {
            FAIL("find(NULL visit) returned a non-element pointer");
        }
        if (r->tab != t || r->key != k) {
            FAIL("find(NULL visit) of key %zu in table %d returned element "
                 "%d (tab %d key %zu)", k, t, r->id, r->tab, r->key);
        }
    }
}

/* find a particular element among equals */
static void find_exact(const int t, struct item * const it)
{
    struct fctx c;
    void * r;

    c.t = t; c.k = it->key; c.want = it->id; c.accept_nth = 0; c.offers = 0;
    clear_seen();
    r = cstl_hash_find(T[t], it->key, find_visit, &c);
    if (it->tab == t) {
        if (r != it) {
            FAIL("live element %d (key %zu) not found in table %d, got %p",
                 it->id, it->key, t, r);
        }
    } else {
        if (r != NULL) {
            FAIL("element %d is not in table %d but find returned %p",
                 it->id, t, r);
        }
        if (c.offers != (int)model_matches(t, it->key)) {
            FAIL("unsuccessful find offered %d of %zu", c.offers,
                 model_matches(t, it->key));
        }
    }
}

/* accept the nth offer: the returned element is the one accepted */
static void find_nth(const int t, const size_t k, const int nth)
{
    struct fctx c;
    struct item * r;
    const size_t n = model_matches(t, k);
    int i, seen = 0;

    c.t = t; c.k = k; c.want = -1; c.accept_nth = nth; c.offers = 0;
    clear_seen();
    r = cstl_hash_find(T[t], k, find_visit, &c);
    for (i = 0; i < NITEM; i++) {
        seen += items[i].seen;
    }
    if ((size_t)nth <= n) {
        if (r == NULL || c.offers != nth || seen != nth) {
            FAIL("accept-nth(%d) find: r=%p offers=%d", nth, (void *)r,
                 c.offers);
        }
        if (r->tab != t || r->key != k || r->seen != 1) {
            FAIL("accept-nth find returned the wrong element");
        }
    } else {
        if (r != NULL || (size_t)c.offers != n) {
            FAIL("accept-nth(%d) find with only %zu matches: r=%p offers=%d",
                 nth, n, (void *)r, c.offers);
        }
    }
}

/* ------------------------------------------------------------------ */
/* non-mutating whole-table check                                      */

struct wctx
{
    int t;
    size_t n;
};

static int walk_visit(const void * const e, void * const p)
{
    const struct item * const ci = e;
    struct wctx * const w = p;
    struct item * it;

    if (ci < items || ci >= items + NITEM) {
        FAIL("foreach visited a non-element");
    }
    it = &items[ci - items];
    if (it->tab != w->t) {
        FAIL("foreach: table %d holds element %d which the model has in %d",
             w->t, it->id, it->tab);
    }
    if (it->seen) {
        FAIL("foreach: element %d visited twice", it->id);
    }
    it->seen = 1;
    w->n++;
    return 0;
}

static int walk_visit_nc(void * const e, void * const p)
{
    return walk_visit(e, p);
}

static void check_light(const int t)
{
    struct wctx w;

    if (cstl_hash_size(T[t]) != m_size[t]) {
        FAIL("table %d size %zu, model %zu", t, cstl_hash_size(T[t]),
             m_size[t]);
    }
    if (!m_ready[t]) {
        return;
    }
    if (m_cnt_known[t]) {
        const float l = cstl_hash_load(T[t]);
        const float x = (float)m_size[t] / m_cnt[t];
        if (l != x) {
            FAIL("table %d load %f, expected %zu/%zu", t, l, m_size[t],
                 m_cnt[t]);
        }
    }

    w.t = t; w.n = 0;
    clear_seen();
    if (cstl_hash_foreach_const(T[t], walk_visit, &w) != 0) {
        FAIL("foreach_const returned non-zero");
    }
    if (w.n != m_size[t]) {
        FAIL("table %d: foreach_const saw %zu elements, model %zu",
             t, w.n, m_size[t]);
    }
}

/* every element, live or not, is looked up; this advances a pending rehash */
static void check_full(const int t)
{
    int i;

    check_light(t);
    if (!m_ready[t]) {
        return;
    }
    for (i = 0; i < NITEM; i++) {
        if (items[i].ever) {
            find_exact(t, &items[i]);
        }
    }
    check_light(t);
}

/* ------------------------------------------------------------------ */
/* operations, each updating the model                                 */

static void op_resize(const int t, const size_t n,
                      cstl_hash_func_t * const f, const int fail)
{
    const size_t before = cstl_hash_size(T[t]);

    if (fail && m_ready[t]) {
        alloc_fail = 1;
        cstl_hash_resize(T[t], n, f);
        alloc_fail = 0;
        /* either it happened or it did not; size tells nothing */
        if (n > 0 && m_cnt_known[t] && m_cnt[t] != n) {
            if (m_size[t] > 0) {
                const float l = cstl_hash_load(T[t]);
                const float a = (float)m_size[t] / m_cnt[t];
                const float b = (float)m_size[t] / n;
                if (l == b && a != b) {
                    m_cnt[t] = n;
                } else if (l == a && a != b) {
                    /* unchanged */
                } else if (a == b) {
                    m_cnt_known[t] = 0;
                } else {
                    FAIL("load %f after a failed resize is neither %f nor %f",
                         l, a, b);
                }
            } else {
                m_cnt_known[t] = 0;
            }
        } else if (n > 0 && !m_cnt_known[t]) {
            /* still unknown */
        }
    } else {
        cstl_hash_resize(T[t], n, f);
        if (n > 0) {
            m_cnt[t] = n;
            m_cnt_known[t] = 1;
            m_ready[t] = 1;
        }
    }
    CHECK(cstl_hash_size(T[t]) == before);
}

static void op_insert(const int t, struct item * const it, const size_t k)
{
    CHECK(it->tab == -1);
    cstl_hash_insert(T[t], k, it);
    it->tab = t;
    it->key = k;
    it->ever = 1;
    m_size[t]++;
}

static unsigned int scribble_s = 12345;

static void op_erase(const int t, struct item * const it)
{
    /* it->ever guarantees that the node's key member was written once */
    CHECK(it->ever);
    cstl_hash_erase(T[t], it);
    if (it->tab == t) {
        it->tab = -1;
        m_size[t]--;

        /*
         * the object is the caller's again, and the caller reuses the
         * memory: the node is overwritten with rubbish, or made to look
         * like (and point at) an object that is still in a table
         */
        if (scribble_s & 1) {
            memset(&it->hn, (int)(scribble_s >> 8), sizeof(it->hn));
        } else {
            const struct item * const o = &items[(scribble_s >> 4) % NITEM];
            if (o->tab >= 0) {
                memcpy(&it->hn, &o->hn, sizeof(it->hn));
            } else {
                memset(&it->hn, 0, sizeof(it->hn));
            }
        }
        scribble_s = scribble_s * 1103515245u + 12345u;
    }
}

static void op_swap(void)
{
    int i;
    size_t s;
    int b;

    cstl_hash_swap(T[0], T[1]);
    for (i = 0; i < NITEM; i++) {
        if (items[i].tab >= 0) {
            items[i].tab = !items[i].tab;
        }
    }
    s = m_size[0]; m_size[0] = m_size[1]; m_size[1] = s;
    s = m_cnt[0]; m_cnt[0] = m_cnt[1]; m_cnt[1] = s;
    b = m_cnt_known[0]; m_cnt_known[0] = m_cnt_known[1]; m_cnt_known[1] = b;
    b = m_ready[0]; m_ready[0] = m_ready[1]; m_ready[1] = b;
}

static unsigned long cleared;
static void clear_cb(void * const e, void * const p)
{
    struct item * const it = e;
    (void)p;
    if (it < items || it >= items + NITEM || it->tab < 0) {
        FAIL("clear called for something that is not a live element");
    }
    it->tab = -1;
    cleared++;
}

static void op_clear(const int t)
{
    const unsigned long c0 = cleared;
    const size_t n = m_size[t];
    int i;

    cstl_hash_clear(T[t], clear_cb);
    if (cleared - c0 != n) {
        FAIL("clear destroyed %lu elements, model had %zu", cleared - c0, n);
    }
    for (i = 0; i < NITEM; i++) {
        if (items[i].tab == t) {
            FAIL("clear skipped element %d", i);
        }
    }
    m_size[t] = 0;
    m_ready[t] = 0;
    m_cnt_known[t] = 0;
    CHECK(cstl_hash_size(T[t]) == 0);
}

static void reset_all(void)
{
    int i, t;

    for (t = 0; t < NTAB; t++) {
        if (m_ready[t] || m_size[t] > 0) {
            op_clear(t);
        } else {
            cstl_hash_clear(T[t], NULL);
        }
    }
    /*
     * T0 came from the static initialiser and, being cleared, is as it
     * was after initialisation; T1 is set up at run time
     */
    cstl_hash_init(T[1], offsetof(struct item, hn));
    for (i = 0; i < NITEM; i++) {
        items[i].id = i;
        items[i].tab = -1;
        items[i].ever = 0;
        items[i].seen = 0;
    }
}

/* ------------------------------------------------------------------ */
/* part 1: exhaustive small scope                                      */

#define DEPTH 5
#define NOPS  16

static const size_t KA = 3, KB = 6;    /* collide under div with 3 buckets */

static int next_free(void)
{
    int i;
    for (i = 0; i < NITEM; i++) {
        if (items[i].tab == -1 && !items[i].ever) {
            return i;
        }
    }
    FAIL("out of items");
    return -1;
}

static struct item * oldest_live(const int t)
{
    int i;
    for (i = 0; i < NITEM; i++) {
        if (items[i].tab == t) {
            return &items[i];
        }
    }
    return NULL;
}

static struct item * newest_live(const int t)
{
    int i;
    for (i = NITEM - 1; i >= 0; i--) {
        if (items[i].tab == t) {
            return &items[i];
        }
    }
    return NULL;
}

static struct item * some_dead(void)
{
    int i;
    for (i = 0; i < NITEM; i++) {
        if (items[i].tab == -1 && items[i].ever) {
            return &items[i];
        }
    }
    return NULL;
}

static void small_op(const int op)
{
    struct item * it;

    switch (op) {
    case 0: op_insert(0, &items[next_free()], KA); break;
    case 1: op_insert(0, &items[next_free()], KB); break;
    case 2: op_insert(0, &items[next_free()], 4); break;
    case 3:
        if ((it = oldest_live(0)) != NULL) {
            op_erase(0, it);
        }
        break;
    case 4:
        if ((it = newest_live(0)) != NULL) {
            op_erase(0, it);
        }
        break;
    case 5:
        /* erase something that is not in the table (any more) */
        if ((it = some_dead()) != NULL) {
            op_erase(0, it);
        } else if ((it = oldest_live(1)) != NULL) {
            op_erase(0, it);
        }
        break;
    case 6: find_reject_all(0, KA); break;
    case 7: find_any(0, KB); find_nth(0, KA, 2); break;
    case 8: op_resize(0, 1, NULL, 0); break;
    case 9: op_resize(0, 3, cstl_hash_div, 0); break;
    case 10: op_resize(0, 7, h_rev, 0); break;
    case 11: op_resize(0, 4, cstl_hash_mul, 0); break;
    case 12: cstl_hash_rehash(T[0]); break;
    case 13: cstl_hash_shrink_to_fit(T[0]); break;
    case 14: op_swap(); break;
    case 15: op_resize(0, 12, NULL, 1); break;
    default: FAIL("bad op");
    }
}

static unsigned long nseq;

static void run_sequence(const int start,
                         const int * const ops, const int n)
{
    int i;

    reset_all();
    /* table 0 starts with 2 buckets, table 1 with 5 and one element */
    op_resize(0, 2, cstl_hash_div, 0);
    op_resize(1, 5, h_mix, 0);
    op_insert(1, &items[NITEM - 1], KA);
    if (start == 1) {
        /*
         * start in the middle of things: duplicates in the table, a
         * growing resize with another hash function just requested
         */
        op_insert(0, &items[NITEM - 2], KA);
        op_insert(0, &items[NITEM - 3], KB);
        op_insert(0, &items[NITEM - 4], KA);
        op_insert(0, &items[NITEM - 5], 4);
        op_insert(0, &items[NITEM - 6], 1);
        op_resize(0, 6, h_rev, 0);
        op_erase(0, &items[NITEM - 3]);
    } else if (start == 2) {
        /* a shrinking resize pending, table 1 in the middle of one too */
        op_resize(0, 9, cstl_hash_mul, 0);
        cstl_hash_rehash(T[0]);
        op_insert(0, &items[NITEM - 2], KB);
        op_insert(0, &items[NITEM - 3], KB);
        op_insert(0, &items[NITEM - 4], 8);
        op_insert(0, &items[NITEM - 5], KA);
        op_insert(1, &items[NITEM - 6], KB);
        op_resize(0, 3, cstl_hash_div, 0);
        op_resize(1, 2, NULL, 0);
    }

    for (i = 0; i < n; i++) {
        step = i;
        small_op(ops[i]);
        if (!m_ready[0]) {
            /* swapped with a table that was never set up: not possible here */
            FAIL("table 0 not ready");
        }
        check_light(0);
        check_light(1);
    }
    check_full(0);
    check_full(1);
    nseq++;
}

static void exhaustive(const int start)
{
    int ops[DEPTH];
    int d, i;

    phase = "exhaustive";
    for (d = 1; d <= DEPTH; d++) {
        unsigned long total = 1, s;
        for (i = 0; i < d; i++) {
            total *= NOPS;
        }
        for (s = 0; s < total; s++) {
            unsigned long x = s;
            for (i = 0; i < d; i++) {
                ops[i] = x % NOPS;
                x /= NOPS;
            }
            run_sequence(start, ops, d);
        }
    }
}

/* ------------------------------------------------------------------ */
/* part 2: random histories                                            */

static size_t pick_key(const unsigned int spread)
{
    switch (rndn(4)) {
    case 0: return keyset[rndn(NKEYSET)];
    case 1: return rndn(spread);
    case 2: return (size_t)rndn(spread) * 16;
    default: return rndn(4);
    }
}

static size_t pick_count(void)
{
    static const size_t c[] = { 1, 1, 2, 3, 4, 5, 7, 8, 9, 12, 13, 16, 17,
                                23, 31, 32, 33, 47, 64, 65, 100, 128, 129,
                                257, 1000 };
    if (rndn(3) == 0) {
        return 1 + rndn(40);
    }
    return c[rndn(sizeof(c) / sizeof(c[0]))];
}

static struct item * random_item(const int tab_or_any, const int want_live)
{
    int tries;
    for (tries = 0; tries < 4 * NITEM; tries++) {
        struct item * const it = &items[rndn(NITEM)];
        if (want_live) {
            if (it->tab >= 0 && (tab_or_any < 0 || it->tab == tab_or_any)) {
                return it;
            }
        } else if (it->tab == -1) {
            return it;
        }
    }
    return NULL;
}

static void random_history(const uint64_t seed, const unsigned long nsteps,
                           const int failures)
{
    const unsigned int spread = 1 + rndn(30);
    unsigned long s;
    int t;

    rng_s = seed;
    reset_all();

    /* one table from the static initialiser, one from cstl_hash_init() */
    cstl_hash_init(T[1], offsetof(struct item, hn));
    op_resize(0, pick_count(), rndn(2) ? hfun[rndn(NHASH)] : NULL, 0);
    op_resize(1, pick_count(), rndn(2) ? hfun[rndn(NHASH)] : NULL, 0);

    for (s = 0; s < nsteps; s++) {
        struct item * it;
        const unsigned int r = rndn(100);

        step = s;
        t = rndn(NTAB);

        if (r < 28) {
            if ((it = random_item(-1, 0)) != NULL) {
                /* often duplicate the key of a live element */
                struct item * const o = random_item(t, 1);
                if (o != NULL && rndn(3) == 0) {
                    op_insert(t, it, o->key);
                } else {
                    op_insert(t, it, pick_key(spread));
                }
            }
        } else if (r < 44) {
            if ((it = random_item(t, 1)) != NULL) {
                op_erase(t, it);
            }
        } else if (r < 50) {
            /* erase of an object that is not in this table */
            it = &items[rndn(NITEM)];
            if (it->ever && it->tab != t) {
                op_erase(t, it);
            }
        } else if (r < 58) {
            if ((it = random_item(t, 1)) != NULL) {
                find_exact(t, it);
            }
        } else if (r < 63) {
            it = &items[rndn(NITEM)];
            if (it->ever) {
                find_exact(t, it);
            }
        } else if (r < 68) {
            it = random_item(t, 1);
            find_reject_all(t, it != NULL && rndn(2) ? it->key
                            : pick_key(spread));
        } else if (r < 73) {
            it = random_item(t, 1);
            find_any(t, it != NULL && rndn(4) ? it->key : pick_key(spread));
        } else if (r < 76) {
            it = random_item(t, 1);
            find_nth(t, it != NULL ? it->key : pick_key(spread),
                     1 + rndn(4));
        } else if (r < 86) {
            op_resize(t, rndn(25) == 0 ? 0 : pick_count(),
                      rndn(3) ? hfun[rndn(NHASH)] : NULL,
                      failures && rndn(4) == 0);
        } else if (r < 89) {
            /* a burst of resizes on top of each other */
            const int n = 2 + rndn(3);
            int i;
            for (i = 0; i < n; i++) {
                op_resize(t, pick_count(), rndn(2) ? hfun[rndn(NHASH)] : NULL,
                          failures && rndn(6) == 0);
                if (rndn(2) && (it = random_item(t, 1)) != NULL) {
                    find_exact(t, it);
                }
                check_light(t);
            }
        } else if (r < 92) {
            cstl_hash_rehash(T[t]);
        } else if (r < 95) {
            if (failures && rndn(3) == 0) {
                alloc_fail = 1;
                cstl_hash_shrink_to_fit(T[t]);
                alloc_fail = 0;
            } else {
                cstl_hash_shrink_to_fit(T[t]);
            }
        } else if (r < 97) {
            op_swap();
        } else if (r < 98) {
            struct wctx w;
            w.t = t; w.n = 0;
            clear_seen();
            /* the non-const foreach forces a pending rehash to finish */
            if (cstl_hash_foreach(T[t], walk_visit_nc, &w) != 0
                || w.n != m_size[t]) {
                FAIL("foreach saw %zu of %zu", w.n, m_size[t]);
            }
        } else if (r < 99) {
            check_full(t);
        } else {
            if (rndn(4) == 0) {
                op_clear(t);
                op_resize(t, pick_count(),
                          rndn(2) ? hfun[rndn(NHASH)] : NULL, 0);
            }
        }

        check_light(0);
        check_light(1);
    }

    check_full(0);
    check_full(1);

    /* drain: erase everything, in random order, checking as we go */
    for (;;) {
        struct item * const it = random_item(-1, 1);
        if (it == NULL) {
            int i;
            for (i = 0; i < NITEM && items[i].tab < 0; i++) {
                ;
            }
            if (i == NITEM) {
                break;
            }
            op_erase(items[i].tab, &items[i]);
        } else {
            const int was = it->tab;
            op_erase(!was, it);         /* wrong table: no-op */
            CHECK(it->tab == was);
            op_erase(was, it);
            find_exact(was, it);
        }
        check_light(0);
        check_light(1);
    }
    CHECK(cstl_hash_size(T[0]) == 0 && cstl_hash_size(T[1]) == 0);
    check_full(0);
    check_full(1);
}

/* ------------------------------------------------------------------ */
/* part 3: other element types, one object in two tables               */

struct rec
{
    struct cstl_hash_node by_a;
    double payload;
    struct cstl_hash_node by_b;
    unsigned char a, b;         /* the two keys */
    int in_a, in_b;
};

struct small
{
    struct cstl_hash_node n;
    short v;
};

#define NREC 64

static int rec_visit(const void * const e, void * const p)
{
    return e == p;
}

static int count_visit(const void * const e, void * const p)
{
    (void)e;
    ++*(size_t *)p;
    return 0;
}

static void two_tables(const uint64_t seed)
{
    static struct rec recs[NREC];
    static struct small smalls[NREC];
    DECLARE_CSTL_HASH(A, struct rec, by_a);
    struct cstl_hash B, S;
    size_t na = 0, nb = 0, ns = 0;
    unsigned long s;
    int i;

    phase = "two-tables";
    rng_s = seed;
    memset(recs, 0, sizeof(recs));
    memset(smalls, 0, sizeof(smalls));

    cstl_hash_init(&B, offsetof(struct rec, by_b));
    cstl_hash_init(&S, offsetof(struct small, n));
    cstl_hash_resize(&A, 3, NULL);
    cstl_hash_resize(&B, 5, cstl_hash_div);
    cstl_hash_resize(&S, 1, h_mix);

    for (i = 0; i < NREC; i++) {
        smalls[i].v = -1;
    }

    for (s = 0; s < 60000; s++) {
        struct rec * const r = &recs[rndn(NREC)];
        struct small * const sm = &smalls[rndn(NREC)];
        size_t c;

        step = s;
        switch (rndn(12)) {
        case 0: case 1:
            if (!r->in_a) {
                r->a = rndn(6);
                cstl_hash_insert(&A, r->a, r);
                r->in_a = 1; na++;
            }
            break;
        case 2: case 3:
            if (!r->in_b) {
                r->b = rndn(6);
                cstl_hash_insert(&B, r->b, r);
                r->in_b = 1; nb++;
            }
            break;
        case 4:
            /* erase from A; a no-op if it is only in B */
            cstl_hash_erase(&A, r);
            if (r->in_a) {
                r->in_a = 0; na--;
            }
            break;
        case 5:
            cstl_hash_erase(&B, r);
            if (r->in_b) {
                r->in_b = 0; nb--;
            }
            break;
        case 6:
            cstl_hash_resize(&A, 1 + rndn(20), rndn(2) ? hfun[rndn(NHASH)]
                             : NULL);
            break;
        case 7:
            cstl_hash_resize(&B, 1 + rndn(20), rndn(2) ? hfun[rndn(NHASH)]
                             : NULL);
            break;
        case 8:
            if (sm->v < 0) {
                sm->v = rndn(4);
                cstl_hash_insert(&S, sm->v, sm);
                ns++;
            } else {
                cstl_hash_erase(&S, sm);
                if (cstl_hash_find(&S, sm->v, rec_visit, sm) != NULL) {
                    FAIL("erased small element still found");
                }
                sm->v = -1;
                ns--;
            }
            break;
        case 9:
            cstl_hash_resize(&S, 1 + rndn(9), rndn(2) ? hfun[rndn(NHASH)]
                             : NULL);
            if (rndn(2)) {
                cstl_hash_shrink_to_fit(&S);
            }
            break;
        case 10:
            if (rndn(2)) {
                cstl_hash_shrink_to_fit(&A);
            } else {
                cstl_hash_rehash(&B);
            }
            break;
        default:
            break;
        }

        /* look the record up in both tables */
        if ((cstl_hash_find(&A, r->a, rec_visit, r) == r) != (r->in_a != 0)) {
            FAIL("rec %d in A: model %d", (int)(r - recs), r->in_a);
        }
        if ((cstl_hash_find(&B, r->b, rec_visit, r) == r) != (r->in_b != 0)) {
            FAIL("rec %d in B: model %d", (int)(r - recs), r->in_b);
        }
        if (sm->v >= 0 && cstl_hash_find(&S, sm->v, rec_visit, sm) != sm) {
            FAIL("small %d lost", (int)(sm - smalls));
        }
        if (cstl_hash_size(&A) != na || cstl_hash_size(&B) != nb
            || cstl_hash_size(&S) != ns) {
            FAIL("sizes %zu %zu %zu, model %zu %zu %zu", cstl_hash_size(&A),
                 cstl_hash_size(&B), cstl_hash_size(&S), na, nb, ns);
        }
        if (s % 16 == 0) {
            c = 0; cstl_hash_foreach_const(&A, count_visit, &c);
            CHECK(c == na);
            c = 0; cstl_hash_foreach_const(&B, count_visit, &c);
            CHECK(c == nb);
            c = 0; cstl_hash_foreach_const(&S, count_visit, &c);
            CHECK(c == ns);
        }
        if (s % 997 == 0) {
            for (i = 0; i < NREC; i++) {
                struct rec * const q = &recs[i];
                /* a.by_a.key is only meaningful once inserted */
                if ((cstl_hash_find(&A, q->a, rec_visit, q) == q)
                    != (q->in_a != 0)
                    || (cstl_hash_find(&B, q->b, rec_visit, q) == q)
                    != (q->in_b != 0)) {
                    FAIL("sweep: rec %d", i);
                }
            }
        }
    }

    cstl_hash_clear(&A, NULL);
    cstl_hash_clear(&B, NULL);
    cstl_hash_clear(&S, NULL);
    CHECK(cstl_hash_size(&A) == 0);
}

/* ------------------------------------------------------------------ */
/* part 4: a big table, every bucket count on the way up and down      */

static void staircase(void)
{
    enum { N = 3000 };
    static struct small el[N];
    static unsigned char in[N];
    DECLARE_CSTL_HASH(H, struct small, n);
    size_t live = 0, cnt;
    int i, round;

    phase = "staircase";
    rng_s = 99;
    cstl_hash_resize(&H, 1, NULL);

    for (round = 0; round < 2; round++) {
        for (cnt = 1; cnt < 700; cnt += 1 + cnt / 7) {
            step = cnt;
            cstl_hash_resize(&H, cnt, round ? cstl_hash_div : NULL);
            for (i = 0; i < 40; i++) {
                const int j = rndn(N);
                if (!in[j]) {
                    cstl_hash_insert(&H, (size_t)j % 512, &el[j]);
                    in[j] = 1; live++;
                } else if (rndn(3) == 0) {
                    cstl_hash_erase(&H, &el[j]);
                    in[j] = 0; live--;
                }
                if ((cstl_hash_find(&H, (size_t)j % 512, rec_visit, &el[j])
                     == &el[j]) != (in[j] != 0)) {
                    FAIL("staircase up: element %d", j);
                }
            }
            CHECK(cstl_hash_size(&H) == live);
        }
        for (; cnt > 0; cnt = cnt * 2 / 3) {
            step = cnt;
            cstl_hash_resize(&H, cnt, h_rev);
            if (cnt % 2) {
                cstl_hash_shrink_to_fit(&H);
            }
            for (i = 0; i < 40; i++) {
                const int j = rndn(N);
                if ((cstl_hash_find(&H, (size_t)j % 512, rec_visit, &el[j])
                     == &el[j]) != (in[j] != 0)) {
                    FAIL("staircase down: element %d", j);
                }
                if (in[j] && rndn(2)) {
                    cstl_hash_erase(&H, &el[j]);
                    in[j] = 0; live--;
                }
            }
            CHECK(cstl_hash_size(&H) == live);
        }
        for (i = 0; i < N; i++) {
            if ((cstl_hash_find(&H, (size_t)i % 512, rec_visit, &el[i])
                 == &el[i]) != (in[i] != 0)) {
                FAIL("staircase end: element %d", i);
            }
        }
    }
    {
        size_t c = 0;
        cstl_hash_foreach_const(&H, count_visit, &c);
        CHECK(c == live);
    }
    cstl_hash_clear(&H, NULL);
}

int main(void)
{
    uint64_t seed;

    cstl_hash_resize(&X, 2, NULL);

    exhaustive(0);
    exhaustive(1);
    exhaustive(2);

    phase = "random";
    for (seed = 1; seed <= 300; seed++) {
        random_history(seed * 7919, 1500, 0);
    }
    phase = "random+allocfail";
    for (seed = 1; seed <= 300; seed++) {
        random_history(seed * 104729 + 1, 1500, 1);
    }
    phase = "random-long";
    random_history(424242, 200000, 1);

    two_tables(5);
    two_tables(77);
    staircase();

    reset_all();
    cstl_hash_clear(&X, NULL);
    printf("ok: %lu exhaustive sequences, %lu hash calls, "
           "%lu allocations (%lu refused)\n",
           nseq, hcalls, alloc_calls, alloc_refused);
    return 0;
}
