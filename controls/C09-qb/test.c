/*
 * C09 / change b (memory is requested in multiples of 64 bytes; capacity changes that
 * lead to the same request do not go to the allocator). The property under test:
 * a vector never reports size or capacity it has no storage for.
 *
 * Public API only (init, init_complex, size, capacity, data, at, reserve,
 * shrink_to_fit, resize, sort, reverse, swap, clear). Two vectors per run
 * are driven by a seeded random sequence of operations whose size arguments
 * are drawn from small values, values around the current size and capacity,
 * and values at and around SIZE_MAX and SIZE_MAX / element size. A model
 * (expected bytes of every valid element, constructed flag per index) is
 * compared after every operation:
 *  - capacity >= size; at(i) == data + i * elemsize for every i < size, and
 *    (on glibc) the allocation at data is usable for capacity + 1 elements;
 *  - bytes of elements that stay in range survive every operation;
 *  - reserve never lowers the capacity, a satisfied request gives at least
 *    what was asked, an unsatisfiable one changes nothing and does not abort;
 *  - resize to an unsatisfiable size aborts (checked in a forked child), as
 *    does at() with any index >= size, while at(size - 1) does not;
 *  - the constructor runs exactly once per element entering [0, size) and
 *    the destructor exactly once per element leaving it;
 *  - sort sorts and reverse reverses without losing or inventing elements.
 * Nothing depends on WHICH capacity is chosen beyond those bounds, on the
 * number or size of allocations, on private fields, or on callback order.
 */
#define _DEFAULT_SOURCE
#include "cstl/vector.h"

#include <stdint.h>
#include <stdio.h>
#include <stdlib.h>
#include <string.h>
#include <signal.h>
#include <unistd.h>
#include <sys/wait.h>
#include <sys/resource.h>
#ifdef __GLIBC__
#include <malloc.h>
#endif

static unsigned long fails;
static unsigned long nforks;

#define CHECK(c) do { if (!(c)) { fails++; \
    fprintf(stderr, "%s:%d: %s\n", __FILE__, __LINE__, #c); \
    if (fails > 20) { exit(1); } } } while (0)

static unsigned long long rng_state;

static unsigned rnd(void)
{
    rng_state = rng_state * 6364136223846793005ULL + 1442695040888963407ULL;
    return (unsigned)(rng_state >> 33);
}

#define MAXN 400
#define MAXELEM 64

struct tv
{
    struct cstl_vector v;
    size_t esz;
    int xtor;                           /* has constructor/destructor */
    /* model */
    size_t n;
    unsigned char bytes[MAXN][MAXELEM];
    unsigned char live[MAXN];
    unsigned long ncons, ndest;
    unsigned char stamp;
};

static size_t index_of(const struct tv * const t, const void * const e)
{
    const uintptr_t base = (uintptr_t)cstl_vector_data((struct cstl_vector *)&t->v);
    const uintptr_t p = (uintptr_t)e;
    CHECK(base != 0 && p >= base && (p - base) % t->esz == 0);
    return (p - base) / t->esz;
}

static void cons(void * const e, void * const priv)
{
    struct tv * const t = priv;
    const size_t i = index_of(t, e);
    CHECK(i < MAXN);
    CHECK(i < cstl_vector_capacity(&t->v));
    CHECK(cstl_vector_size(&t->v) <= cstl_vector_capacity(&t->v));
    if (i < MAXN) {
        CHECK(!t->live[i]);
        t->live[i] = 1;
        t->ncons++;
    }
    memset(e, 0xc0 | (int)(i & 0xf), t->esz);
}

static void dest(void * const e, void * const priv)
{
    struct tv * const t = priv;
    const size_t i = index_of(t, e);
    CHECK(i < MAXN);
    CHECK(i < cstl_vector_capacity(&t->v));
    CHECK(cstl_vector_size(&t->v) <= cstl_vector_capacity(&t->v));
    if (i < MAXN) {
        CHECK(t->live[i]);
        /* the element still has the bytes it should have */
        CHECK(memcmp(e, t->bytes[i], t->esz) == 0);
        t->live[i] = 0;
        t->ndest++;
    }
    memset(e, 0xdd, t->esz);
}

static void tv_init(struct tv * const t, const size_t esz, const int xtor)
{
    memset(t, 0, sizeof(*t));
    t->esz = esz;
    t->xtor = xtor;
    if (xtor) {
        cstl_vector_init_complex(&t->v, esz, cons, dest, t);
    } else {
        cstl_vector_init(&t->v, esz);
    }
}

/* run f(t, arg) in a child; return 1 if the child died of SIGABRT */
static int aborts(void (* const f)(struct tv *, size_t),
                  struct tv * const t, const size_t arg)
{
    pid_t pid;
    int st = 0;

    nforks++;
    fflush(NULL);
    pid = fork();
    if (pid == 0) {
        f(t, arg);
        _exit(0);
    }
    if (pid < 0 || waitpid(pid, &st, 0) != pid) {
        CHECK(!"fork/waitpid");
        return -1;
    }
    if (WIFSIGNALED(st) && WTERMSIG(st) == SIGABRT) {
        return 1;
    }
    CHECK(WIFEXITED(st) && WEXITSTATUS(st) == 0);
    return 0;
}

static void child_at(struct tv * const t, const size_t i)
{
    volatile const void * p = cstl_vector_at_const(&t->v, i);
    (void)p;
    p = cstl_vector_at(&t->v, i);
    (void)p;
}

static void child_at_nonconst(struct tv * const t, const size_t i)
{
    volatile void * p = cstl_vector_at(&t->v, i);
    (void)p;
}

static void child_resize(struct tv * const t, const size_t n)
{
    cstl_vector_resize(&t->v, n);
}

static void check(struct tv * const t, const int deep)
{
    const size_t n = cstl_vector_size(&t->v);
    const size_t cap = cstl_vector_capacity(&t->v);
    unsigned char * const data = cstl_vector_data(&t->v);
    size_t i;

    CHECK(n == t->n);
    CHECK(cap >= n);
    CHECK(n == 0 || data != NULL);
#ifdef __GLIBC__
    if (data != NULL) {
        CHECK(cap < SIZE_MAX && (cap + 1) <= SIZE_MAX / t->esz);
        CHECK(malloc_usable_size(data) >= (cap + 1) * t->esz);
    }
#endif
    for (i = 0; i < n; i++) {
        const void * const e = cstl_vector_at_const(&t->v, i);
        CHECK(e == data + i * t->esz);
        CHECK(cstl_vector_at(&t->v, i) == e);
        CHECK(memcmp(e, t->bytes[i], t->esz) == 0);
        CHECK(!t->xtor || t->live[i]);
    }
    for (i = n; i < MAXN; i++) {
        CHECK(!t->live[i]);
    }
    if (t->xtor) {
        CHECK(t->ncons - t->ndest == n);
    }
    if (deep) {
        CHECK(aborts(child_at, t, n) == 1);
        CHECK(aborts(child_at_nonconst, t, n + 1 + rnd() % 5) == 1);
        CHECK(aborts(child_at, t, SIZE_MAX - rnd() % 3) == 1);
        {
            /* wraps for element size 1 */
            size_t idx = SIZE_MAX / t->esz + (rnd() % 3) - 1;
            if (idx < n) {
                idx = SIZE_MAX;
            }
            CHECK(aborts(child_at, t, idx) == 1);
        }
        if (cap > n) {
            CHECK(aborts(child_at, t, cap) == 1);
            CHECK(aborts(child_at, t, cap - 1) == (cap - 1 >= n));
        }
        if (n > 0) {
            CHECK(aborts(child_at, t, n - 1) == 0);
            CHECK(aborts(child_at, t, 0) == 0);
        }
    }
}

/* give every valid element fresh, recognisable bytes */
static void scribble(struct tv * const t, const size_t from)
{
    size_t i, k;
    for (i = from; i < t->n; i++) {
        unsigned char * const e = cstl_vector_at(&t->v, i);
        for (k = 0; k < t->esz; k++) {
            e[k] = (unsigned char)(rnd() >> 3);
        }
        e[0] = t->stamp++;
        memcpy(t->bytes[i], e, t->esz);
    }
}

static size_t pick_size(const struct tv * const t, int * const huge)
{
    const size_t n = cstl_vector_size(&t->v);
    const size_t cap = cstl_vector_capacity(&t->v);
    size_t r;

    *huge = 0;
    switch (rnd() % 10) {
    case 0: r = 0; break;
    case 1: r = rnd() % 8; break;
    case 2: r = n + rnd() % 3; break;
    case 3: r = (n > 2 ? n - rnd() % 3 : 0); break;
    case 4: r = cap + rnd() % 3; break;
    case 5: r = (cap > 2 ? cap - rnd() % 3 : 0); break;
    case 6: r = rnd() % 200; break;
    case 7: *huge = 1; r = SIZE_MAX - rnd() % 4; break;
    case 8: *huge = 1; r = SIZE_MAX / t->esz - rnd() % 4; break;
    default:
        *huge = 1;
        r = SIZE_MAX / t->esz + rnd() % 4;
        if (r < SIZE_MAX / t->esz) {
            r = SIZE_MAX;
        }
        break;
    }
    if (!*huge && r >= MAXN) {
        r = MAXN - 1;
    }
    if (*huge && r < (SIZE_MAX >> 8)) {
        /* element size 1 and the like: still astronomically large */
        r = SIZE_MAX - rnd() % 4;
    }
    return r;
}

static int cmp_bytes(const void * const a, const void * const b, void * const p)
{
    const struct tv * const t = p;
    return memcmp(a, b, t->esz);
}

static int cmp_model(const void * const a, const void * const b)
{
    return memcmp(a, b, MAXELEM);
}

static void op_resize(struct tv * const t)
{
    int huge;
    const size_t to = pick_size(t, &huge);
    const size_t old = t->n;
    const unsigned long c0 = t->ncons, d0 = t->ndest;
    size_t i;

    if (huge) {
        /* can't be satisfied: must abort; the parent is left untouched */
        CHECK(aborts(child_resize, t, to) == 1);
        return;
    }
    cstl_vector_resize(&t->v, to);
    t->n = to;
    CHECK(cstl_vector_size(&t->v) == to);
    if (t->xtor) {
        CHECK(t->ncons - c0 == (to > old ? to - old : 0));
        CHECK(t->ndest - d0 == (old > to ? old - to : 0));
        for (i = old; i < to; i++) {
            /* what the constructor left there */
            memset(t->bytes[i], 0xc0 | (int)(i & 0xf), t->esz);
        }
    } else {
        /* new elements are uninitialised: give them a value */
        scribble(t, old < to ? old : to);
    }
}

static void op_reserve(struct tv * const t)
{
    int huge;
    const size_t to = pick_size(t, &huge);
    const size_t cap = cstl_vector_capacity(&t->v);
    size_t ncap;

    cstl_vector_reserve(&t->v, to);
    ncap = cstl_vector_capacity(&t->v);
    CHECK(ncap >= cap);
    if (huge) {
        CHECK(ncap == cap);
    } else {
        CHECK(ncap >= to);
    }
}

static void op_shrink(struct tv * const t)
{
    const size_t cap = cstl_vector_capacity(&t->v);
    cstl_vector_shrink_to_fit(&t->v);
    CHECK(cstl_vector_capacity(&t->v) <= cap);
    CHECK(cstl_vector_capacity(&t->v) >= t->n);
}

static void op_clear(struct tv * const t)
{
    const unsigned long d0 = t->ndest;
    cstl_vector_clear(&t->v);
    if (t->xtor) {
        CHECK(t->ndest - d0 == t->n);
    }
    t->n = 0;
    CHECK(cstl_vector_size(&t->v) == 0);
    CHECK(cstl_vector_capacity(&t->v) == 0);
}

static void op_sort(struct tv * const t)
{
    static unsigned char copy[MAXN][MAXELEM];
    size_t i;

    memset(copy, 0, sizeof(copy));
    for (i = 0; i < t->n; i++) {
        memcpy(copy[i], t->bytes[i], t->esz);
    }
    qsort(copy, t->n, MAXELEM, cmp_model);
    if (rnd() % 2) {
        cstl_vector_sort(&t->v, cmp_bytes, t);
    } else {
        static const cstl_sort_algorithm_t algo[] = {
            CSTL_SORT_ALGORITHM_QUICK, CSTL_SORT_ALGORITHM_QUICK_R,
            CSTL_SORT_ALGORITHM_QUICK_M, CSTL_SORT_ALGORITHM_HEAP,
        };
        __cstl_vector_sort(&t->v, cmp_bytes, t, cstl_swap, algo[rnd() % 4]);
    }
    for (i = 0; i < t->n; i++) {
        memcpy(t->bytes[i], copy[i], t->esz);
    }
}

static void op_reverse(struct tv * const t)
{
    size_t i;
    cstl_vector_reverse(&t->v);
    for (i = 0; i < t->n / 2; i++) {
        unsigned char tmp[MAXELEM];
        memcpy(tmp, t->bytes[i], MAXELEM);
        memcpy(t->bytes[i], t->bytes[t->n - 1 - i], MAXELEM);
        memcpy(t->bytes[t->n - 1 - i], tmp, MAXELEM);
    }
}

static void run(const unsigned long long seed, const size_t esz,
                const int xtor, const unsigned long nops)
{
    static struct tv a, b;
    struct tv * t[2];
    unsigned long op;

    rng_state = seed * 1000003ULL + esz * 17 + (unsigned)xtor;
    tv_init(&a, esz, xtor);
    tv_init(&b, esz, xtor);
    t[0] = &a;
    t[1] = &b;
    check(t[0], 1);

    for (op = 0; op < nops; op++) {
        struct tv * const x = t[rnd() % 2];
        const unsigned r = rnd() % 100;

        if (r < 40) {
            op_resize(x);
        } else if (r < 60) {
            op_reserve(x);
        } else if (r < 70) {
            op_shrink(x);
        } else if (r < 74) {
            op_clear(x);
        } else if (r < 82) {
            op_sort(x);
        } else if (r < 90) {
            op_reverse(x);
        } else if (r < 95) {
            /*
             * swap the vectors; the models follow. (only for vectors
             * without constructors: theirs carry a pointer to the model.)
             */
            if (!xtor) {
                static struct tv tmp;
                struct cstl_vector va, vb;
                cstl_vector_swap(&a.v, &b.v);
                va = a.v;
                vb = b.v;
                tmp = a;
                a = b;
                b = tmp;
                a.v = va;
                b.v = vb;
            }
        } else {
            scribble(x, 0);
        }
        check(t[0], op % 199 == 0);
        check(t[1], op % 211 == 0);
    }

    check(t[0], 1);
    check(t[1], 1);
    op_clear(t[0]);
    op_clear(t[1]);
    check(t[0], 1);
    check(t[1], 0);
    if (xtor) {
        CHECK(a.ncons == a.ndest);
        CHECK(b.ncons == b.ndest);
    }
}

int main(void)
{
    static const size_t esz[] = { 1, 2, 3, 4, 7, 8, 12, 16, 24, 33, 64 };
    const struct rlimit nocore = { 0, 0 };
    unsigned i;

    /* the children abort() on purpose; don't dump core for that */
    setrlimit(RLIMIT_CORE, &nocore);

    for (i = 0; i < sizeof(esz) / sizeof(*esz); i++) {
        run(1 + i, esz[i], 0, 2000);
        run(101 + i, esz[i], 1, 2000);
    }
    printf("forks: %lu\n", nforks);
    if (fails != 0) {
        printf("FAIL (%lu)\n", fails);
        return 1;
    }
    printf("OK\n");
    return 0;
}
