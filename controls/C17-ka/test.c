/*
 * C17 / change a: range of the built-in hash functions over boundary table
 * sizes and keys (including the keys whose golden-ratio product has the
 * largest fractional part), and tables that use cstl_hash_mul at many sizes.
 *
 * build (from the worktree root, after `make build`):
 *   gcc -std=c99 -D_POSIX_C_SOURCE=199309L -Wall -Wextra -O1 -Iinclude -o _keep/a/test _keep/a/test.c build/libcstl.a -lm
 * run:
 *   ./_keep/a/test
 */
#include "cstl/hash.h"

#include <stdio.h>
#include <stdlib.h>
#include <stdint.h>
#include <math.h>

#define CHECK(X)                                                        \
    do {                                                                \
        if (!(X)) {                                                     \
            printf("FAIL %s:%d: %s\n", __FILE__, __LINE__, #X);         \
            exit(1);                                                    \
        }                                                               \
    } while (0)

static uint64_t rng_state = 0x9e3779b97f4a7c15ull;
static uint64_t rng(void)
{
    /* splitmix64 */
    uint64_t z = (rng_state += 0x9e3779b97f4a7c15ull);
    z = (z ^ (z >> 30)) * 0xbf58476d1ce4e5b9ull;
    z = (z ^ (z >> 27)) * 0x94d049bb133111ebull;
    return z ^ (z >> 31);
}

#define NTOP    64
#define NKEYS   (NTOP + 400 + 20000)
static size_t keys[NKEYS];
static size_t nkeys;

#define NSIZES  20000
static size_t sizes[NSIZES];
static size_t nsizes;

static void add_size(const size_t m)
{
    if (m >= 1 && nsizes < NSIZES) {
        sizes[nsizes++] = m;
    }
}

static void collect_keys(void)
{
    static struct { float frac; size_t k; } top[NTOP];
    size_t k;
    int i, e;

    /*
     * the keys below 2^24 convert to float exactly; keep the ones whose
     * product with phi has the largest fractional parts (closest to 1)
     */
    for (k = 1; k < ((size_t)1 << 24); k++) {
        const float M = 1.61803398875f * k;
        const float f = M - floorf(M);
        if (f > top[0].frac) {
            top[0].frac = f;
            top[0].k = k;
            for (i = 0; i + 1 < NTOP && top[i].frac > top[i + 1].frac; i++) {
                const float tf = top[i].frac;
                const size_t tk = top[i].k;
                top[i] = top[i + 1];
                top[i + 1].frac = tf;
                top[i + 1].k = tk;
            }
        }
    }
    for (i = 0; i < NTOP; i++) {
        keys[nkeys++] = top[i].k;
    }
    CHECK(top[NTOP - 1].frac > 0.999f && top[NTOP - 1].frac < 1.0f);

    keys[nkeys++] = 0;
    keys[nkeys++] = SIZE_MAX;
    for (e = 0; e < 64; e++) {
        const size_t p = (size_t)1 << e;
        keys[nkeys++] = p;
        keys[nkeys++] = p - 1;
        keys[nkeys++] = p + 1;
        keys[nkeys++] = SIZE_MAX - p;
        keys[nkeys++] = 3 * (p >> 1) + 1;
    }
    while (nkeys < NKEYS) {
        keys[nkeys++] = (size_t)(rng() >> (rng() % 64));
    }
}

static void collect_sizes(void)
{
    static const int shift[] = { 1, 2, 22, 23, 24, 25, 26, 51, 52, 53, 54, 55 };
    int e, d;
    unsigned int j;
    size_t m;

    for (m = 1; m <= 300; m++) {
        add_size(m);
    }
    for (e = 0; e < 64; e++) {
        const size_t p = (size_t)1 << e;
        for (d = -2; d <= 2; d++) {
            add_size(p + d);
            add_size(SIZE_MAX - p + d);
            add_size(3 * (p >> 1) + d);
            for (j = 0; j < sizeof(shift) / sizeof(*shift); j++) {
                if (e >= shift[j]) {
                    /* around the points where m stops being exact / rounds up */
                    add_size(p + (p >> shift[j]) + d);
                    add_size(p - (p >> shift[j]) + d);
                    add_size(p + 3 * (p >> shift[j]) + d);
                }
            }
        }
    }
    add_size(SIZE_MAX);
    add_size(SIZE_MAX - 1);
    for (j = 0; j < 2000; j++) {
        add_size((size_t)(rng() >> (rng() % 64)));
    }
}

struct item
{
    size_t k;
    struct cstl_hash_node hn;
};

static int count_visit(const void * const e, void * const p)
{
    (void)e;
    ++*(size_t *)p;
    return 0;
}

static void table_run(cstl_hash_func_t * const f)
{
    enum { N = 600 };
    static struct item it[N];
    static const size_t shape[] = {
        1, 2, 3, 7, 16, 17, 64, 100, 255, 256, 257, 1000, 4099, 1, 31,
    };
    DECLARE_CSTL_HASH(h, struct item, hn);
    unsigned int s, i;
    size_t n;

    for (i = 0; i < N; i++) {
        /* a third of the keys are the near-1 fractions */
        it[i].k = keys[(i % 3 == 0) ? i % NTOP : (i * 37) % nkeys];
    }

    cstl_hash_resize(&h, 5, f);
    for (i = 0; i < N; i++) {
        cstl_hash_insert(&h, it[i].k, &it[i]);
    }
    for (s = 0; s < sizeof(shape) / sizeof(*shape); s++) {
        cstl_hash_resize(&h, shape[s], (s & 1) ? f : NULL);
        /* some lookups while the rehash is pending, then the rest */
        for (i = 0; i < N; i++) {
            const struct item * const e =
                cstl_hash_find(&h, it[i].k, NULL, NULL);
            CHECK(e != NULL && e->k == it[i].k);
        }
        n = 0;
        cstl_hash_foreach_const(&h, count_visit, &n);
        CHECK(n == N && cstl_hash_size(&h) == N);
    }
    for (i = 0; i < N; i += 2) {
        cstl_hash_erase(&h, &it[i]);
    }
    CHECK(cstl_hash_size(&h) == N / 2);
    cstl_hash_resize(&h, 11, NULL);
    for (i = 1; i < N; i += 2) {
        CHECK(cstl_hash_find(&h, it[i].k, NULL, NULL) != NULL);
        cstl_hash_erase(&h, &it[i]);
    }
    CHECK(cstl_hash_size(&h) == 0);
    cstl_hash_clear(&h, NULL);
}

int main(void)
{
    size_t i, j;
    unsigned long calls = 0;

    collect_keys();
    collect_sizes();

    for (i = 0; i < nsizes; i++) {
        const size_t m = sizes[i];
        /* all special keys, and a rotating window of the random ones */
        const size_t lim = NTOP + 400;
        for (j = 0; j < lim; j++) {
            CHECK(cstl_hash_mul(keys[j], m) < m);
            CHECK(cstl_hash_div(keys[j], m) < m);
            CHECK(cstl_hash_div(keys[j], m) == keys[j] % m);
        }
        for (j = 0; j < 1500; j++) {
            const size_t k = keys[lim + (i * 1500 + j) % (nkeys - lim)];
            CHECK(cstl_hash_mul(k, m) < m);
            CHECK(cstl_hash_div(k, m) < m);
        }
        calls += lim + 1500;
    }

    /* m == 1 leaves exactly one choice */
    for (j = 0; j < nkeys; j++) {
        CHECK(cstl_hash_mul(keys[j], 1) == 0);
        CHECK(cstl_hash_div(keys[j], 1) == 0);
    }

    /* the hash spreads: 64 buckets all get used by 0..9999 */
    {
        unsigned int used[64] = { 0 };
        for (j = 0; j < 10000; j++) {
            used[cstl_hash_mul(j, 64)]++;
        }
        for (j = 0; j < 64; j++) {
            CHECK(used[j] > 50);
        }
    }

    table_run(cstl_hash_mul);
    table_run(cstl_hash_div);

    printf("ok: %lu sizes, %lu (key, size) pairs\n",
           (unsigned long)nsizes, calls);
    return 0;
}
