/*
 * C04 / change a: enumeration (foreach, foreach_const, clear) visits the
 * buckets from the last one in use down to the first.
 *
 * Build + run (from the worktree root, i.e. the directory with the Makefile):
 *   make build && gcc -std=c99 -O1 -Wall -Wextra -Iinclude -o _keep/a/test _keep/a/test.c build/libcstl.a -lm && ./_keep/a/test
 *
 * Reaches table states at every stage of grow / shrink / change-of-hash
 * rehashes (insert, erase, find stepping the sweep, resize on top of a
 * pending resize, forced rehash, shrink-to-fit) and in each of them runs one
 * enumeration entry point:
 *   - cstl_hash_foreach_const / cstl_hash_foreach: every live element exactly
 *     once, nothing else; stopping at the k-th visit returns that value and
 *     no further visit happens;
 *   - cstl_hash_foreach whose callback erases the visited element and then
 *     scribbles over it (as free() would), for all or for some elements;
 *   - cstl_hash_clear with a callback that scribbles over each element: every
 *     live element exactly once, table empty, usable again after a resize;
 *     cstl_hash_clear(NULL).
 * Exhaustive short histories x every entry point, plus long seeded random
 * histories. Only the public API is used; the order of visits is not assumed.
 */
#include "cstl/hash.h"

#include <stdio.h>
#include <stdlib.h>
#include <string.h>

#define CHECK(c) do { if (!(c)) { \
    fprintf(stderr, "%s:%d: CHECK failed: %s\n", __FILE__, __LINE__, #c); \
    exit(1); } } while (0)

#define MAXE 8192
#define NKEYS 9

struct elem {
    struct cstl_hash_node hn;
    size_t key;
    int live;
    int visits;
};

static size_t hf_half(size_t k, size_t m) { return (k / 2) % m; }
static size_t hf_rev(size_t k, size_t m) { return (m - 1) - (k % m); }
static size_t hf_last(size_t k, size_t m) { (void)k; return m - 1; }
static cstl_hash_func_t * const HF[] = {
    NULL, cstl_hash_div, cstl_hash_mul, hf_half, hf_rev, hf_last
};
#define NHF (sizeof(HF) / sizeof(HF[0]))

static struct cstl_hash H;
static struct elem pool[MAXE];
static size_t npool, nlive;

static void reset_all(void)
{
    cstl_hash_init(&H, offsetof(struct elem, hn));
    cstl_hash_resize(&H, 2, NULL);
    npool = 0;
    nlive = 0;
}

static void op_insert(size_t key)
{
    struct elem * const e = &pool[npool];
    CHECK(npool < MAXE);
    npool++;
    memset(e, 0, sizeof(*e));
    e->key = key;
    e->live = 1;
    cstl_hash_insert(&H, key, e);
    nlive++;
}

static struct elem * pick_live(size_t n)
{
    size_t i;
    if (nlive == 0) {
        return NULL;
    }
    n %= nlive;
    for (i = 0; i < npool; i++) {
        if (pool[i].live && n-- == 0) {
            return &pool[i];
        }
    }
    return NULL;
}

static void op_erase(struct elem * e)
{
    cstl_hash_erase(&H, e);
    e->live = 0;
    nlive--;
}

/* --- enumeration ------------------------------------------------------------- */
struct walk {
    size_t calls;
    size_t stop_at;     /* (size_t)-1: never */
    int stop_val;
    int erase_mode;     /* 0: none, 1: all, 2: every other visited element */
};

static void clear_visits(void)
{
    size_t i;
    for (i = 0; i < npool; i++) {
        pool[i].visits = 0;
    }
}

static void scribble(struct elem * e)
{
    /* what handing the element to free() may do to it */
    memset(&e->hn, 0xdd, sizeof(e->hn));
    e->key = (size_t)-1;
}

static int walk_common(struct elem * e, struct walk * w)
{
    const size_t idx = w->calls++;
    CHECK(e >= pool && e < pool + npool);
    CHECK(e->live == 1);            /* erased elements never show up */
    CHECK(e->visits == 0);          /* at most once */
    e->visits = 1;
    if (idx == w->stop_at) {
        return w->stop_val;
    }
    return 0;
}

static int visit_const(const void * e, void * p)
{
    return walk_common((struct elem *)e, p);
}

static int visit_mut(void * e, void * p)
{
    struct walk * const w = p;
    struct elem * const el = e;
    const int res = walk_common(el, w);

    if (w->erase_mode == 1 || (w->erase_mode == 2 && (w->calls & 1))) {
        cstl_hash_erase(&H, el);
        el->live = 0;
        nlive--;
        scribble(el);
    }
    return res;
}

static void expect_all_live_visited(void)
{
    size_t i;
    for (i = 0; i < npool; i++) {
        CHECK(pool[i].visits == pool[i].live);
    }
}

static void t_const_all(void)
{
    struct walk w = { 0, (size_t)-1, 0, 0 };
    clear_visits();
    CHECK(cstl_hash_foreach_const(&H, visit_const, &w) == 0);
    CHECK(w.calls == nlive);
    CHECK(cstl_hash_size(&H) == nlive);
    expect_all_live_visited();
}

static void t_const_stop(size_t k)
{
    struct walk w = { 0, 0, 0, 0 };
    if (nlive == 0) {
        return;
    }
    w.stop_at = k % nlive;
    w.stop_val = 17 + (int)(k % 5);
    clear_visits();
    CHECK(cstl_hash_foreach_const(&H, visit_const, &w) == w.stop_val);
    CHECK(w.calls == w.stop_at + 1);
}

static void t_mut_all(void)
{
    struct walk w = { 0, (size_t)-1, 0, 0 };
    clear_visits();
    CHECK(cstl_hash_foreach(&H, visit_mut, &w) == 0);
    CHECK(w.calls == nlive);
    expect_all_live_visited();
}

static void t_mut_stop(size_t k)
{
    struct walk w = { 0, 0, 0, 0 };
    if (nlive == 0) {
        return;
    }
    w.stop_at = k % nlive;
    w.stop_val = -3 - (int)(k % 5);
    clear_visits();
    CHECK(cstl_hash_foreach(&H, visit_mut, &w) == w.stop_val);
    CHECK(w.calls == w.stop_at + 1);
}

static void t_mut_erase(int mode)
{
    struct walk w = { 0, (size_t)-1, 0, 0 };
    const size_t before = nlive;
    size_t i, seen = 0;

    w.erase_mode = mode;
    clear_visits();
    CHECK(cstl_hash_foreach(&H, visit_mut, &w) == 0);
    CHECK(w.calls == before);       /* every element that was live, once */
    for (i = 0; i < npool; i++) {
        seen += (size_t)pool[i].visits;
    }
    CHECK(seen == before);
    CHECK(cstl_hash_size(&H) == nlive);
    if (mode == 1) {
        CHECK(nlive == 0);
    }
    t_const_all();                  /* the survivors are all still there */
}

static void clear_cb(void * e, void * p)
{
    struct elem * const el = e;
    CHECK(p == NULL);
    CHECK(el >= pool && el < pool + npool);
    CHECK(el->live == 1);
    CHECK(el->visits == 0);
    el->visits = 1;
    el->live = 0;
    nlive--;
    scribble(el);                   /* the callee owns it now */
}

static void t_clear(int with_cb)
{
    size_t i, seen = 0;
    const size_t before = nlive;

    clear_visits();
    if (with_cb) {
        cstl_hash_clear(&H, clear_cb);
        for (i = 0; i < npool; i++) {
            seen += (size_t)pool[i].visits;
        }
        CHECK(seen == before);
        CHECK(nlive == 0);
    } else {
        cstl_hash_clear(&H, NULL);
        for (i = 0; i < npool; i++) {
            pool[i].live = 0;
        }
        nlive = 0;
    }
    CHECK(cstl_hash_size(&H) == 0);
    /* enumerating the cleared table visits nothing */
    t_const_all();
    t_mut_all();
    /* reusable after a fresh resize */
    cstl_hash_resize(&H, 3, before & 1 ? cstl_hash_div : NULL);
    CHECK(cstl_hash_find(&H, 1, NULL, NULL) == NULL);
    op_insert(1);
    op_insert(4);
    op_insert(1);
    t_const_all();
    CHECK(cstl_hash_find(&H, 4, NULL, NULL) != NULL);
    t_mut_all();
}

enum { T_CONST_ALL, T_CONST_STOP, T_MUT_ALL, T_MUT_STOP, T_ERASE_ALL,
       T_ERASE_SOME, T_CLEAR_CB, T_CLEAR_NULL, T_COUNT };

static void terminal(int t, size_t k)
{
    switch (t) {
    case T_CONST_ALL: t_const_all(); break;
    case T_CONST_STOP: t_const_stop(k); break;
    case T_MUT_ALL: t_mut_all(); break;
    case T_MUT_STOP: t_mut_stop(k); break;
    case T_ERASE_ALL: t_mut_erase(1); break;
    case T_ERASE_SOME: t_mut_erase(2); break;
    case T_CLEAR_CB: t_clear(1); break;
    case T_CLEAR_NULL: t_clear(0); break;
    }
}

/* --- exhaustive short histories x every entry point -------------------------- */
enum { X_INS0, X_INS1, X_INS5, X_ERA, X_FIND0, X_FIND5, X_RS1, X_RS2D,
       X_RS3, X_RS4H, X_RS6, X_RS5L, X_REHASH, X_FIT, X_NOPS };

static void x_apply(int op)
{
    struct elem * e;
    switch (op) {
    case X_INS0: op_insert(0); break;
    case X_INS1: op_insert(1); break;
    case X_INS5: op_insert(5); break;
    case X_ERA: if ((e = pick_live(1)) != NULL) op_erase(e); break;
    case X_FIND0: (void)cstl_hash_find(&H, 0, NULL, NULL); break;
    case X_FIND5: (void)cstl_hash_find(&H, 5, NULL, NULL); break;
    case X_RS1: cstl_hash_resize(&H, 1, NULL); break;
    case X_RS2D: cstl_hash_resize(&H, 2, cstl_hash_div); break;
    case X_RS3: cstl_hash_resize(&H, 3, NULL); break;
    case X_RS4H: cstl_hash_resize(&H, 4, hf_half); break;
    case X_RS6: cstl_hash_resize(&H, 6, cstl_hash_mul); break;
    case X_RS5L: cstl_hash_resize(&H, 5, hf_last); break;
    case X_REHASH: cstl_hash_rehash(&H); break;
    case X_FIT: cstl_hash_shrink_to_fit(&H); break;
    }
}

static void exhaustive(int len)
{
    long n = 1, s;
    int i, t;
    size_t k;

    for (i = 0; i < len; i++) {
        n *= X_NOPS;
    }
    for (s = 0; s < n; s++) {
        for (t = 0; t < T_COUNT; t++) {
            const size_t nk = (t == T_CONST_STOP || t == T_MUT_STOP) ? 4 : 1;
            for (k = 0; k < nk; k++) {
                long v = s;
                reset_all();
                op_insert(0);
                op_insert(3);
                op_insert(0);
                op_insert(6);
                for (i = 0; i < len; i++) {
                    x_apply((int)(v % X_NOPS));
                    v /= X_NOPS;
                    /* non-mutating enumeration is checked in every state */
                    t_const_all();
                }
                terminal(t, k);
                cstl_hash_clear(&H, NULL);
            }
        }
    }
}

/* --- seeded random histories --------------------------------------------------- */
static unsigned long rng;
static unsigned int rnd(void)
{
    rng = rng * 6364136223846793005UL + 1442695040888963407UL;
    return (unsigned int)(rng >> 33);
}

static void random_history(unsigned long seed, int steps, unsigned maxbuckets,
                           unsigned resize_pct)
{
    int i;
    rng = seed;
    reset_all();
    for (i = 0; i < steps && npool + 8 < MAXE; i++) {
        const unsigned r = rnd() % 100;
        struct elem * e;

        if (r < resize_pct) {
            cstl_hash_resize(&H, 1 + rnd() % maxbuckets, HF[rnd() % NHF]);
        } else if (r < resize_pct + 2) {
            cstl_hash_rehash(&H);
        } else if (r < resize_pct + 4) {
            cstl_hash_shrink_to_fit(&H);
        } else if (r < resize_pct + 12) {
            /* entry points; the destructive ones are rarer */
            const unsigned q = rnd() % 40;
            terminal(q < 8 ? (int)q : (int)(q % 4), rnd());
        } else if (r < 62) {
            op_insert(rnd() % NKEYS);
        } else if (r < 80) {
            if ((e = pick_live(rnd())) != NULL) {
                op_erase(e);
            }
        } else {
            (void)cstl_hash_find(&H, rnd() % NKEYS, NULL, NULL);
        }
        /* non-mutating enumeration is checked in every state */
        t_const_all();
    }
    terminal((int)(seed % T_COUNT), seed);
    cstl_hash_clear(&H, NULL);
}

int main(void)
{
    unsigned long seed;

    exhaustive(4);
    for (seed = 1; seed <= 60; seed++) {
        random_history(seed, 1500, 7, 16);
        random_history(seed + 1000, 2500, 60, 6);
        random_history(seed + 2000, 600, 3, 30);
    }
    printf("ok\n");
    return 0;
}
