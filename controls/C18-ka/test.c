/*
 * C18 / change a: a two-translation-unit C99 client of hash.h (this one file
 * compiled twice, -DTU=1 at -O0 and -DTU=2 at -O2), with the project's warning
 * flags plus -Werror, linked once against libcstl.a and once against
 * libcstl.so. Both units include every public header (in opposite orders),
 * call cstl_hash_size()/cstl_hash_load() directly and through function
 * pointers, and use a table while a rehash is pending.
 *
 * build (from the worktree root, after `make build`):
 *   F="-std=c99 -pedantic -Wall -Wextra -Werror -Werror=vla -Werror=declaration-after-statement -D_POSIX_C_SOURCE=199309L -Iinclude" && gcc $F -O0 -DTU=1 -c _keep/a/test.c -o _keep/a/test_tu1.o && gcc $F -O2 -DTU=2 -c _keep/a/test.c -o _keep/a/test_tu2.o && gcc -o _keep/a/test_static _keep/a/test_tu1.o _keep/a/test_tu2.o build/libcstl.a -lm && gcc -o _keep/a/test_shared _keep/a/test_tu1.o _keep/a/test_tu2.o -Lbuild -lcstl -lm
 * run:
 *   ./_keep/a/test_static && LD_LIBRARY_PATH=build ./_keep/a/test_shared
 */
#if TU == 1
#include "cstl/hash.h"
#include "cstl/array.h"
#include "cstl/bintree.h"
#include "cstl/common.h"
#include "cstl/dlist.h"
#include "cstl/heap.h"
#include "cstl/map.h"
#include "cstl/memory.h"
#include "cstl/rbtree.h"
#include "cstl/slist.h"
#include "cstl/string.h"
#include "cstl/vector.h"
#include "cstl/hash.h"
#else
#include "cstl/vector.h"
#include "cstl/string.h"
#include "cstl/slist.h"
#include "cstl/rbtree.h"
#include "cstl/memory.h"
#include "cstl/map.h"
#include "cstl/heap.h"
#include "cstl/dlist.h"
#include "cstl/common.h"
#include "cstl/bintree.h"
#include "cstl/array.h"
#include "cstl/hash.h"
#endif

#include <stdio.h>
#include <stdlib.h>

#define CHECK(X)                                                        \
    do {                                                                \
        if (!(X)) {                                                     \
            printf("FAIL %s:%d (TU %d): %s\n",                          \
                   __FILE__, __LINE__, TU, #X);                         \
            exit(1);                                                    \
        }                                                               \
    } while (0)

struct item
{
    int v;
    struct cstl_hash_node hn;
};

typedef size_t size_fn_t(const struct cstl_hash *);
typedef float load_fn_t(const struct cstl_hash *);

/* each unit exports one checker and its idea of the two addresses */
int tu1_check(struct cstl_hash *, size_t, size_t);
int tu2_check(struct cstl_hash *, size_t, size_t);
size_fn_t * tu1_size_fn(void);
size_fn_t * tu2_size_fn(void);
load_fn_t * tu1_load_fn(void);
load_fn_t * tu2_load_fn(void);

static int near(const float a, const float b)
{
    const float d = a - b;
    return d < 0.001f && d > -0.001f;
}

#if TU == 1
#define THIS(NAME) tu1_##NAME
#else
#define THIS(NAME) tu2_##NAME
#endif

size_fn_t * THIS(size_fn)(void)
{
    return cstl_hash_size;
}

load_fn_t * THIS(load_fn)(void)
{
    return cstl_hash_load;
}

int THIS(check)(struct cstl_hash * const h,
                const size_t size, const size_t buckets)
{
    /* volatile so that the indirect calls really are indirect */
    size_fn_t * volatile sf = cstl_hash_size;
    load_fn_t * volatile lf = cstl_hash_load;

    CHECK(cstl_hash_size(h) == size);
    CHECK(sf(h) == size);
    CHECK(near(cstl_hash_load(h), (float)size / buckets));
    CHECK(near(lf(h), (float)size / buckets));
    return 1;
}

#if TU == 1
int main(void)
{
    enum { N = 50 };
    static struct item it[N];
    DECLARE_CSTL_HASH(h, struct item, hn);
    struct cstl_hash h2;
    int i;

    CHECK(cstl_hash_size(&h) == 0);
    cstl_hash_resize(&h, 10, cstl_hash_div);
    CHECK(tu1_check(&h, 0, 10) && tu2_check(&h, 0, 10));

    for (i = 0; i < N; i++) {
        it[i].v = i;
        cstl_hash_insert(&h, 3 * i, &it[i]);
        CHECK(tu1_check(&h, i + 1, 10) && tu2_check(&h, i + 1, 10));
    }

    /* the load follows a resize request at once, before any rehashing */
    cstl_hash_resize(&h, 25, cstl_hash_mul);
    CHECK(tu1_check(&h, N, 25) && tu2_check(&h, N, 25));
    CHECK(cstl_hash_find(&h, 3 * 7, NULL, NULL) == &it[7]);
    CHECK(tu2_check(&h, N, 25));
    cstl_hash_resize(&h, 4, NULL);
    CHECK(tu1_check(&h, N, 4) && tu2_check(&h, N, 4));
    cstl_hash_rehash(&h);
    CHECK(tu1_check(&h, N, 4) && tu2_check(&h, N, 4));

    cstl_hash_erase(&h, &it[0]);
    CHECK(tu1_check(&h, N - 1, 4) && tu2_check(&h, N - 1, 4));

    /* the functions through the other unit's pointers */
    CHECK(tu2_size_fn()(&h) == N - 1);
    CHECK(tu1_size_fn()(&h) == N - 1);
    CHECK(near(tu2_load_fn()(&h), (float)(N - 1) / 4));
    CHECK(near(tu1_load_fn()(&h), (float)(N - 1) / 4));

    cstl_hash_init(&h2, offsetof(struct item, hn));
    cstl_hash_swap(&h, &h2);
    CHECK(cstl_hash_size(&h) == 0 && cstl_hash_size(&h2) == N - 1);
    cstl_hash_clear(&h2, NULL);
    CHECK(cstl_hash_size(&h2) == 0);

    printf("ok\n");
    return 0;
}
#endif
