/*
 * C05: shared memory is destroyed exactly once, exactly when its last
 * owner lets go.
 *
 * Model based test that uses only the public API of cstl/memory.h.  The
 * program is linked with -Wl,--wrap=malloc,... so that it can watch the
 * allocator from the outside: every block handed out and every block given
 * back is recorded, allocation failures can be injected, and the release of
 * managed memory is checked against a reference model at the moment it
 * happens (inside free()) and again after every single operation.
 *
 * Phases:
 *   1. exhaustive enumeration of all operation sequences up to a small
 *      depth over a small pool (full op set), and a deeper one over a
 *      reduced op set
 *   2. seeded random histories over a bigger pool of shared, weak and
 *      unique pointers, with injected allocation failures
 *   3. clear callbacks that themselves reset other shared pointers
 *      (a chain of nodes that own each other)
 *   4. threads that lock / share / reset their own pointer objects which
 *      refer to common allocations
 */
#include "cstl/memory.h"

#include <stdio.h>
#include <stdlib.h>
#include <string.h>
#include <stdint.h>
#include <stdbool.h>
#include <stdatomic.h>
#include <pthread.h>
#include <unistd.h>

/* ------------------------------------------------------------------ */
/* allocator instrumentation                                           */

void * __real_malloc(size_t);
void * __real_calloc(size_t, size_t);
void * __real_realloc(void *, size_t);
void __real_free(void *);

#define TBL_BITS 16
#define TBL_SIZE (1u << TBL_BITS)
static void * tbl[TBL_SIZE];
static long live_blocks;
static long fail_at;         /* >0: the fail_at'th malloc from now fails */
static int fail_fired;
static pthread_mutex_t tbl_mtx = PTHREAD_MUTEX_INITIALIZER;

static void die(const char * const what, const long a, const long b)
{
    fprintf(stderr, "FAIL: %s (%ld, %ld)\n", what, a, b);
    fflush(stderr);
    _exit(1);
}


static unsigned tbl_hash(const void * const p)
{
    uint64_t x = (uint64_t)(uintptr_t)p;
    x ^= x >> 33; x *= 0xff51afd7ed558ccdULL; x ^= x >> 29;
    return (unsigned)x & (TBL_SIZE - 1);
}

static void tbl_insert(void * const p)
{
    unsigned i;
    pthread_mutex_lock(&tbl_mtx);
    if (live_blocks > (long)(TBL_SIZE / 2)) {
        die("too many live blocks", live_blocks, 0);
    }
    for (i = tbl_hash(p); tbl[i] != NULL; i = (i + 1) & (TBL_SIZE - 1)) {
        if (tbl[i] == p) {
            die("allocator returned a live block", 0, 0);
        }
    }
    tbl[i] = p;
    live_blocks++;
    pthread_mutex_unlock(&tbl_mtx);
}

static void tbl_remove(void * const p)
{
    unsigned i, j;
    pthread_mutex_lock(&tbl_mtx);
    for (i = tbl_hash(p); tbl[i] != p; i = (i + 1) & (TBL_SIZE - 1)) {
        if (tbl[i] == NULL) {
            die("free of a block that is not live (double free?)", 0, 0);
        }
    }
    /* backward shift deletion */
    tbl[i] = NULL;
    for (j = (i + 1) & (TBL_SIZE - 1); tbl[j] != NULL;
         j = (j + 1) & (TBL_SIZE - 1)) {
        void * const q = tbl[j];
        unsigned k;
        tbl[j] = NULL;
        for (k = tbl_hash(q); tbl[k] != NULL; k = (k + 1) & (TBL_SIZE - 1))
            ;
        tbl[k] = q;
    }
    live_blocks--;
    pthread_mutex_unlock(&tbl_mtx);
}

static bool inject(void)
{
    if (fail_at > 0) {
        if (--fail_at == 0) {
            fail_fired = 1;
            return true;
        }
    }
    return false;
}

static void model_on_free(void *);

void * __wrap_malloc(const size_t n)
{
    void * p;
    if (inject()) {
        return NULL;
    }
    p = __real_malloc(n);
    if (p != NULL) {
        tbl_insert(p);
    }
    return p;
}

void * __wrap_calloc(const size_t n, const size_t m)
{
    void * p;
    if (inject()) {
        return NULL;
    }
    p = __real_calloc(n, m);
    if (p != NULL) {
        tbl_insert(p);
    }
    return p;
}

void * __wrap_realloc(void * const o, const size_t n)
{
    void * p;
    if (inject()) {
        return NULL;
    }
    if (o != NULL) {
        model_on_free(o);
        tbl_remove(o);
    }
    p = __real_realloc(o, n);
    if (p != NULL) {
        tbl_insert(p);
    } else if (o != NULL && n != 0) {
        tbl_insert(o);
    }
    return p;
}

void __wrap_free(void * const p)
{
    if (p == NULL) {
        return;
    }
    model_on_free(p);
    tbl_remove(p);
    __real_free(p);
}

/* ------------------------------------------------------------------ */
/* reference model                                                     */

#define NS 4
#define NW 3
#define NU 3
#define MAXA 256

struct alloc
{
    void * mem;
    size_t sz;
    int shared;           /* 1: shared allocation, 0: unique allocation */
    int has_clr;
    int hard, weak;       /* model's counts */
    int dead;             /* model says it must be gone */
    int clr_cnt, free_cnt;
    unsigned char pat;
};

static struct alloc A[MAXA];
static int nA;
static int model_active;

/* half the pool is initialised statically, the other half at run time */
static cstl_shared_ptr_t S[NS] = {
    CSTL_SHARED_PTR_INITIALIZER(S[0]),
    CSTL_SHARED_PTR_INITIALIZER(S[1]),
};
static cstl_weak_ptr_t W[NW] = {
    CSTL_WEAK_PTR_INITIALIZER(W[0]),
};
static cstl_unique_ptr_t U[NU] = {
    CSTL_UNIQUE_PTR_INITIALIZER(U[0]),
};
static int s_of[NS], w_of[NW], u_of[NU];

static long base_blocks;
static unsigned long n_ops, n_seqs;

static int find_alloc(const void * const mem)
{
    int i;
    for (i = nA - 1; i >= 0; i--) {
        if (A[i].mem == mem && A[i].free_cnt == 0) {
            return i;
        }
    }
    return -1;
}

static void check_pattern(const struct alloc * const a)
{
    size_t i;
    const unsigned char * const p = a->mem;
    for (i = 0; i < a->sz; i++) {
        if (p[i] != a->pat) {
            die("managed memory was clobbered before its destruction",
                (long)i, p[i]);
        }
    }
}

static void model_on_free(void * const p)
{
    int i;
    if (!model_active) {
        return;
    }
    i = find_alloc(p);
    if (i < 0) {
        return; /* a bookkeeping block */
    }
    if (!A[i].dead) {
        die("managed memory released while it still has an owner",
            i, A[i].hard);
    }
    if (A[i].clr_cnt != A[i].has_clr) {
        die("managed memory released before its clear callback ran",
            i, A[i].clr_cnt);
    }
    A[i].free_cnt++;
}

static void on_clear(const int i, void * const mem)
{
    if (i < 0 || i >= nA || A[i].mem != mem) {
        die("clear callback for an unknown address", i, 0);
    }
    if (!A[i].has_clr) {
        die("clear callback for an allocation that has none", i, 0);
    }
    if (!A[i].dead) {
        die("clear callback ran while the memory still has an owner",
            i, A[i].hard);
    }
    if (A[i].clr_cnt != 0 || A[i].free_cnt != 0) {
        die("clear callback ran twice or after the release",
            A[i].clr_cnt, A[i].free_cnt);
    }
    check_pattern(&A[i]);
    A[i].clr_cnt++;
}

static void shared_clr(void * const mem, void * const priv)
{
    (void)priv;
    on_clear(find_alloc(mem), mem);
}

static void unique_clr(void * const mem, void * const priv)
{
    on_clear((int)(intptr_t)priv, mem);
}

static int new_alloc(const int shared, const int has_clr)
{
    struct alloc * a;
    if (nA >= MAXA) {
        die("model table full", nA, 0);
    }
    a = &A[nA];
    memset(a, 0, sizeof(*a));
    a->shared = shared;
    a->has_clr = has_clr;
    a->pat = (unsigned char)(0x11 + 7 * nA);
    return nA++;
}

static void bind_alloc(const int i, void * const mem, const size_t sz)
{
    if (mem == NULL) {
        die("allocation did not yield memory", i, (long)sz);
    }
    if (find_alloc(mem) >= 0) {
        die("new allocation aliases a live one", i, 0);
    }
    A[i].mem = mem;
    A[i].sz = sz;
    memset(mem, A[i].pat, sz);
}

static void drop_shared(const int s)
{
    const int a = s_of[s];
    if (a >= 0) {
        if (--A[a].hard == 0) {
            A[a].dead = 1;
        }
        s_of[s] = -1;
    }
}

static void drop_weak(const int w)
{
    const int a = w_of[w];
    if (a >= 0) {
        A[a].weak--;
        w_of[w] = -1;
    }
}

static void verify(const char * const where)
{
    int i;
    long expect = base_blocks;

    for (i = 0; i < nA; i++) {
        const struct alloc * const a = &A[i];
        if (a->mem == NULL) {
            continue; /* allocation that failed */
        }
        if (a->dead) {
            if (a->clr_cnt != a->has_clr || a->free_cnt != 1) {
                fprintf(stderr, "%s: ", where);
                die("memory without an owner was not destroyed exactly once",
                    a->clr_cnt, a->free_cnt);
            }
        } else {
            if (a->clr_cnt != 0 || a->free_cnt != 0) {
                fprintf(stderr, "%s: ", where);
                die("owned memory was destroyed", a->clr_cnt, a->free_cnt);
            }
            check_pattern(a);
            expect++;
        }
        if (a->shared && a->hard + a->weak > 0) {
            expect++;
        }
    }
    if (live_blocks != expect) {
        fprintf(stderr, "%s: ", where);
        die("number of live heap blocks is wrong", live_blocks, expect);
    }

    for (i = 0; i < NS; i++) {
        const void * const want = (s_of[i] >= 0) ? A[s_of[i]].mem : NULL;
        bool uniq = true;
        if (cstl_shared_ptr_get_const(&S[i]) != want
            || cstl_shared_ptr_get(&S[i]) != want) {
            fprintf(stderr, "%s: ", where);
            die("shared pointer get() is wrong", i, s_of[i]);
        }
        if (s_of[i] >= 0) {
            uniq = (A[s_of[i]].hard + A[s_of[i]].weak == 1);
        }
        if (cstl_shared_ptr_unique(&S[i]) != uniq) {
            fprintf(stderr, "%s: ", where);
            die("unique() is wrong", i, uniq);
        }
    }
    for (i = 0; i < NU; i++) {
        const void * const want = (u_of[i] >= 0) ? A[u_of[i]].mem : NULL;
        if (cstl_unique_ptr_get_const(&U[i]) != want
            || cstl_unique_ptr_get(&U[i]) != want) {
            fprintf(stderr, "%s: ", where);
            die("unique pointer get() is wrong", i, u_of[i]);
        }
    }
}

/* ------------------------------------------------------------------ */
/* operations                                                          */

enum
{
    OP_ALLOC,       /* a: shared, b: flavour (0 clr, 1 no clr, 2 size 0) */
    OP_ALLOC_FAIL,  /* a: shared, b: which malloc fails (1, 2) */
    OP_SHARE,       /* a: existing, b: new */
    OP_SWAP,        /* a, b: shared */
    OP_RESET,       /* a: shared */
    OP_FROM,        /* a: weak, b: shared */
    OP_LOCK,        /* a: weak, b: shared */
    OP_WRESET,      /* a: weak */
    OP_WSWAP,       /* a, b: weak */
    OP_UALLOC,      /* a: unique, b: flavour */
    OP_UALLOC_FAIL, /* a: unique */
    OP_URESET,      /* a: unique */
    OP_USWAP,       /* a, b: unique */
    OP_URELEASE,    /* a: unique, b: which out parameters are NULL */
    OP_KINDS
};

struct op
{
    int kind, a, b;
};

static const size_t sizes[] = { 1, 2, 7, 8, 16, 24, 100, 4096 };

static void do_op(const struct op * const o)
{
    const int a = o->a, b = o->b;
    n_ops++;

    switch (o->kind) {
    case OP_ALLOC: {
        const size_t sz = (b == 2) ? 0 : sizes[n_ops % 8];
        int id = -1;
        drop_shared(a);
        if (sz > 0) {
            id = new_alloc(1, b == 0);
            A[id].hard = 1;
        }
        cstl_shared_ptr_alloc(&S[a], sz, (b == 0) ? shared_clr : NULL);
        if (id >= 0) {
            s_of[a] = id;
            bind_alloc(id, cstl_shared_ptr_get(&S[a]), sz);
        }
        break;
    }
    case OP_ALLOC_FAIL: {
        const size_t sz = sizes[n_ops % 8];
        int id;
        drop_shared(a);
        id = new_alloc(1, 1);
        /* keep the id out of reach until we know whether it exists */
        nA--;
        fail_fired = 0;
        fail_at = b;
        cstl_shared_ptr_alloc(&S[a], sz, shared_clr);
        fail_at = 0;
        if (fail_fired) {
            if (cstl_shared_ptr_get(&S[a]) != NULL) {
                die("allocation failure left the pointer occupied", a, b);
            }
        } else {
            nA++;
            A[id].hard = 1;
            s_of[a] = id;
            bind_alloc(id, cstl_shared_ptr_get(&S[a]), sz);
        }
        break;
    }
    case OP_SHARE:
        if (a == b) {
            drop_shared(b);
        } else {
            const int t = s_of[a];
            drop_shared(b);
            s_of[b] = t;
            if (t >= 0) {
                A[t].hard++;
            }
        }
        cstl_shared_ptr_share(&S[a], &S[b]);
        break;
    case OP_SWAP: {
        const int t = s_of[a];
        s_of[a] = s_of[b];
        s_of[b] = t;
        cstl_shared_ptr_swap(&S[a], &S[b]);
        break;
    }
    case OP_RESET:
        drop_shared(a);
        cstl_shared_ptr_reset(&S[a]);
        break;
    case OP_FROM:
        drop_weak(a);
        w_of[a] = s_of[b];
        if (w_of[a] >= 0) {
            A[w_of[a]].weak++;
        }
        cstl_weak_ptr_from(&W[a], &S[b]);
        break;
    case OP_LOCK: {
        int t;
        drop_shared(b);
        t = w_of[a];
        if (t >= 0 && !A[t].dead) {
            s_of[b] = t;
            A[t].hard++;
        }
        cstl_weak_ptr_lock(&W[a], &S[b]);
        break;
    }
    case OP_WRESET:
        drop_weak(a);
        cstl_weak_ptr_reset(&W[a]);
        break;
    case OP_WSWAP: {
        const int t = w_of[a];
        w_of[a] = w_of[b];
        w_of[b] = t;
        cstl_weak_ptr_swap(&W[a], &W[b]);
        break;
    }
    case OP_UALLOC: {
        const size_t sz = (b == 2) ? 0 : sizes[n_ops % 8];
        int id = -1;
        if (u_of[a] >= 0) {
            A[u_of[a]].dead = 1;
            u_of[a] = -1;
        }
        if (sz > 0) {
            id = new_alloc(0, b == 0);
        }
        cstl_unique_ptr_alloc(&U[a], sz, (b == 0) ? unique_clr : NULL,
                              (void *)(intptr_t)id);
        if (id >= 0) {
            u_of[a] = id;
            bind_alloc(id, cstl_unique_ptr_get(&U[a]), sz);
        }
        break;
    }
    case OP_UALLOC_FAIL: {
        if (u_of[a] >= 0) {
            A[u_of[a]].dead = 1;
            u_of[a] = -1;
        }
        fail_fired = 0;
        fail_at = 1;
        cstl_unique_ptr_alloc(&U[a], sizes[n_ops % 8], unique_clr,
                              (void *)(intptr_t)-1);
        fail_at = 0;
        if (!fail_fired) {
            die("unique alloc did not call the allocator", a, 0);
        }
        if (cstl_unique_ptr_get(&U[a]) != NULL) {
            die("allocation failure left the unique pointer occupied", a, 0);
        }
        break;
    }
    case OP_URESET:
        if (u_of[a] >= 0) {
            A[u_of[a]].dead = 1;
            u_of[a] = -1;
        }
        cstl_unique_ptr_reset(&U[a]);
        break;
    case OP_USWAP: {
        const int t = u_of[a];
        u_of[a] = u_of[b];
        u_of[b] = t;
        cstl_unique_ptr_swap(&U[a], &U[b]);
        break;
    }
    case OP_URELEASE: {
        cstl_xtor_func_t * clr = shared_clr;
        void * priv = &clr;
        void * p;
        const int id = u_of[a];
        p = cstl_unique_ptr_release(&U[a], (b & 1) ? NULL : &clr,
                                    (b & 2) ? NULL : &priv);
        if (cstl_unique_ptr_get(&U[a]) != NULL) {
            die("released unique pointer still holds something", a, 0);
        }
        if (id < 0) {
            if (p != NULL) {
                die("release of an empty unique pointer gave memory", a, 0);
            }
            break;
        }
        if (p != A[id].mem) {
            die("release gave the wrong address", a, id);
        }
        if (!(b & 1) && clr != (A[id].has_clr ? unique_clr : NULL)) {
            die("release gave the wrong clear function", a, id);
        }
        if (!(b & 2) && priv != (void *)(intptr_t)id) {
            die("release gave the wrong private pointer", a, id);
        }
        /* the library must not have touched it */
        if (A[id].clr_cnt != 0 || A[id].free_cnt != 0) {
            die("release destroyed the memory", a, id);
        }
        u_of[a] = -1;
        A[id].dead = 1;
        /* now we are the owner: destroy it ourselves */
        if (A[id].has_clr) {
            unique_clr(p, (void *)(intptr_t)id);
        }
        free(p);
        break;
    }
    default:
        die("bad op", o->kind, 0);
    }
}

static void begin_seq(void)
{
    int i;
    nA = 0;
    for (i = 0; i < NS; i++) s_of[i] = -1;
    for (i = 0; i < NW; i++) w_of[i] = -1;
    for (i = 0; i < NU; i++) u_of[i] = -1;
    if (live_blocks != base_blocks) {
        die("history does not start from a clean heap", live_blocks, 0);
    }
}

static void end_seq(const unsigned order)
{
    /* reset every pointer, in one of several orders */
    int i;
    struct op o;
    const int weak_first = order & 1;
    const int backwards = (order >> 1) & 1;
    int pass;

    for (pass = 0; pass < 2; pass++) {
        if ((pass == 0) == (weak_first != 0)) {
            for (i = 0; i < NW; i++) {
                o.kind = OP_WRESET;
                o.a = backwards ? NW - 1 - i : i;
                o.b = 0;
                do_op(&o);
                verify("final weak reset");
            }
        } else {
            for (i = 0; i < NS; i++) {
                o.kind = OP_RESET;
                o.a = backwards ? NS - 1 - i : i;
                o.b = 0;
                do_op(&o);
                verify("final reset");
            }
        }
    }
    for (i = 0; i < NU; i++) {
        o.kind = OP_URESET;
        o.a = i;
        o.b = 0;
        do_op(&o);
    }
    verify("end");
    for (i = 0; i < nA; i++) {
        if (A[i].mem != NULL && !A[i].dead) {
            die("model: allocation survived a full reset", i, 0);
        }
    }
    if (live_blocks != base_blocks) {
        die("a history that resets every pointer leaked", live_blocks,
            base_blocks);
    }
    n_seqs++;
}

/* ------------------------------------------------------------------ */
/* phase 1: exhaustive                                                 */

static struct op ops[512];
static int n_opset;

static void add_op(const int kind, const int a, const int b)
{
    ops[n_opset].kind = kind;
    ops[n_opset].a = a;
    ops[n_opset].b = b;
    n_opset++;
}

static void build_opset(const int ns, const int nw, const int nu,
                        const int full)
{
    int i, j;
    n_opset = 0;
    for (i = 0; i < ns; i++) {
        add_op(OP_ALLOC, i, 0);
        if (full) {
            add_op(OP_ALLOC, i, 1);
            add_op(OP_ALLOC, i, 2);
            add_op(OP_ALLOC_FAIL, i, 1);
            add_op(OP_ALLOC_FAIL, i, 2);
        }
        add_op(OP_RESET, i, 0);
        for (j = 0; j < ns; j++) {
            add_op(OP_SHARE, i, j);
            if (j >= i && (full || j != i)) {
                add_op(OP_SWAP, i, j);
            }
        }
        for (j = 0; j < nw; j++) {
            add_op(OP_FROM, j, i);
            add_op(OP_LOCK, j, i);
        }
    }
    for (i = 0; i < nw; i++) {
        add_op(OP_WRESET, i, 0);
        for (j = i; j < nw; j++) {
            if (full || j != i) {
                add_op(OP_WSWAP, i, j);
            }
        }
    }
    for (i = 0; i < nu; i++) {
        add_op(OP_UALLOC, i, 0);
        add_op(OP_UALLOC, i, 1);
        add_op(OP_UALLOC, i, 2);
        add_op(OP_UALLOC_FAIL, i, 0);
        add_op(OP_URESET, i, 0);
        add_op(OP_URELEASE, i, 0);
        add_op(OP_URELEASE, i, 3);
        for (j = i; j < nu; j++) {
            add_op(OP_USWAP, i, j);
        }
    }
}

static void exhaustive(const int depth)
{
    int idx[16];
    int d;

    for (d = 0; d < depth; d++) idx[d] = 0;
    for (;;) {
        begin_seq();
        for (d = 0; d < depth; d++) {
            do_op(&ops[idx[d]]);
            verify("exhaustive");
        }
        end_seq((unsigned)(idx[0] + idx[depth - 1]));

        for (d = depth - 1; d >= 0; d--) {
            if (++idx[d] < n_opset) break;
            idx[d] = 0;
        }
        if (d < 0) break;
    }
}

/* ------------------------------------------------------------------ */
/* phase 2: seeded random                                              */

static uint64_t rng_state;
static unsigned rnd(void)
{
    rng_state ^= rng_state << 13;
    rng_state ^= rng_state >> 7;
    rng_state ^= rng_state << 17;
    return (unsigned)(rng_state >> 20);
}

static void random_histories(const uint64_t seed, const int count,
                             const int maxlen)
{
    int n;
    rng_state = seed * 0x9e3779b97f4a7c15ULL + 1;
    for (n = 0; n < count; n++) {
        const int len = 1 + (int)(rnd() % (unsigned)maxlen);
        /* some histories avoid the unique pointers, some the weak ones */
        const unsigned flavour = rnd() % 4;
        int k;
        begin_seq();
        for (k = 0; k < len; k++) {
            struct op o;
            unsigned r = rnd() % 100;
            if (flavour == 1 && r >= 80) r %= 80;
            if (r < 14) {
                o.kind = OP_ALLOC; o.a = rnd() % NS; o.b = rnd() % 8;
                o.b = (o.b < 5) ? 0 : (o.b < 7) ? 1 : 2;
            } else if (r < 17) {
                o.kind = OP_ALLOC_FAIL; o.a = rnd() % NS; o.b = 1 + rnd() % 3;
            } else if (r < 32) {
                o.kind = OP_SHARE; o.a = rnd() % NS; o.b = rnd() % NS;
            } else if (r < 40) {
                o.kind = OP_SWAP; o.a = rnd() % NS; o.b = rnd() % NS;
            } else if (r < 50) {
                o.kind = OP_RESET; o.a = rnd() % NS; o.b = 0;
            } else if (r < 60) {
                o.kind = OP_FROM; o.a = rnd() % NW; o.b = rnd() % NS;
            } else if (r < 70) {
                o.kind = OP_LOCK; o.a = rnd() % NW; o.b = rnd() % NS;
            } else if (r < 75) {
                o.kind = OP_WRESET; o.a = rnd() % NW; o.b = 0;
            } else if (r < 80) {
                o.kind = OP_WSWAP; o.a = rnd() % NW; o.b = rnd() % NW;
            } else if (r < 86) {
                o.kind = OP_UALLOC; o.a = rnd() % NU; o.b = rnd() % 3;
            } else if (r < 88) {
                o.kind = OP_UALLOC_FAIL; o.a = rnd() % NU; o.b = 0;
            } else if (r < 92) {
                o.kind = OP_URESET; o.a = rnd() % NU; o.b = 0;
            } else if (r < 96) {
                o.kind = OP_USWAP; o.a = rnd() % NU; o.b = rnd() % NU;
            } else {
                o.kind = OP_URELEASE; o.a = rnd() % NU; o.b = rnd() % 4;
            }
            if (flavour == 2
                && (o.kind == OP_FROM || o.kind == OP_LOCK)) {
                o.kind = OP_SHARE; o.a = rnd() % NS;
            }
            do_op(&o);
            verify("random");
        }
        end_seq(rnd());
    }
}

/* ------------------------------------------------------------------ */
/* phase 3: clear callbacks that use other pointer objects             */

struct node
{
    cstl_shared_ptr_t next;
    cstl_unique_ptr_t extra;
    int id;
};

static int chain_next_id, chain_cleared, extra_cleared;

static void extra_clr(void * const mem, void * const priv)
{
    if (*(int *)mem != (int)(intptr_t)priv) {
        die("chain: extra payload is wrong", *(int *)mem, 0);
    }
    extra_cleared++;
}

static void node_clr(void * const mem, void * const priv)
{
    struct node * const n = mem;
    (void)priv;
    if (n->id != chain_next_id) {
        die("chain: nodes destroyed out of order or twice", n->id,
            chain_next_id);
    }
    chain_next_id++;
    chain_cleared++;
    /* letting go of the next node may destroy it, recursively */
    cstl_unique_ptr_reset(&n->extra);
    cstl_shared_ptr_reset(&n->next);
}

static void chain(const int len)
{
    DECLARE_CSTL_SHARED_PTR(head);
    DECLARE_CSTL_SHARED_PTR(tmp);
    DECLARE_CSTL_SHARED_PTR(mid);
    cstl_weak_ptr_t * wk;
    int i;
    const long before = live_blocks;

    wk = __real_malloc(sizeof(*wk) * (size_t)len);
    chain_next_id = 0;
    chain_cleared = 0;
    extra_cleared = 0;

    /* build back to front: ids len-1 .. 0, head ends up as id 0 */
    for (i = len - 1; i >= 0; i--) {
        struct node * n;
        cstl_shared_ptr_alloc(&tmp, sizeof(struct node), node_clr);
        n = cstl_shared_ptr_get(&tmp);
        if (n == NULL) die("chain: alloc failed", i, 0);
        n->id = i;
        cstl_shared_ptr_init(&n->next);
        cstl_unique_ptr_init(&n->extra);
        cstl_unique_ptr_alloc(&n->extra, sizeof(int), extra_clr,
                              (void *)(intptr_t)i);
        *(int *)cstl_unique_ptr_get(&n->extra) = i;
        /* node takes over the current head */
        cstl_shared_ptr_swap(&n->next, &head);
        cstl_shared_ptr_swap(&head, &tmp);
        cstl_weak_ptr_init(&wk[i]);
        cstl_weak_ptr_from(&wk[i], &head);
        if (i == len / 2) {
            cstl_shared_ptr_share(&head, &mid);
        }
    }
    if (live_blocks != before + 3L * len) {
        die("chain: unexpected number of blocks", live_blocks, before);
    }
    if (cstl_shared_ptr_unique(&head)) {
        die("chain: head with a weak reference claims to be unique", 0, 0);
    }

    /* first half goes; the second half is kept alive by 'mid' */
    cstl_shared_ptr_reset(&head);
    if (chain_cleared != len / 2 || extra_cleared != len / 2) {
        die("chain: first half not destroyed exactly", chain_cleared, len / 2);
    }
    for (i = 0; i < len; i++) {
        cstl_weak_ptr_lock(&wk[i], &tmp);
        if ((cstl_shared_ptr_get(&tmp) != NULL) != (i >= len / 2)) {
            die("chain: lock disagrees with liveness", i, 0);
        }
        if (i >= len / 2
            && ((struct node *)cstl_shared_ptr_get(&tmp))->id != i) {
            die("chain: lock gave the wrong node", i, 0);
        }
    }
    /* tmp now co-owns the last node */
    cstl_shared_ptr_reset(&mid);
    if (chain_cleared != len - 1) {
        die("chain: all but the last node should be gone", chain_cleared, len);
    }
    cstl_shared_ptr_reset(&tmp);
    if (chain_cleared != len || extra_cleared != len) {
        die("chain: not every node destroyed once", chain_cleared, len);
    }
    if (live_blocks != before + len) {
        die("chain: only bookkeeping blocks should remain", live_blocks,
            before + len);
    }
    for (i = 0; i < len; i++) {
        cstl_weak_ptr_lock(&wk[i], &tmp);
        if (cstl_shared_ptr_get(&tmp) != NULL) {
            die("chain: lock of an expired weak pointer succeeded", i, 0);
        }
        cstl_weak_ptr_reset(&wk[i]);
        cstl_weak_ptr_reset(&wk[i]);
    }
    if (live_blocks != before) {
        die("chain: leak", live_blocks, before);
    }
    __real_free(wk);
}

/* ------------------------------------------------------------------ */
/* phase 4: threads                                                    */

#define NT 4
#define NCOMMON 8

static atomic_int common_cleared[NCOMMON];
static atomic_int private_cleared;
static atomic_int go;

struct targ
{
    cstl_shared_ptr_t own[NCOMMON];
    cstl_weak_ptr_t weak[NCOMMON];
    int iters;
    unsigned seed;
    long locked, missed;
};

static void common_clr(void * const mem, void * const priv)
{
    (void)priv;
    atomic_fetch_add(&common_cleared[*(int *)mem], 1);
    *(int *)mem = -1;
}

static void private_clr(void * const mem, void * const priv)
{
    (void)priv;
    if (*(int *)mem != 77) {
        die("thread: private payload clobbered", *(int *)mem, 0);
    }
    atomic_fetch_add(&private_cleared, 1);
}

static void * worker(void * const arg)
{
    struct targ * const t = arg;
    DECLARE_CSTL_SHARED_PTR(a);
    DECLARE_CSTL_SHARED_PTR(b);
    DECLARE_CSTL_SHARED_PTR(p);
    DECLARE_CSTL_WEAK_PTR(pw);
    unsigned s = t->seed;
    int i;

    while (!atomic_load(&go))
        ;
    for (i = 0; i < t->iters; i++) {
        int k;
        s = s * 1103515245u + 12345u;
        k = (int)((s >> 16) % NCOMMON);

        cstl_weak_ptr_lock(&t->weak[k], &a);
        if (cstl_shared_ptr_get(&a) != NULL) {
            const int * const v = cstl_shared_ptr_get_const(&a);
            if (*v != k) {
                die("thread: locked memory is not live", *v, k);
            }
            cstl_shared_ptr_share(&a, &b);
            if (cstl_shared_ptr_get(&b) != cstl_shared_ptr_get(&a)) {
                die("thread: co-owners disagree", k, 0);
            }
            cstl_shared_ptr_reset(&a);
            if (*(const int *)cstl_shared_ptr_get_const(&b) != k) {
                die("thread: memory died under an owner", k, 0);
            }
            cstl_shared_ptr_reset(&b);
            t->locked++;
        } else {
            t->missed++;
        }

        /* let go of the thread's own hold on one of them now and then */
        if (((s >> 8) & 0x3f) == 0) {
            cstl_shared_ptr_reset(&t->own[k]);
        }

        /* a private allocation going through the same motions */
        if ((i & 3) == 0) {
            cstl_shared_ptr_alloc(&p, sizeof(int), private_clr);
            *(int *)cstl_shared_ptr_get(&p) = 77;
            cstl_weak_ptr_from(&pw, &p);
            cstl_weak_ptr_lock(&pw, &a);
            if (cstl_shared_ptr_get(&a) != cstl_shared_ptr_get(&p)) {
                die("thread: private lock failed", i, 0);
            }
            cstl_shared_ptr_reset(&p);
            cstl_shared_ptr_reset(&a);
            cstl_weak_ptr_lock(&pw, &a);
            if (cstl_shared_ptr_get(&a) != NULL) {
                die("thread: private lock of expired succeeded", i, 0);
            }
            cstl_weak_ptr_reset(&pw);
        }
    }
    return NULL;
}

static void threads(const int iters, const unsigned seed)
{
    static struct targ T[NT];
    pthread_t th[NT];
    cstl_shared_ptr_t master[NCOMMON];
    int i, k;
    long expect_private;
    const long before = live_blocks;

    atomic_store(&go, 0);
    atomic_store(&private_cleared, 0);
    for (k = 0; k < NCOMMON; k++) {
        atomic_store(&common_cleared[k], 0);
        cstl_shared_ptr_init(&master[k]);
        cstl_shared_ptr_alloc(&master[k], sizeof(int), common_clr);
        *(int *)cstl_shared_ptr_get(&master[k]) = k;
    }
    for (i = 0; i < NT; i++) {
        T[i].iters = iters;
        T[i].seed = seed + 977u * (unsigned)i;
        T[i].locked = T[i].missed = 0;
        for (k = 0; k < NCOMMON; k++) {
            cstl_shared_ptr_init(&T[i].own[k]);
            cstl_weak_ptr_init(&T[i].weak[k]);
            cstl_shared_ptr_share(&master[k], &T[i].own[k]);
            cstl_weak_ptr_from(&T[i].weak[k], &master[k]);
        }
    }
    for (k = 0; k < NCOMMON; k++) {
        cstl_shared_ptr_reset(&master[k]);
        if (atomic_load(&common_cleared[k]) != 0) {
            die("thread: destroyed while threads own it", k, 0);
        }
    }
    for (i = 0; i < NT; i++) {
        if (pthread_create(&th[i], NULL, worker, &T[i]) != 0) {
            die("pthread_create", i, 0);
        }
    }
    atomic_store(&go, 1);
    for (i = 0; i < NT; i++) {
        pthread_join(th[i], NULL);
    }
    for (i = 0; i < NT; i++) {
        for (k = 0; k < NCOMMON; k++) {
            DECLARE_CSTL_SHARED_PTR(x);
            cstl_shared_ptr_reset(&T[i].own[k]);
            cstl_weak_ptr_lock(&T[i].weak[k], &x);
            if ((cstl_shared_ptr_get(&x) != NULL)
                != (atomic_load(&common_cleared[k]) == 0)) {
                die("thread: lock disagrees with destruction", i, k);
            }
            cstl_shared_ptr_reset(&x);
        }
    }
    for (k = 0; k < NCOMMON; k++) {
        if (atomic_load(&common_cleared[k]) != 1) {
            die("thread: common memory not destroyed exactly once", k,
                atomic_load(&common_cleared[k]));
        }
    }
    for (i = 0; i < NT; i++) {
        for (k = 0; k < NCOMMON; k++) {
            cstl_weak_ptr_reset(&T[i].weak[k]);
        }
    }
    expect_private = (long)NT * ((iters + 3) / 4);
    if (atomic_load(&private_cleared) != expect_private) {
        die("thread: private memory not destroyed exactly once each",
            atomic_load(&private_cleared), expect_private);
    }
    if (live_blocks != before) {
        die("thread: leak", live_blocks, before);
    }
}

/* ------------------------------------------------------------------ */

int main(void)
{
    int i;

    for (i = 2; i < NS; i++) cstl_shared_ptr_init(&S[i]);
    for (i = 1; i < NW; i++) cstl_weak_ptr_init(&W[i]);
    for (i = 1; i < NU; i++) cstl_unique_ptr_init(&U[i]);

    setvbuf(stdout, NULL, _IONBF, 0);
    base_blocks = live_blocks;
    model_active = 1;

    /* everything, small pool, depth 3 */
    build_opset(2, 2, 1, 1);
    exhaustive(1);
    exhaustive(2);
    exhaustive(3);
    printf("exhaustive full opset (%d ops) to depth 3: %lu histories\n",
           n_opset, n_seqs);

    /* shared/weak only, depth 4 with the full set of flavours */
    build_opset(2, 1, 0, 1);
    exhaustive(4);
    printf("exhaustive shared/weak opset (%d ops) depth 4: %lu histories\n",
           n_opset, n_seqs);

    /* reduced set, deeper */
    build_opset(2, 1, 0, 0);
    exhaustive(5);
    printf("exhaustive reduced opset (%d ops) depth 5: %lu histories\n",
           n_opset, n_seqs);

    /* three owners, two weak: reduced, depth 4 */
    build_opset(3, 2, 0, 0);
    exhaustive(4);
    printf("exhaustive 3 shared/2 weak (%d ops) depth 4: %lu histories\n",
           n_opset, n_seqs);

    for (i = 1; i <= 6; i++) {
        random_histories((uint64_t)i, 4000, (i <= 3) ? 40 : 200);
    }
    printf("random: %lu histories, %lu operations in total\n", n_seqs, n_ops);

    model_active = 0;
    chain(1);
    chain(2);
    chain(9);
    chain(1000);
    printf("chain ok\n");

    threads(20000, 1u);
    threads(20000, 4242u);
    printf("threads ok\n");

    if (live_blocks != base_blocks) {
        die("leak at exit", live_blocks, base_blocks);
    }
    printf("PASS\n");
    return 0;
}
