/*
 * C08 / change c (map nodes are carved out of chunks of eight).
 * The map keeps exactly one entry per key and never replaces or loses
 * one silently.
 *
 * Public API only. A reference model (present flag + stored key and value
 * pointers per key of a small universe) is kept next to the map and compared
 * after every operation:
 *  - insert of a new key returns 0 and an iterator with the given pointers;
 *  - insert of an existing key returns 1, the iterator holds the pointers
 *    stored FIRST (a different key object comparing equal is used on purpose)
 *    and nothing is replaced;
 *  - find yields the stored pointers or an iterator equal to end;
 *  - erase returns 0 / the stored pointers / an iterator equal to end, or -1
 *    with an end iterator; erase by iterator removes exactly that entry;
 *  - size always matches; clear calls back once per entry with the stored
 *    pointers and the private pointer, and afterwards nothing the map
 *    allocated is left (malloc/free are wrapped with the linker's --wrap).
 * Allocation failures are injected as well: a new key then gives 0 or -1
 * (and the map agrees with that), an existing key still gives 1.
 *
 * Part 1: every sequence of up to 5 operations over a universe of 3 keys.
 * Part 2: long seeded random runs over larger universes.
 * Nothing depends on tree shape, comparison order/count, callback order or
 * on how many allocations the map makes.
 */
#include "cstl/map.h"

#include <stdint.h>
#include <stdio.h>
#include <stdlib.h>
#include <string.h>

/* allocation accounting and failure injection */
void * __real_malloc(size_t);
void * __real_calloc(size_t, size_t);
void * __real_realloc(void *, size_t);
void __real_free(void *);

static long live;
static int failing;

void * __wrap_malloc(const size_t n)
{
    void * p;
    if (failing) {
        return NULL;
    }
    p = __real_malloc(n);
    if (p != NULL) {
        live++;
    }
    return p;
}

void * __wrap_calloc(const size_t n, const size_t m)
{
    void * p;
    if (failing) {
        return NULL;
    }
    p = __real_calloc(n, m);
    if (p != NULL) {
        live++;
    }
    return p;
}

void * __wrap_realloc(void * const o, const size_t n)
{
    void * p;
    if (failing) {
        return NULL;
    }
    p = __real_realloc(o, n);
    if (p != NULL && o == NULL) {
        live++;
    }
    return p;
}

void __wrap_free(void * const p)
{
    if (p != NULL) {
        live--;
    }
    __real_free(p);
}

static unsigned long fails;
static unsigned long ncmp;

#define CHECK(c) do { if (!(c)) { fails++; \
    fprintf(stderr, "%s:%d: %s\n", __FILE__, __LINE__, #c); \
    if (fails > 20) { exit(1); } } } while (0)

/* keys: several distinct objects may carry the same id and compare equal */
struct key
{
    int id;
    int copy;
};

static int token;

static int key_cmp(const void * const a, const void * const b, void * const p)
{
    const struct key * const x = a, * const y = b;
    CHECK(p == &token);
    ncmp++;
    /* order keys in a scrambled way, not by id */
    {
        const unsigned hx = (unsigned)x->id * 2654435761u;
        const unsigned hy = (unsigned)y->id * 2654435761u;
        return (hx > hy) - (hx < hy);
    }
}

#define MAXKEYS 512
#define COPIES 3

struct model
{
    int present[MAXKEYS];
    const struct key * key[MAXKEYS];
    void * val[MAXKEYS];
    size_t size;
    unsigned nkeys;
};

static struct key keys[MAXKEYS][COPIES];
static int vals[MAXKEYS][COPIES];

static void check_find(const cstl_map_t * const m, const struct model * const md,
                       const unsigned id, const unsigned copy)
{
    cstl_map_iterator_t it;
    memset(&it, 0x5a, sizeof(it));
    cstl_map_find(m, &keys[id][copy], &it);
    if (md->present[id]) {
        CHECK(!cstl_map_iterator_eq(&it, cstl_map_iterator_end(m)));
        CHECK(it.key == md->key[id]);
        CHECK(it.val == md->val[id]);
    } else {
        CHECK(cstl_map_iterator_eq(&it, cstl_map_iterator_end(m)));
    }
}

static void check_all(const cstl_map_t * const m, const struct model * const md)
{
    unsigned id;
    CHECK(cstl_map_size(m) == md->size);
    for (id = 0; id < md->nkeys; id++) {
        check_find(m, md, id, (id + (unsigned)md->size) % COPIES);
    }
}

static void do_insert(cstl_map_t * const m, struct model * const md,
                      const unsigned id, const unsigned copy,
                      const int with_iter, const int fail)
{
    cstl_map_iterator_t it;
    int res;

    memset(&it, 0x5a, sizeof(it));
    failing = fail;
    res = cstl_map_insert(m, &keys[id][copy], &vals[id][copy],
                          with_iter ? &it : NULL);
    failing = 0;

    if (md->present[id]) {
        CHECK(res == 1);
        if (with_iter) {
            CHECK(!cstl_map_iterator_eq(&it, cstl_map_iterator_end(m)));
            CHECK(it.key == md->key[id]);
            CHECK(it.val == md->val[id]);
        }
    } else {
        CHECK(res == 0 || (fail && res == -1));
        if (res == 0) {
            md->present[id] = 1;
            md->key[id] = &keys[id][copy];
            md->val[id] = &vals[id][copy];
            md->size++;
            if (with_iter) {
                CHECK(!cstl_map_iterator_eq(&it, cstl_map_iterator_end(m)));
                CHECK(it.key == md->key[id]);
                CHECK(it.val == md->val[id]);
            }
        } else if (with_iter) {
            CHECK(cstl_map_iterator_eq(&it, cstl_map_iterator_end(m)));
        }
    }
    CHECK(cstl_map_size(m) == md->size);
}

static void do_erase(cstl_map_t * const m, struct model * const md,
                     const unsigned id, const unsigned copy,
                     const int with_iter)
{
    cstl_map_iterator_t it;
    int res;

    memset(&it, 0x5a, sizeof(it));
    res = cstl_map_erase(m, &keys[id][copy], with_iter ? &it : NULL);
    if (with_iter) {
        CHECK(cstl_map_iterator_eq(&it, cstl_map_iterator_end(m)));
    }
    if (md->present[id]) {
        CHECK(res == 0);
        if (with_iter) {
            CHECK(it.key == md->key[id]);
            CHECK(it.val == md->val[id]);
        }
        md->present[id] = 0;
        md->size--;
    } else {
        CHECK(res == -1);
    }
    CHECK(cstl_map_size(m) == md->size);
}

static void do_erase_iter(cstl_map_t * const m, struct model * const md,
                          const unsigned id, const unsigned copy)
{
    cstl_map_iterator_t it;

    cstl_map_find(m, &keys[id][copy], &it);
    if (md->present[id]) {
        CHECK(!cstl_map_iterator_eq(&it, cstl_map_iterator_end(m)));
        CHECK(it.key == md->key[id]);
        CHECK(it.val == md->val[id]);
        cstl_map_erase_iterator(m, &it);
        md->present[id] = 0;
        md->size--;
    } else {
        CHECK(cstl_map_iterator_eq(&it, cstl_map_iterator_end(m)));
    }
    CHECK(cstl_map_size(m) == md->size);
}

struct clr_state
{
    struct model * md;
    int seen[MAXKEYS];
    size_t calls;
};

static void clr_cb(void * const e, void * const p)
{
    const cstl_map_iterator_t * const it = e;
    struct clr_state * const cs = p;
    const struct key * const k = it->key;

    cs->calls++;
    CHECK(k != NULL);
    if (k != NULL) {
        CHECK(cs->md->present[k->id]);
        CHECK(cs->md->key[k->id] == k);
        CHECK(cs->md->val[k->id] == it->val);
        CHECK(!cs->seen[k->id]);
        cs->seen[k->id] = 1;
    }
}

static void do_clear(cstl_map_t * const m, struct model * const md,
                     const int with_cb)
{
    static struct clr_state cs;
    unsigned id;

    memset(&cs, 0, sizeof(cs));
    cs.md = md;
    cstl_map_clear(m, with_cb ? clr_cb : NULL, &cs);
    if (with_cb) {
        CHECK(cs.calls == md->size);
        for (id = 0; id < md->nkeys; id++) {
            CHECK(cs.seen[id] == md->present[id]);
        }
    } else {
        CHECK(cs.calls == 0);
    }
    for (id = 0; id < md->nkeys; id++) {
        md->present[id] = 0;
    }
    md->size = 0;
    CHECK(cstl_map_size(m) == 0);
}

/*
 * part 1: every short sequence. an operation is one of
 * insert/erase/erase-by-iterator/find on one of the keys, or clear.
 */
#define UNIV 3
#define NOPS (4 * UNIV + 1)
#define DEPTH 5

static void exhaustive(void)
{
    unsigned long nseq = 0;
    unsigned len;

    for (len = 0; len <= DEPTH; len++) {
        unsigned long code, total = 1;
        unsigned i;

        for (i = 0; i < len; i++) {
            total *= NOPS;
        }
        for (code = 0; code < total; code++) {
            static struct model md;
            cstl_map_t m;
            unsigned long c = code;
            const long base = live;

            memset(&md, 0, sizeof(md));
            md.nkeys = UNIV;
            cstl_map_init(&m, key_cmp, &token);
            check_all(&m, &md);

            for (i = 0; i < len; i++, c /= NOPS) {
                const unsigned op = c % NOPS;
                const unsigned id = op % UNIV;
                const unsigned copy = (unsigned)((code + i) % COPIES);
                switch (op / UNIV) {
                case 0: do_insert(&m, &md, id, copy, (code + i) % 2, 0); break;
                case 1: do_erase(&m, &md, id, copy, (code + i) % 2); break;
                case 2: do_erase_iter(&m, &md, id, copy); break;
                case 3: check_find(&m, &md, id, copy); break;
                default: do_clear(&m, &md, code % 2); break;
                }
                check_all(&m, &md);
            }
            do_clear(&m, &md, 1);
            check_all(&m, &md);
            CHECK(live == base);
            nseq++;
        }
    }
    printf("exhaustive: %lu sequences\n", nseq);
}

/* part 2: long random runs */
static unsigned long long rng_state;

static unsigned rnd(void)
{
    rng_state = rng_state * 6364136223846793005ULL + 1442695040888963407ULL;
    return (unsigned)(rng_state >> 33);
}

static void random_run(const unsigned long long seed, const unsigned nkeys,
                       const unsigned long nops)
{
    static struct model md;
    cstl_map_t m;
    unsigned long op;
    const long base = live;
    unsigned grow = 50;

    rng_state = seed;
    memset(&md, 0, sizeof(md));
    md.nkeys = nkeys;
    cstl_map_init(&m, key_cmp, &token);

    for (op = 0; op < nops; op++) {
        const unsigned id = rnd() % nkeys;
        const unsigned copy = rnd() % COPIES;
        const unsigned r = rnd() % 100;

        if (op % 2048 == 0) {
            grow = 20 + rnd() % 60;
        }
        if (r < grow) {
            do_insert(&m, &md, id, copy, rnd() % 4 != 0, rnd() % 16 == 0);
        } else if (r < 96) {
            switch (rnd() % 3) {
            case 0: do_erase(&m, &md, id, copy, 1); break;
            case 1: do_erase(&m, &md, id, copy, 0); break;
            default: do_erase_iter(&m, &md, id, copy); break;
            }
        } else if (r < 99 || op % 5 != 0) {
            /* look up the same key again, and a neighbour */
            check_find(&m, &md, id, copy);
            check_find(&m, &md, (id + 1) % nkeys, copy);
        } else {
            do_clear(&m, &md, rnd() % 4 != 0);
            CHECK(live == base);
        }
        check_find(&m, &md, id, (copy + 1) % COPIES);
        if (op % 257 == 0) {
            check_all(&m, &md);
        }
    }
    check_all(&m, &md);

    /* erase whatever is left one by one, or clear */
    if (seed % 2 == 0) {
        unsigned id;
        for (id = 0; id < nkeys; id++) {
            if (id % 2 == 0) {
                do_erase(&m, &md, id, 0, 1);
            } else {
                do_erase_iter(&m, &md, id, 1);
            }
        }
        CHECK(md.size == 0);
        check_all(&m, &md);
    }
    do_clear(&m, &md, 1);
    CHECK(live == base);
}

int main(void)
{
    unsigned id, c;

    for (id = 0; id < MAXKEYS; id++) {
        for (c = 0; c < COPIES; c++) {
            keys[id][c].id = (int)id;
            keys[id][c].copy = (int)c;
            vals[id][c] = (int)(id * COPIES + c);
        }
    }

    exhaustive();
    random_run(1, 4, 100000);
    random_run(2, 17, 200000);
    random_run(3, 100, 300000);
    random_run(4, MAXKEYS, 400000);
    random_run(5, 9, 100000);
    random_run(6, 64, 200000);

    printf("comparisons: %lu\n", ncmp);
    if (live != 0) {
        printf("leak: %ld\n", live);
        fails++;
    }
    if (fails != 0) {
        printf("FAIL (%lu)\n", fails);
        return 1;
    }
    printf("OK\n");
    return 0;
}
