/*
 * C13 negative control (c): exercising test.
 *
 * build + run (from the worktree root):
 *   make build && gcc -std=c99 -D_POSIX_C_SOURCE=199309L -Wall -Iinclude -o _keep/c/test _keep/c/test.c build/libcstl.a -lm && ./_keep/c/test
 *
 * Model-based test of cstl_slist through its public API only. Three lists
 * are driven next to three reference sequences (arrays of element pointers)
 * by (1) exhaustive short scripts over lists of length 0..6 and (2) long
 * seeded random scripts of push_front, push_back, insert_after, erase_after,
 * pop_front, reverse, sort, concat, swap, foreach (with early stop) and clear.
 * After every step the traversal must equal the reference and front/back/size
 * must agree; in addition a "tail probe" pushes a fresh element at the back,
 * checks that it really became the last element of the traversal, and erases
 * it again (which also exercises "erase the last element, then push_back").
 * For sort only "ordered permutation of the same elements" is required; for
 * clear only "each element handed to clr exactly once, list empty and usable".
 * Exit status 0 on success.
 */
#include <stdio.h>
#include <stdlib.h>
#include <string.h>
#include <stddef.h>

#include "cstl/slist.h"

struct item
{
    int key;
    int id;
    int cleared;
    struct cstl_slist_node node;
};

#define NLISTS  3
#define MAXN    8192

static struct cstl_slist L[NLISTS];
static struct item * R[NLISTS][MAXN];
static size_t RN[NLISTS];

static struct item pool[MAXN];
static size_t pool_used;

static unsigned long fails;
#define CHECK(C)                                                        \
    do {                                                                \
        if (!(C)) {                                                     \
            fails++;                                                    \
            if (fails < 20) {                                           \
                fprintf(stderr, "%s:%d: check failed: %s\n",            \
                        __FILE__, __LINE__, #C);                        \
            }                                                           \
        }                                                               \
    } while (0)

static struct item * new_item(const int key)
{
    struct item * const it = &pool[pool_used];
    it->key = key;
    it->id = (int)pool_used;
    it->cleared = 0;
    /* poison the node; the list has to overwrite it */
    memset(&it->node, 0x5a, sizeof(it->node));
    pool_used++;
    return it;
}

static int key_cmp(const void * const a, const void * const b, void * const p)
{
    (void)p;
    return ((const struct item *)a)->key - ((const struct item *)b)->key;
}

struct walk
{
    struct item ** out;
    size_t n;
    int stop_key;       /* stop (return 7 + key) at this key; -1: never */
};

static int walk_visit(void * const e, void * const p)
{
    struct walk * const w = p;
    struct item * const it = e;
    if (w->n < MAXN) {
        w->out[w->n] = it;
    }
    w->n++;
    if (w->n > 2 * MAXN) {
        return -1;      /* a cycle; give up */
    }
    if (w->stop_key >= 0 && it->key == w->stop_key) {
        return 7 + it->key;
    }
    return 0;
}

static void verify(const int k)
{
    static struct item * seen[MAXN];
    struct walk w;
    size_t i;
    const size_t n = RN[k];

    CHECK(cstl_slist_size(&L[k]) == n);
    CHECK(cstl_slist_front(&L[k]) == (n ? (void *)R[k][0] : NULL));
    CHECK(cstl_slist_back(&L[k]) == (n ? (void *)R[k][n - 1] : NULL));

    w.out = seen; w.n = 0; w.stop_key = -1;
    CHECK(cstl_slist_foreach(&L[k], walk_visit, &w) == 0);
    CHECK(w.n == n);
    for (i = 0; i < n && i < w.n; i++) {
        CHECK(seen[i] == R[k][i]);
    }
}

/* push_back must append after the true last; then take it away again */
static void tail_probe(const int k)
{
    struct item * const it = new_item(9);
    const size_t n = RN[k];

    cstl_slist_push_back(&L[k], it);
    R[k][RN[k]++] = it;
    verify(k);

    if (n == 0) {
        CHECK(cstl_slist_pop_front(&L[k]) == it);
    } else {
        CHECK(cstl_slist_erase_after(&L[k], R[k][n - 1]) == it);
    }
    RN[k]--;
    verify(k);
}

static void verify_all(const int probe)
{
    int k;
    for (k = 0; k < NLISTS; k++) {
        verify(k);
        if (probe) {
            tail_probe(k);
        }
    }
}

static size_t clr_count;
static void clr_item(void * const e, void * const p)
{
    struct item * const it = e;
    (void)p;
    it->cleared++;
    clr_count++;
    /* the callee owns the object now: it may reuse the memory */
    memset(&it->node, 0x77, sizeof(it->node));
}

static void ref_insert(const int k, const size_t at, struct item * const it)
{
    memmove(&R[k][at + 1], &R[k][at], (RN[k] - at) * sizeof(R[k][0]));
    R[k][at] = it;
    RN[k]++;
}

static struct item * ref_remove(const int k, const size_t at)
{
    struct item * const it = R[k][at];
    memmove(&R[k][at], &R[k][at + 1], (RN[k] - at - 1) * sizeof(R[k][0]));
    RN[k]--;
    return it;
}

enum
{
    OP_PUSH_FRONT, OP_PUSH_BACK, OP_POP_FRONT,
    OP_INSERT_AFTER, OP_ERASE_AFTER, OP_REVERSE, OP_SORT, OP_CONCAT,
    OP_SWAP, OP_FOREACH_STOP, OP_CLEAR,
    OP_COUNT
};

static void apply(const int op, const unsigned a, const unsigned b,
                  const unsigned c)
{
    const int k = a % NLISTS;
    const int k2 = b % NLISTS;
    const size_t n = RN[k];
    size_t i;

    switch (op) {
    case OP_PUSH_FRONT: {
        struct item * const it = new_item(c % 4);
        cstl_slist_push_front(&L[k], it);
        ref_insert(k, 0, it);
        break;
    }
    case OP_PUSH_BACK: {
        struct item * const it = new_item(c % 4);
        cstl_slist_push_back(&L[k], it);
        ref_insert(k, n, it);
        break;
    }
    case OP_POP_FRONT: {
        void * const got = cstl_slist_pop_front(&L[k]);
        CHECK(got == (n ? (void *)ref_remove(k, 0) : NULL));
        break;
    }
    case OP_INSERT_AFTER:
        if (n > 0) {
            struct item * const it = new_item(c % 4);
            const size_t at = b % n;
            cstl_slist_insert_after(&L[k], R[k][at], it);
            ref_insert(k, at + 1, it);
        }
        break;
    case OP_ERASE_AFTER:
        if (n > 1) {
            /* b == 0 targets the last element: the tail must move */
            const size_t at = (b % 3 == 0) ? n - 2 : b % (n - 1);
            void * const got = cstl_slist_erase_after(&L[k], R[k][at]);
            CHECK(got == (void *)ref_remove(k, at + 1));
        }
        break;
    case OP_REVERSE:
        cstl_slist_reverse(&L[k]);
        for (i = 0; i < n / 2; i++) {
            struct item * const t = R[k][i];
            R[k][i] = R[k][n - 1 - i];
            R[k][n - 1 - i] = t;
        }
        break;
    case OP_SORT: {
        static struct item * got[MAXN];
        static unsigned char mark[MAXN];
        struct walk w;
        cstl_slist_sort(&L[k], key_cmp, NULL);
        w.out = got; w.n = 0; w.stop_key = -1;
        cstl_slist_foreach(&L[k], walk_visit, &w);
        CHECK(w.n == n);
        memset(mark, 0, sizeof(mark));
        for (i = 0; i < n; i++) {
            mark[R[k][i]->id] = 1;
        }
        for (i = 0; i < w.n && i < n; i++) {
            CHECK(mark[got[i]->id] == 1);       /* same elements ...   */
            mark[got[i]->id] = 0;               /* ... each only once  */
            if (i > 0) {
                CHECK(got[i - 1]->key <= got[i]->key);
            }
            R[k][i] = got[i];
        }
        break;
    }
    case OP_CONCAT:
        if (k != k2) {
            cstl_slist_concat(&L[k], &L[k2]);
            for (i = 0; i < RN[k2]; i++) {
                R[k][RN[k]++] = R[k2][i];
            }
            RN[k2] = 0;
        }
        break;
    case OP_SWAP: {
        static struct item * t[MAXN];
        size_t tn;
        cstl_slist_swap(&L[k], &L[k2]);
        if (k == k2) {
            break;
        }
        memcpy(t, R[k], sizeof(t[0]) * RN[k]);
        tn = RN[k];
        memcpy(R[k], R[k2], sizeof(t[0]) * RN[k2]);
        RN[k] = RN[k2];
        memcpy(R[k2], t, sizeof(t[0]) * tn);
        RN[k2] = tn;
        break;
    }
    case OP_FOREACH_STOP: {
        static struct item * got[MAXN];
        struct walk w;
        size_t want = n;
        int res, found = 0;
        w.out = got; w.n = 0; w.stop_key = c % 5;
        for (i = 0; i < n; i++) {
            if (R[k][i]->key == w.stop_key) {
                want = i + 1;
                found = 1;
                break;
            }
        }
        res = cstl_slist_foreach(&L[k], walk_visit, &w);
        CHECK(w.n == want);
        CHECK(res == (found ? 7 + w.stop_key : 0));
        for (i = 0; i < w.n && i < n; i++) {
            CHECK(got[i] == R[k][i]);
        }
        break;
    }
    case OP_CLEAR:
        clr_count = 0;
        cstl_slist_clear(&L[k], clr_item);
        CHECK(clr_count == n);
        for (i = 0; i < n; i++) {
            CHECK(R[k][i]->cleared == 1);
        }
        RN[k] = 0;
        break;
    default:
        break;
    }
}

static void reset(void)
{
    int k;
    for (k = 0; k < NLISTS; k++) {
        cstl_slist_init(&L[k], offsetof(struct item, node));
        RN[k] = 0;
    }
    pool_used = 0;
}

static unsigned long rng_state;
static unsigned rnd(void)
{
    rng_state = rng_state * 6364136223846793005UL + 1442695040888963407UL;
    return (unsigned)(rng_state >> 33);
}

int main(void)
{
    unsigned len, seed;

    /*
     * exhaustive part: a prefix that builds list 0 with 0..6 elements
     * (keys cycling 2,0,1,..) and list 1 with 0..2 elements, followed by
     * every script of two operations with a few operand choices each
     */
    for (len = 0; len <= 6; len++) {
        unsigned len1;
        for (len1 = 0; len1 <= 2; len1++) {
            int op1, op2;
            unsigned v1, v2;
            for (op1 = 0; op1 < OP_COUNT; op1++) {
                for (op2 = 0; op2 < OP_COUNT; op2++) {
                    for (v1 = 0; v1 < 6; v1++) {
                        for (v2 = 0; v2 < 4; v2++) {
                            unsigned i;
                            reset();
                            for (i = 0; i < len; i++) {
                                apply(OP_PUSH_BACK, 0, 0, (2 + i * 2) % 3);
                            }
                            for (i = 0; i < len1; i++) {
                                apply(OP_PUSH_FRONT, 1, 0, i + 1);
                            }
                            verify_all(0);
                            apply(op1, v1 & 1, v1, v1 + v2);
                            verify_all(1);
                            apply(op2, v2 & 1, v2 + 1, v2);
                            verify_all(1);
                        }
                    }
                }
            }
        }
    }

    /* seeded random part: long scripts over three lists */
    for (seed = 1; seed <= 40; seed++) {
        unsigned step;
        rng_state = seed * 0x9e3779b97f4a7c15UL;
        reset();
        for (step = 0; step < 1500; step++) {
            int op = (int)(rnd() % (OP_COUNT + 5));
            if (op >= OP_COUNT) {
                /* bias toward growth so the lists get long */
                op = (op & 1) ? OP_PUSH_BACK : OP_PUSH_FRONT;
            }
            if (op == OP_CLEAR && rnd() % 8 != 0) {
                op = OP_INSERT_AFTER;
            }
            apply(op, rnd(), rnd(), rnd());
            verify_all(step % 4 == 0);
        }
    }

    if (fails != 0) {
        fprintf(stderr, "FAILED: %lu checks\n", fails);
        return 1;
    }
    printf("ok\n");
    return 0;
}
