/*
 * Model-based test of the vector through its public API: seeded random
 * sequences of resize, reserve, shrink-to-fit, clear, swap, sort and reverse
 * with sizes that are small, around the current size/capacity, and at and
 * around SIZE_MAX and SIZE_MAX/element-size; element sizes 1..64; with and
 * without constructor/destructor. Checked after every operation:
 * capacity >= size, every element below size lies inside the storage and
 * kept its bytes, the whole (capacity+1)-element buffer is writable,
 * constructor/destructor ran exactly once per element entering/leaving
 * [0,size), impossible reserves are quiet no-ops. Operations that must
 * abort (at() with index >= size, impossible resize) run in a forked child.
 *
 * Patch a makes cstl_vector_resize() grow the capacity geometrically, so
 * the test never assumes the capacity after a growing resize is exactly the
 * requested size (only that it is at least that), and it runs long
 * push-back style sequences (resize(size+1) over and over).
 *
 * Build + run (from the worktree root, after `make build`):
 *   gcc -std=c99 -D_POSIX_C_SOURCE=200809L -O1 -Iinclude -o _keep/a/test _keep/a/test.c build/libcstl.a -lm && ./_keep/a/test
 */
#include "cstl/vector.h"

#include <signal.h>
#include <stdio.h>
#include <stdlib.h>
#include <string.h>
#include <unistd.h>
#include <sys/resource.h>
#include <sys/wait.h>

#define CHECK(c) do { if (!(c)) { \
    fprintf(stderr, "FAIL line %d: %s\n", __LINE__, #c); _exit(1); } } while (0)

#define MAXN 600        /* largest size the test asks for (small sizes) */
#define MAXES 64

struct model
{
    cstl_vector_t v;
    size_t es;
    int xtor;
    size_t size;
    unsigned char bytes[MAXN][MAXES];   /* expected contents below size */
    unsigned char live[MAXN * 4];       /* constructed and not destroyed */
    long cons, dest;
};

static struct model M[2];
static struct model * cur;      /* the model whose vector is being resized */
static unsigned long serial;

static size_t index_of(const struct model * const m, const void * const e)
{
    const size_t off = (size_t)((const unsigned char *)e
        - (const unsigned char *)cstl_vector_data((cstl_vector_t *)&m->v));
    CHECK(off % m->es == 0);
    CHECK(off / m->es < cstl_vector_capacity(&m->v));
    return off / m->es;
}

static void cons(void * const e, void * const p)
{
    struct model * const m = cur;
    const size_t i = index_of(m, e);
    CHECK(p == (void *)&M[0]);
    CHECK(i < sizeof(m->live) && !m->live[i]);
    m->live[i] = 1;
    m->cons++;
    memset(e, 0xc0, m->es);
}

static void dest(void * const e, void * const p)
{
    struct model * const m = cur;
    const size_t i = index_of(m, e);
    CHECK(p == (void *)&M[0]);
    CHECK(i < sizeof(m->live) && m->live[i]);
    m->live[i] = 0;
    m->dest++;
    memset(e, 0xdd, m->es);
}

static void fill(struct model * const m, const size_t i)
{
    /* first byte is the sort key; the rest identifies the element */
    size_t b;
    serial++;
    m->bytes[i][0] = (unsigned char)(rand() % 251);
    for (b = 1; b < m->es; b++) {
        m->bytes[i][b] = (unsigned char)(serial >> (8 * ((b - 1) % 4)));
    }
    memcpy(cstl_vector_at(&m->v, i), m->bytes[i], m->es);
}

static void check(struct model * const m)
{
    cstl_vector_t * const v = &m->v;
    const size_t size = cstl_vector_size(v), cap = cstl_vector_capacity(v);
    unsigned char * const base = cstl_vector_data(v);
    size_t i;

    CHECK(size == m->size);
    CHECK(cap >= size);
    if (cap > 0) {
        CHECK(base != NULL);
    }
    for (i = 0; i < size; i++) {
        CHECK(cstl_vector_at(v, i) == base + i * m->es);
        CHECK(cstl_vector_at_const(v, i) == base + i * m->es);
        CHECK(memcmp(base + i * m->es, m->bytes[i], m->es) == 0);
    }
    if (base != NULL) {
        /* storage for capacity + 1 elements: scribble on the unused part */
        memset(base + size * m->es, 0xee, (cap + 1 - size) * m->es);
    }
    if (m->xtor) {
        for (i = 0; i < sizeof(m->live); i++) {
            CHECK(m->live[i] == (i < size));
        }
    }
}

/* run f(m, arg) in a child; return 1 if it died of SIGABRT, 0 if it returned */
static int aborts(void (* const f)(struct model *, size_t),
                  struct model * const m, const size_t arg)
{
    int st;
    const pid_t pid = fork();
    CHECK(pid >= 0);
    if (pid == 0) {
        struct rlimit rl = { 0, 0 };
        setrlimit(RLIMIT_CORE, &rl);
        f(m, arg);
        _exit(0);
    }
    CHECK(waitpid(pid, &st, 0) == pid);
    if (WIFSIGNALED(st)) {
        CHECK(WTERMSIG(st) == SIGABRT);
        return 1;
    }
    CHECK(WIFEXITED(st) && WEXITSTATUS(st) == 0);
    return 0;
}

static void f_at(struct model * const m, const size_t i)
{
    (void)cstl_vector_at(&m->v, i);
}
static void f_at_const(struct model * const m, const size_t i)
{
    (void)cstl_vector_at_const(&m->v, i);
}
static void f_resize(struct model * const m, const size_t n)
{
    cur = m;
    cstl_vector_resize(&m->v, n);
}

static size_t huge(const struct model * const m, const int k)
{
    const size_t q = SIZE_MAX / m->es;
    switch (k % 8) {
    case 0: return SIZE_MAX;
    case 1: return SIZE_MAX - 1;
    case 2: return q;
    case 3: return q - 1;
    case 4: return q + 1 > q ? q + 1 : q;
    case 5: return SIZE_MAX / 2 + 1;
    case 6: return q / 2 + 1;
    default: return SIZE_MAX - m->es;
    }
}

static void op_resize(struct model * const m, const size_t n)
{
    const size_t old = m->size, oldcap = cstl_vector_capacity(&m->v);
    const long c0 = m->cons, d0 = m->dest;
    size_t i;

    CHECK(n <= MAXN);
    cur = m;
    cstl_vector_resize(&m->v, n);
    m->size = n;
    CHECK(cstl_vector_size(&m->v) == n);
    CHECK(cstl_vector_capacity(&m->v) >= n);
    if (n <= oldcap) {
        /* never reallocates when it fits */
        CHECK(cstl_vector_capacity(&m->v) == oldcap);
    }
    if (m->xtor) {
        CHECK(m->cons - c0 == (long)(n > old ? n - old : 0));
        CHECK(m->dest - d0 == (long)(n < old ? old - n : 0));
    }
    for (i = old; i < n; i++) {
        if (m->xtor) {
            /* what the constructor left there */
            const unsigned char * const e = cstl_vector_at(&m->v, i);
            size_t b;
            for (b = 0; b < m->es; b++) {
                CHECK(e[b] == 0xc0);
            }
        }
        fill(m, i);
    }
}

static void op_reserve(struct model * const m, const size_t n)
{
    const size_t oldcap = cstl_vector_capacity(&m->v);
    cstl_vector_reserve(&m->v, n);
    CHECK(cstl_vector_capacity(&m->v) >= oldcap);
    if (n <= oldcap) {
        CHECK(cstl_vector_capacity(&m->v) == oldcap);
    } else {
        /* it either worked or nothing changed */
        CHECK(cstl_vector_capacity(&m->v) >= n
              || cstl_vector_capacity(&m->v) == oldcap);
    }
}

static void op_reserve_huge(struct model * const m, const int k)
{
    const size_t oldcap = cstl_vector_capacity(&m->v);
    void * const base = cstl_vector_data(&m->v);
    const size_t n = huge(m, k);
    cstl_vector_reserve(&m->v, n);
    /* (n + 1) * es bytes cannot exist: quiet no-op */
    CHECK(cstl_vector_capacity(&m->v) == oldcap);
    CHECK(cstl_vector_data(&m->v) == base);
}

static void op_shrink(struct model * const m)
{
    const size_t oldcap = cstl_vector_capacity(&m->v);
    cstl_vector_shrink_to_fit(&m->v);
    CHECK(cstl_vector_capacity(&m->v) <= oldcap);
    CHECK(cstl_vector_capacity(&m->v) >= m->size);
}

static void op_clear(struct model * const m)
{
    const long d0 = m->dest;
    cur = m;
    cstl_vector_clear(&m->v);
    if (m->xtor) {
        CHECK(m->dest - d0 == (long)m->size);
    }
    m->size = 0;
    CHECK(cstl_vector_size(&m->v) == 0);
    CHECK(cstl_vector_capacity(&m->v) == 0);
    CHECK(cstl_vector_data(&m->v) == NULL);
}

static int cmp(const void * const a, const void * const b, void * const p)
{
    CHECK(p == (void *)&serial);
    return (int)*(const unsigned char *)a - (int)*(const unsigned char *)b;
}

static int mcmp(const void * const a, const void * const b)
{
    /* total order for the model: key first, then the rest of the bytes */
    return memcmp(a, b, MAXES);
}

static void op_sort(struct model * const m, const int algo)
{
    static unsigned char got[MAXN][MAXES];
    size_t i;

    __cstl_vector_sort(&m->v, cmp, &serial, cstl_swap, algo);
    CHECK(cstl_vector_size(&m->v) == m->size);
    /* non-decreasing keys, and the same multiset of elements */
    memset(got, 0, sizeof(got));
    for (i = 0; i < m->size; i++) {
        memcpy(got[i], cstl_vector_at(&m->v, i), m->es);
        if (i > 0) {
            CHECK(got[i - 1][0] <= got[i][0]);
        }
    }
    for (i = 0; i < m->size; i++) {
        memset(m->bytes[i] + m->es, 0, MAXES - m->es);
    }
    qsort(m->bytes, m->size, MAXES, mcmp);
    {
        static unsigned char tmp[MAXN][MAXES];
        memcpy(tmp, got, sizeof(tmp));
        qsort(tmp, m->size, MAXES, mcmp);
        CHECK(memcmp(tmp, m->bytes, m->size * MAXES) == 0);
    }
    /* equal keys may come out in any order: adopt the vector's order */
    memcpy(m->bytes, got, m->size * MAXES);
}

static void op_reverse(struct model * const m)
{
    size_t i, j;
    cstl_vector_reverse(&m->v);
    for (i = 0, j = m->size; i + 1 < j; i++) {
        unsigned char t[MAXES];
        j--;
        memcpy(t, m->bytes[i], MAXES);
        memcpy(m->bytes[i], m->bytes[j], MAXES);
        memcpy(m->bytes[j], t, MAXES);
    }
}

static void op_swap(void)
{
    static struct model t;
    cstl_vector_swap(&M[0].v, &M[1].v);
    /* everything but the vector objects themselves trades places */
    t = M[0];
    M[0] = M[1];
    M[1] = t;
    {
        const cstl_vector_t tv = M[0].v;
        M[0].v = M[1].v;
        M[1].v = tv;
    }
}

static void init(struct model * const m, const size_t es, const int xtor)
{
    memset(m, 0, sizeof(*m));
    m->es = es;
    m->xtor = xtor;
    if (xtor) {
        cstl_vector_init_complex(&m->v, es, cons, dest, &M[0]);
    } else {
        cstl_vector_init(&m->v, es);
    }
    CHECK(cstl_vector_size(&m->v) == 0 && cstl_vector_capacity(&m->v) == 0);
}

static size_t pick_size(const struct model * const m)
{
    const size_t size = m->size, cap = cstl_vector_capacity(&m->v);
    size_t n;
    switch (rand() % 8) {
    case 0: n = rand() % 8; break;
    case 1: n = size + rand() % 3; break;
    case 2: n = size - (size ? rand() % (size < 3 ? size + 1 : 3) : 0); break;
    case 3: n = cap + rand() % 3; break;
    case 4: n = cap - (cap ? rand() % (cap < 3 ? cap + 1 : 3) : 0); break;
    case 5: n = size * 2 + 1; break;
    case 6: n = rand() % 100; break;
    default: n = size + 1; break;
    }
    return n > MAXN / 2 ? (size_t)rand() % (MAXN / 2) : n;
}

static long run(const unsigned seed, const size_t es, const int xtor,
                const int steps, const int pushy)
{
    long nabort = 0;
    int s;

    srand(seed);
    init(&M[0], es, xtor);
    init(&M[1], es, xtor);
    for (s = 0; s < steps; s++) {
        struct model * const m = &M[rand() & 1];
        const int r = rand() % 100;
        if (r < (pushy ? 70 : 35)) {
            if (pushy && (rand() % 8) != 0) {
                /* push-back style growth, one element at a time */
                op_resize(m, m->size + 1 < MAXN / 2 ? m->size + 1 : 0);
            } else {
                op_resize(m, pick_size(m));
            }
        } else if (r < 50) {
            op_reserve(m, pick_size(m) + rand() % 20);
        } else if (r < 58) {
            op_reserve_huge(m, rand());
        } else if (r < 66) {
            op_shrink(m);
        } else if (r < 69) {
            op_clear(m);
        } else if (r < 77) {
            op_swap();
        } else if (r < 85) {
            static const int algos[] = {
                CSTL_SORT_ALGORITHM_QUICK, CSTL_SORT_ALGORITHM_QUICK_R,
                CSTL_SORT_ALGORITHM_QUICK_M, CSTL_SORT_ALGORITHM_HEAP,
                CSTL_SORT_ALGORITHM_DEFAULT,
            };
            op_sort(m, algos[rand() % 5]);
        } else if (r < 93) {
            op_reverse(m);
        } else if (s % 7 == 0) {
            /* the expensive ones: things that must abort */
            const size_t sz = m->size;
            switch (rand() % 4) {
            case 0:
                CHECK(aborts(f_at, m, sz));
                CHECK(aborts(f_at_const, m, sz + 1 + rand() % 5));
                break;
            case 1:
                CHECK(aborts(f_at, m, SIZE_MAX));
                CHECK(aborts(f_at_const, m, SIZE_MAX / m->es));
                break;
            case 2:
                CHECK(aborts(f_resize, m, huge(m, rand())));
                break;
            default:
                if (sz > 0) {
                    CHECK(!aborts(f_at, m, sz - 1));
                    CHECK(!aborts(f_at_const, m, 0));
                }
                break;
            }
            nabort++;
        }
        check(&M[0]);
        check(&M[1]);
    }
    op_clear(&M[0]);
    op_clear(&M[1]);
    check(&M[0]);
    check(&M[1]);
    if (xtor) {
        CHECK(M[0].cons + M[1].cons == M[0].dest + M[1].dest);
    }
    return nabort;
}

int main(void)
{
    static const size_t sizes[] = { 1, 2, 3, 4, 5, 7, 8, 12, 16, 24, 33, 63, 64 };
    long nabort = 0;
    unsigned i;

    for (i = 0; i < sizeof(sizes) / sizeof(sizes[0]); i++) {
        nabort += run(100 + i, sizes[i], 0, 1500, 0);
        nabort += run(200 + i, sizes[i], 1, 1500, 0);
        nabort += run(300 + i, sizes[i], i & 1, 1500, 1);
    }

    printf("%lu elements written, %ld abort checks; ok\n", serial, nabort);
    return 0;
}
