/*
 * C09: a vector never reports size or capacity it has no storage for.
 *
 * Standalone test using only the public API of cstl/vector.h.
 *
 * A model (shadow copy of the bytes of [0,size), expected size, counts of
 * constructor/destructor calls, a table of live element ids) is kept next
 * to each vector and compared after every operation. Operations and sizes
 * are drawn from small values, values around the current size/capacity and
 * values at and around SIZE_MAX and SIZE_MAX / element-size. Calls that are
 * expected to abort are run in a forked child.
 *
 * Deliberately NOT assumed: which allocator entry points are used, whether
 * data() is the start of a heap block, whether data() is NULL or not for an
 * empty vector, the exact capacity after a successful reserve (only >=),
 * that shrink_to_fit succeeds, the order in which elements are constructed
 * or destroyed, what storage outside [0,size) contains.
 */
#define _POSIX_C_SOURCE 200809L

#include "cstl/vector.h"

#include <stdio.h>
#include <stdlib.h>
#include <string.h>
#include <stdint.h>
#include <signal.h>
#include <unistd.h>
#include <sys/types.h>
#include <sys/wait.h>
#include <sys/resource.h>

#define MAXN 600

static size_t g_es;
static int g_xt;
static unsigned g_seed;
static unsigned long g_op;
static unsigned long g_forks, g_ops_total;

#define CHECK(c)                                                        \
    do {                                                                \
        if (!(c)) {                                                     \
            fprintf(stderr,                                             \
                    "FAIL %s:%d: %s (es=%lu xt=%d seed=%u op=%lu)\n",   \
                    __FILE__, __LINE__, #c,                             \
                    (unsigned long)g_es, g_xt, g_seed, g_op);           \
            fflush(stderr);                                             \
            _exit(1);                                                   \
        }                                                               \
    } while (0)

/* ---- random numbers (own generator; the library may use rand()) ---- */

static uint64_t rng_s;

static uint64_t rnd(void)
{
    rng_s ^= rng_s << 13;
    rng_s ^= rng_s >> 7;
    rng_s ^= rng_s << 17;
    return rng_s;
}

/* ---- constructor / destructor context ---- */

struct ctx
{
    size_t es;
    int idmode;
    unsigned long ncons, ndest;
    uint32_t next_id;
    unsigned char * live;
    size_t live_cap;
    /* the callbacks use ANOTHER container object: a vector of pointers */
    struct cstl_vector log;
};

static void log_push(struct ctx * const cx, void * const p)
{
    const size_t n = cstl_vector_size(&cx->log);
    cstl_vector_resize(&cx->log, n + 1);
    *(void **)cstl_vector_at(&cx->log, n) = p;
}

static unsigned char fill_byte(const uint32_t id, const size_t k)
{
    return (unsigned char)(id * 131u + (unsigned)k * 17u + 5u);
}

static void el_cons(void * const p, void * const priv)
{
    struct ctx * const cx = priv;
    const uint32_t id = cx->next_id++;
    size_t k;

    if (id >= cx->live_cap) {
        const size_t nc = cx->live_cap * 2 + 1024;
        cx->live = realloc(cx->live, nc);
        CHECK(cx->live != NULL);
        memset(cx->live + cx->live_cap, 0, nc - cx->live_cap);
        cx->live_cap = nc;
    }
    cx->live[id] = 1;

    for (k = 0; k < cx->es; k++) {
        ((unsigned char *)p)[k] = fill_byte(id, k);
    }
    if (cx->idmode) {
        memcpy(p, &id, sizeof(id));
    }
    cx->ncons++;
    log_push(cx, p);
}

static void el_dest(void * const p, void * const priv)
{
    struct ctx * const cx = priv;

    if (cx->idmode) {
        uint32_t id;
        memcpy(&id, p, sizeof(id));
        CHECK(id < cx->next_id);
        CHECK(cx->live[id] == 1);       /* destroyed exactly once */
        cx->live[id] = 0;
    }
    memset(p, 0xdd, cx->es);
    cx->ndest++;
    log_push(cx, p);
}

/* ---- model ---- */

struct model
{
    struct cstl_vector v;

    /* everything below travels with the vector's contents on swap */
    size_t es;
    int xt;             /* 0 none, 1 cons+dest, 2 cons only, 3 dest only */
    unsigned char * sh;
    size_t n, shcap;
    unsigned long entered, left;
    struct ctx * cx;
};

static int has_cons(const struct model * const m)
{
    return m->xt == 1 || m->xt == 2;
}

static int has_dest(const struct model * const m)
{
    return m->xt == 1 || m->xt == 3;
}

typedef struct { unsigned char b[1]; } el1_t;
typedef struct { unsigned char b[4]; } el4_t;
typedef struct { unsigned char b[8]; } el8_t;
typedef struct { unsigned char b[64]; } el64_t;

static void m_init(struct model * const m, const size_t es, const int xt)
{
    struct ctx * const cx = calloc(1, sizeof(*cx));
    CHECK(cx != NULL);

    memset(m, 0x5a, sizeof(*m));

    cx->es = es;
    cx->idmode = (xt == 1 && es >= sizeof(uint32_t));
    cstl_vector_init(&cx->log, sizeof(void *));

    m->es = es;
    m->xt = xt;
    m->sh = NULL;
    m->n = m->shcap = 0;
    m->entered = m->left = 0;
    m->cx = cx;

    if (xt == 0 && es == 1) {
        /* objects initialised with the static initialiser macros */
        DECLARE_CSTL_VECTOR(t, el1_t);
        m->v = t;
    } else if (xt == 0 && es == 4) {
        DECLARE_CSTL_VECTOR(t, el4_t);
        m->v = t;
    } else if (xt == 0 && es == 8) {
        DECLARE_CSTL_VECTOR(t, el8_t);
        m->v = t;
    } else if (xt == 0 && es == 64) {
        DECLARE_CSTL_VECTOR(t, el64_t);
        m->v = t;
    } else if (xt == 0) {
        cstl_vector_init(&m->v, es);
    } else {
        cstl_vector_init_complex(&m->v, es,
                                 has_cons(m) ? el_cons : NULL,
                                 has_dest(m) ? el_dest : NULL,
                                 cx);
    }

    CHECK(cstl_vector_size(&m->v) == 0);
    CHECK(cstl_vector_capacity(&m->v) == 0);
    CHECK(cstl_vector_data(&m->v) == NULL);
}

static void m_check(struct model * const m)
{
    struct cstl_vector * const v = &m->v;
    const size_t n = cstl_vector_size(v);
    const size_t cap = cstl_vector_capacity(v);
    unsigned char * const d = cstl_vector_data(v);
    size_t i;

    CHECK(n == m->n);
    CHECK(cap >= n);
    CHECK(cap <= 4 * MAXN + 64);        /* nothing huge was ever granted */
    if (cap > 0) {
        CHECK(d != NULL);
    }

    for (i = 0; i < n; i++) {
        CHECK(cstl_vector_at(v, i) == (void *)(d + i * m->es));
        CHECK(cstl_vector_at_const(v, i) == (const void *)(d + i * m->es));
    }
    if (n > 0) {
        CHECK(memcmp(d, m->sh, n * m->es) == 0);
    }

    /* storage behind every index below capacity is real and writable */
    if (cap > n) {
        unsigned char * const u = d + n * m->es;
        const size_t len = (cap - n) * m->es;
        const unsigned char pat = (unsigned char)(0xa0 | (g_op & 0xf));
        memset(u, pat, len);
        for (i = 0; i < len; i++) {
            CHECK(u[i] == pat);
        }
        /* ... and scribbling there did not disturb the live elements */
        if (n > 0) {
            CHECK(memcmp(d, m->sh, n * m->es) == 0);
        }
    }

    if (has_cons(m)) {
        CHECK(m->cx->ncons == m->entered);
    } else {
        CHECK(m->cx->ncons == 0);
    }
    if (has_dest(m)) {
        CHECK(m->cx->ndest == m->left);
    } else {
        CHECK(m->cx->ndest == 0);
    }
    CHECK(m->entered - m->left == n);
}

static int ptr_cmp(const void * const a, const void * const b)
{
    const uintptr_t x = (uintptr_t)*(void * const *)a;
    const uintptr_t y = (uintptr_t)*(void * const *)b;
    return (x > y) - (x < y);
}

/* the log must hold exactly base + i * es for i in [lo, hi), each once */
static void log_expect(struct model * const m,
                       const unsigned char * const base,
                       const size_t lo, const size_t hi)
{
    struct cstl_vector * const lg = &m->cx->log;
    const size_t cnt = cstl_vector_size(lg);
    size_t i;

    CHECK(cnt == hi - lo);
    if (cnt > 0) {
        void ** const a = cstl_vector_data(lg);
        qsort(a, cnt, sizeof(*a), ptr_cmp);
        for (i = 0; i < cnt; i++) {
            CHECK(a[i] == (void *)(base + (lo + i) * m->es));
        }
    }
}

static void sh_room(struct model * const m, const size_t n)
{
    if (n > m->shcap) {
        m->sh = realloc(m->sh, n * m->es);
        CHECK(m->sh != NULL);
        m->shcap = n;
    }
}

static void m_resize(struct model * const m, const size_t k)
{
    struct cstl_vector * const v = &m->v;
    const size_t o = m->n;
    const unsigned char * const before = cstl_vector_data(v);
    unsigned char * d;
    size_t i, j;

    cstl_vector_resize(&m->cx->log, 0);

    cstl_vector_resize(v, k);

    CHECK(cstl_vector_size(v) == k);
    CHECK(cstl_vector_capacity(v) >= k);
    d = cstl_vector_data(v);

    if (k > o) {
        CHECK(d != NULL);
        m->entered += k - o;
        sh_room(m, k);

        if (has_cons(m)) {
            log_expect(m, d, o, k);
            for (i = o; i < k; i++) {
                const unsigned char * const e = d + i * m->es;
                if (m->cx->idmode) {
                    uint32_t id;
                    memcpy(&id, e, sizeof(id));
                    CHECK(id < m->cx->next_id && m->cx->live[id] == 1);
                    for (j = sizeof(id); j < m->es; j++) {
                        CHECK(e[j] == fill_byte(id, j));
                    }
                } else {
                    for (j = 1; j < m->es; j++) {
                        CHECK((unsigned char)(e[j] - e[0])
                              == (unsigned char)(j * 17u));
                    }
                }
            }
        } else {
            CHECK(cstl_vector_size(&m->cx->log) == 0);
            /* no constructor: the new elements are ours to fill */
            for (i = o; i < k; i++) {
                unsigned char * const e = cstl_vector_at(v, i);
                for (j = 0; j < m->es; j++) {
                    e[j] = (unsigned char)rnd();
                }
            }
        }
        memcpy(m->sh + o * m->es, d + o * m->es, (k - o) * m->es);
    } else if (k < o) {
        m->left += o - k;
        if (has_dest(m)) {
            log_expect(m, before, k, o);
        } else {
            CHECK(cstl_vector_size(&m->cx->log) == 0);
        }
    } else {
        CHECK(cstl_vector_size(&m->cx->log) == 0);
    }

    m->n = k;
    m_check(m);
}

static void m_reserve(struct model * const m, const size_t k)
{
    struct cstl_vector * const v = &m->v;
    const size_t ocap = cstl_vector_capacity(v);
    const void * const od = cstl_vector_data(v);

    cstl_vector_resize(&m->cx->log, 0);
    cstl_vector_reserve(v, k);
    CHECK(cstl_vector_size(&m->cx->log) == 0);

    if (k <= ocap) {
        CHECK(cstl_vector_capacity(v) == ocap);
        CHECK(cstl_vector_data(v) == od);
    } else {
        /* either granted, or a quiet no-op */
        CHECK(cstl_vector_capacity(v) >= k
              || (cstl_vector_capacity(v) == ocap
                  && cstl_vector_data(v) == od));
    }
    m_check(m);
}

/* a reserve that cannot possibly be satisfied: quiet no-op */
static void m_reserve_huge(struct model * const m, const size_t k)
{
    struct cstl_vector * const v = &m->v;
    const size_t ocap = cstl_vector_capacity(v);
    const void * const od = cstl_vector_data(v);

    cstl_vector_resize(&m->cx->log, 0);
    cstl_vector_reserve(v, k);
    CHECK(cstl_vector_size(&m->cx->log) == 0);
    CHECK(cstl_vector_capacity(v) == ocap);
    CHECK(cstl_vector_data(v) == od);
    m_check(m);
}

static void m_shrink(struct model * const m)
{
    struct cstl_vector * const v = &m->v;
    const size_t ocap = cstl_vector_capacity(v);

    cstl_vector_resize(&m->cx->log, 0);
    cstl_vector_shrink_to_fit(v);
    CHECK(cstl_vector_size(&m->cx->log) == 0);
    CHECK(cstl_vector_capacity(v) <= ocap);
    CHECK(cstl_vector_capacity(v) >= m->n);
    m_check(m);
}

static void m_clear(struct model * const m)
{
    struct cstl_vector * const v = &m->v;
    const unsigned char * const before = cstl_vector_data(v);
    const size_t o = m->n;

    cstl_vector_resize(&m->cx->log, 0);
    cstl_vector_clear(v);

    m->left += o;
    if (has_dest(m)) {
        log_expect(m, before, 0, o);
    } else {
        CHECK(cstl_vector_size(&m->cx->log) == 0);
    }
    m->n = 0;

    /* back to the initialised state */
    CHECK(cstl_vector_size(v) == 0);
    CHECK(cstl_vector_capacity(v) == 0);
    CHECK(cstl_vector_data(v) == NULL);
    m_check(m);
}

static int el_cmp3(const void * const a, const void * const b, void * const p)
{
    return memcmp(a, b, *(const size_t *)p);
}

static size_t q_es;
static int el_cmp2(const void * const a, const void * const b)
{
    return memcmp(a, b, q_es);
}

/*
 * a swap function that checks what it is given: two elements of
 * [0,size), and len bytes of scratch space that is none of the live elements
 */
static struct model * sw_m;
static unsigned long sw_calls;

static void chk_swap(void * const a, void * const b,
                     void * const t, const size_t len)
{
    const struct model * const m = sw_m;
    const uintptr_t d = (uintptr_t)cstl_vector_data((struct cstl_vector *)&m->v);
    const uintptr_t e = d + m->n * m->es;
    const uintptr_t x = (uintptr_t)a, y = (uintptr_t)b, z = (uintptr_t)t;

    sw_calls++;
    CHECK(len == m->es);
    CHECK(x >= d && x < e && (x - d) % m->es == 0);
    CHECK(y >= d && y < e && (y - d) % m->es == 0);
    CHECK(t != NULL);
    CHECK(z + len <= d || z >= e);
    memset(t, 0xee, len);
    cstl_swap(a, b, t, len);
}

static void m_sort(struct model * const m, const int which)
{
    static const cstl_sort_algorithm_t algo[] = {
        CSTL_SORT_ALGORITHM_QUICK,
        CSTL_SORT_ALGORITHM_QUICK_R,
        CSTL_SORT_ALGORITHM_QUICK_M,
        CSTL_SORT_ALGORITHM_HEAP,
    };
    const size_t ocap = cstl_vector_capacity(&m->v);
    size_t es = m->es;

    cstl_vector_resize(&m->cx->log, 0);
    if (which < 4) {
        sw_m = m;
        __cstl_vector_sort(&m->v, el_cmp3, &es,
                           (rnd() & 1) ? chk_swap : cstl_swap, algo[which]);
    } else {
        cstl_vector_sort(&m->v, el_cmp3, &es);
    }
    CHECK(cstl_vector_size(&m->cx->log) == 0);
    CHECK(cstl_vector_capacity(&m->v) == ocap);

    if (m->n > 0) {
        q_es = m->es;
        qsort(m->sh, m->n, m->es, el_cmp2);
    }
    m_check(m);

    if (m->n > 0) {
        /* every element can be found again */
        const size_t i = rnd() % m->n;
        ssize_t r;
        r = cstl_vector_search(&m->v, m->sh + i * m->es, el_cmp3, &es);
        CHECK(r >= 0 && (size_t)r < m->n);
        CHECK(memcmp(m->sh + (size_t)r * m->es,
                     m->sh + i * m->es, m->es) == 0);
        r = cstl_vector_find(&m->v, m->sh + i * m->es, el_cmp3, &es);
        CHECK(r >= 0 && (size_t)r <= i);
    }
}

static void m_reverse(struct model * const m)
{
    const size_t ocap = cstl_vector_capacity(&m->v);
    unsigned char t[64];
    size_t i, j;

    cstl_vector_resize(&m->cx->log, 0);
    if (rnd() & 1) {
        sw_m = m;
        __cstl_vector_reverse(&m->v, chk_swap);
    } else {
        cstl_vector_reverse(&m->v);
    }
    CHECK(cstl_vector_size(&m->cx->log) == 0);
    CHECK(cstl_vector_capacity(&m->v) == ocap);

    if (m->n > 1) {
        for (i = 0, j = m->n - 1; i < j; i++, j--) {
            memcpy(t, m->sh + i * m->es, m->es);
            memcpy(m->sh + i * m->es, m->sh + j * m->es, m->es);
            memcpy(m->sh + j * m->es, t, m->es);
        }
    }
    m_check(m);
}

static void m_swap(struct model * const a, struct model * const b)
{
    struct model t;
    const size_t acap = cstl_vector_capacity(&a->v);
    const size_t bcap = cstl_vector_capacity(&b->v);
    void * const ad = cstl_vector_data(&a->v);
    void * const bd = cstl_vector_data(&b->v);

    cstl_vector_swap(&a->v, &b->v);

    CHECK(cstl_vector_capacity(&a->v) == bcap);
    CHECK(cstl_vector_capacity(&b->v) == acap);
    CHECK(cstl_vector_data(&a->v) == bd);
    CHECK(cstl_vector_data(&b->v) == ad);

    /* swap everything in the model but the vector objects themselves */
    t = *a;
    a->es = b->es; a->xt = b->xt; a->sh = b->sh; a->n = b->n;
    a->shcap = b->shcap; a->entered = b->entered; a->left = b->left;
    a->cx = b->cx;
    b->es = t.es; b->xt = t.xt; b->sh = t.sh; b->n = t.n;
    b->shcap = t.shcap; b->entered = t.entered; b->left = t.left;
    b->cx = t.cx;

    m_check(a);
    m_check(b);
}

static void m_poke(struct model * const m)
{
    if (m->n > 0) {
        const size_t i = rnd() % m->n;
        unsigned char * const e = cstl_vector_at(&m->v, i);
        size_t j;
        /* leave the id (first 4 bytes) alone when ids are tracked */
        for (j = m->cx->idmode ? sizeof(uint32_t) : 0; j < m->es; j++) {
            e[j] = (unsigned char)rnd();
        }
        memcpy(m->sh + i * m->es, e, m->es);
        m_check(m);
    }
}

/* ---- things that must (or must not) abort: run in a child ---- */

enum { P_AT, P_AT_CONST, P_RESIZE, P_RESERVE };

static void quiet_child(void)
{
    struct rlimit rl;
    rl.rlim_cur = rl.rlim_max = 0;
    setrlimit(RLIMIT_CORE, &rl);
}

/* returns 1 if the call aborted, 0 if it returned */
static int probe(struct model * const m, const int what, const size_t arg)
{
    pid_t pid;
    int st;

    fflush(stdout);
    fflush(stderr);
    g_forks++;

    pid = fork();
    CHECK(pid >= 0);
    if (pid == 0) {
        quiet_child();
        switch (what) {
        case P_AT:
            (void)cstl_vector_at(&m->v, arg);
            break;
        case P_AT_CONST:
            (void)cstl_vector_at_const(&m->v, arg);
            break;
        case P_RESIZE:
            cstl_vector_resize(&m->v, arg);
            /* if it returned it had better be true */
            if (cstl_vector_size(&m->v) != arg
                || cstl_vector_capacity(&m->v) < arg) {
                _exit(3);
            }
            break;
        case P_RESERVE:
            cstl_vector_reserve(&m->v, arg);
            break;
        }
        _exit(0);
    }
    CHECK(waitpid(pid, &st, 0) == pid);
    if (WIFSIGNALED(st)) {
        CHECK(WTERMSIG(st) == SIGABRT);
        return 1;
    }
    CHECK(WIFEXITED(st) && WEXITSTATUS(st) == 0);
    return 0;
}

static size_t huge_size(const size_t es, const size_t n, const size_t cap)
{
    const size_t q = SIZE_MAX / es;

    switch (rnd() % 16) {
    case 0: return SIZE_MAX;
    case 1: return SIZE_MAX - 1;
    case 2: return SIZE_MAX - 2;
    case 3: return q;
    case 4: return q - 1;
    case 5: return q - 2;
    case 6: return q < SIZE_MAX ? q + 1 : q;
    case 7: return q < SIZE_MAX - 1 ? q + 2 : q;
    case 8: return SIZE_MAX / 2;
    case 9: return SIZE_MAX / 2 + 1;
    case 10: return q / 2 + 1;
    case 11: return SIZE_MAX - n;
    case 12: return SIZE_MAX - cap;
    case 13: return q - cap;
    case 14: return q - (rnd() % 64);
    default: return SIZE_MAX - (rnd() % 64);
    }
}

static void m_probe(struct model * const m)
{
    const size_t n = m->n;
    const size_t cap = cstl_vector_capacity(&m->v);

    switch (rnd() % 8) {
    case 0:
        CHECK(probe(m, P_AT, n) == 1);
        break;
    case 1:
        CHECK(probe(m, P_AT_CONST, n + (rnd() % 3)) == 1);
        break;
    case 2:
        CHECK(probe(m, P_AT, SIZE_MAX - (rnd() % 2)) == 1);
        break;
    case 3:
        /* capacity is not size */
        CHECK(probe(m, P_AT, cap) == 1);
        if (cap > n) {
            CHECK(probe(m, P_AT, cap - 1) == 1);
        }
        break;
    case 4:
        if (n > 0) {
            CHECK(probe(m, P_AT, n - 1) == 0);
            CHECK(probe(m, P_AT_CONST, 0) == 0);
        }
        break;
    case 5:
    case 6:
        CHECK(probe(m, P_RESIZE, huge_size(m->es, n, cap)) == 1);
        break;
    default:
        CHECK(probe(m, P_RESERVE, huge_size(m->es, n, cap)) == 0);
        break;
    }
    /* the parent's object is untouched */
    m_check(m);
}

/* allocation failure for a size whose byte count IS representable */
static void oom_probe(const size_t es)
{
    const size_t want = ((size_t)1 << 30) / es;
    pid_t pid;
    int st, pass;

    for (pass = 0; pass < 2; pass++) {
        fflush(stdout);
        fflush(stderr);
        g_forks++;
        pid = fork();
        CHECK(pid >= 0);
        if (pid == 0) {
            struct cstl_vector v;
            struct rlimit rl;
            unsigned char ref[64 * 10];
            unsigned char * d;
            size_t i, cap;

            quiet_child();
            rl.rlim_cur = rl.rlim_max = (rlim_t)256 << 20;
            if (setrlimit(RLIMIT_AS, &rl) != 0) {
                _exit(2);
            }

            cstl_vector_init(&v, es);
            cstl_vector_resize(&v, 10);
            d = cstl_vector_data(&v);
            for (i = 0; i < 10 * es; i++) {
                ref[i] = d[i] = (unsigned char)(i * 7 + 1);
            }
            cap = cstl_vector_capacity(&v);

            if (pass == 0) {
                cstl_vector_reserve(&v, want);
                if (cstl_vector_capacity(&v) >= want) {
                    _exit(2);   /* the limit had no effect; nothing to see */
                }
                if (cstl_vector_capacity(&v) != cap
                    || cstl_vector_size(&v) != 10
                    || cstl_vector_data(&v) != (void *)d
                    || memcmp(d, ref, 10 * es) != 0) {
                    _exit(1);
                }
                /* still fully usable afterwards */
                cstl_vector_resize(&v, 20);
                d = cstl_vector_data(&v);
                if (cstl_vector_size(&v) != 20
                    || cstl_vector_capacity(&v) < 20
                    || memcmp(d, ref, 10 * es) != 0) {
                    _exit(1);
                }
                memset(d, 0x11, 20 * es);
                cstl_vector_clear(&v);
                _exit(0);
            }
            cstl_vector_resize(&v, want);
            _exit(4);
        }
        CHECK(waitpid(pid, &st, 0) == pid);
        if (pass == 0) {
            CHECK(WIFEXITED(st));
            if (WEXITSTATUS(st) == 2) {
                return;
            }
            CHECK(WEXITSTATUS(st) == 0);
        } else {
            CHECK(WIFSIGNALED(st) && WTERMSIG(st) == SIGABRT);
        }
    }
}

/* ---- driver ---- */

static size_t pick_size(struct model * const m)
{
    const size_t n = m->n;
    const size_t cap = cstl_vector_capacity(&m->v);
    size_t k;

    switch (rnd() % 8) {
    case 0: k = rnd() % 9; break;
    case 1: k = n + (rnd() % 5); k = k >= 2 ? k - 2 : 0; break;
    case 2: k = cap + (rnd() % 5); k = k >= 2 ? k - 2 : 0; break;
    case 3: k = 0; break;
    case 4: k = cap; break;
    case 5: k = cap + 1; break;
    case 6: k = rnd() % 64; break;
    default: k = rnd() % MAXN; break;
    }
    if (k > MAXN) {
        k = MAXN;
    }
    return k;
}

static void m_fini(struct model * const m)
{
    m_clear(m);
    if (m->xt == 1) {
        CHECK(m->cx->ncons == m->cx->ndest);
    }
    if (m->cx->idmode) {
        uint32_t i;
        for (i = 0; i < m->cx->next_id; i++) {
            CHECK(m->cx->live[i] == 0);
        }
    }
    cstl_vector_clear(&m->cx->log);
    free(m->cx->live);
    free(m->cx);
    free(m->sh);
}

static void run(const size_t es, const int xt,
                const size_t es2, const int xt2,
                const unsigned seed, const unsigned nops)
{
    struct model a, b;
    unsigned op;

    g_es = es; g_xt = xt; g_seed = seed;
    rng_s = 0x9e3779b97f4a7c15ull ^ ((uint64_t)seed << 32)
        ^ ((uint64_t)es << 8) ^ (uint64_t)xt;
    rnd(); rnd();

    m_init(&a, es, xt);
    m_init(&b, es2, xt2);

    for (op = 0; op < nops; op++) {
        struct model * const m = (rnd() % 4 == 0) ? &b : &a;
        const unsigned r = rnd() % 100;

        g_op = op;
        g_ops_total++;
        g_es = m->es; g_xt = m->xt;

        if (r < 34) {
            m_resize(m, pick_size(m));
        } else if (r < 46) {
            m_reserve(m, pick_size(m));
        } else if (r < 54) {
            m_reserve_huge(m, huge_size(m->es, m->n,
                                        cstl_vector_capacity(&m->v)));
        } else if (r < 62) {
            m_shrink(m);
        } else if (r < 66) {
            m_clear(m);
        } else if (r < 76) {
            m_sort(m, (int)(rnd() % 5));
        } else if (r < 83) {
            m_reverse(m);
        } else if (r < 89) {
            m_swap(&a, &b);
        } else if (r < 96) {
            m_poke(m);
        } else {
            m_probe(m);
        }
    }

    m_fini(&a);
    m_fini(&b);
}

/* a few fixed scenarios worth spelling out */
static void fixed(const size_t es, const int xt)
{
    struct model m;
    size_t i;

    g_es = es; g_xt = xt; g_seed = 0; g_op = 0;
    rng_s = 0x1234567ull + es * 16 + (unsigned)xt;

    m_init(&m, es, xt);

    /* everything on a pristine object */
    m_shrink(&m);
    m_reverse(&m);
    m_sort(&m, 4);
    m_reserve(&m, 0);
    m_reserve_huge(&m, SIZE_MAX);
    m_reserve_huge(&m, SIZE_MAX / es);
    m_resize(&m, 0);
    CHECK(probe(&m, P_AT, 0) == 1);
    CHECK(probe(&m, P_RESIZE, SIZE_MAX) == 1);
    CHECK(probe(&m, P_RESIZE, SIZE_MAX / es) == 1);
    CHECK(probe(&m, P_RESIZE, SIZE_MAX / es - 1) == 1);
    m_clear(&m);

    /* reserve(0) / shrink on an empty-but-allocated object, then reuse */
    m_reserve(&m, 5);
    m_shrink(&m);
    m_sort(&m, 0);
    m_reverse(&m);
    m_resize(&m, 1);
    m_sort(&m, 1);
    m_reverse(&m);
    m_resize(&m, 0);
    m_shrink(&m);
    m_shrink(&m);
    m_reserve(&m, 0);
    m_resize(&m, 3);
    m_reverse(&m);
    m_sort(&m, 2);
    m_resize(&m, 0);
    m_shrink(&m);
    m_clear(&m);
    m_clear(&m);

    /* grow one by one; exact-fit capacity at every step */
    for (i = 1; i <= 40; i++) {
        m_resize(&m, i);
        if (i % 7 == 0) {
            m_sort(&m, (int)(i % 5));
            m_reverse(&m);
        }
    }
    /* size == capacity: sort and reverse need their scratch element */
    m_shrink(&m);
    for (i = 0; i < 5; i++) {
        m_reverse(&m);
        m_sort(&m, (int)i);
    }
    CHECK(probe(&m, P_AT, m.n) == 1);
    CHECK(probe(&m, P_AT, m.n - 1) == 0);
    CHECK(probe(&m, P_RESIZE, SIZE_MAX - m.n) == 1);
    m_reserve_huge(&m, SIZE_MAX - 1);

    /* shrink one by one with a shrink_to_fit at every step */
    for (i = 40; i-- > 0;) {
        m_resize(&m, i);
        m_shrink(&m);
        if (i % 5 == 0) {
            m_sort(&m, 3);
        }
    }
    m_resize(&m, 17);
    m_resize(&m, 4);
    m_resize(&m, 9);
    m_sort(&m, 2);

    m_fini(&m);
}

int main(void)
{
    static const size_t sizes[] = {
        1, 2, 3, 4, 5, 7, 8, 12, 16, 24, 31, 32, 48, 63, 64,
    };
    const size_t ns = sizeof(sizes) / sizeof(*sizes);
    size_t i;
    int xt;
    unsigned seed;

    for (i = 0; i < ns; i++) {
        for (xt = 0; xt < 4; xt++) {
            fixed(sizes[i], xt);
        }
        oom_probe(sizes[i]);
    }

    for (i = 0; i < ns; i++) {
        for (xt = 0; xt < 4; xt++) {
            for (seed = 1; seed <= 3; seed++) {
                run(sizes[i], xt,
                    sizes[(i * 7 + 3 + seed) % ns], (xt + (int)seed) % 4,
                    seed, 500);
            }
        }
    }

    printf("C09 ok: %lu ops, %lu forked probes\n", g_ops_total, g_forks);
    return 0;
}
