/*
 * C02: red-black trees satisfy the red-black rules after every insert
 * and erase.
 *
 * Standalone test, public API only.  The private colour of a node is not
 * visible through the public API, so the rules are checked on what IS
 * visible:
 *
 *  - cstl_rbtree_foreach() reports PRE/MID/POST/LEAF visits, from which
 *    the exact shape of the tree (who is whose left/right child) is
 *    reconstructed, forwards and backwards (the two must be mirror images);
 *  - the shape must ADMIT a red-black colouring with a black root (decided
 *    exactly by a small dynamic program over the shape); this is the
 *    strongest colour-independent consequence of "root black, no red-red,
 *    equal black count on every path";
 *  - cstl_rbtree_height() must agree with the reconstructed shape (it walks
 *    the parent links upward from every leaf, so it also vouches for the
 *    parent links on those paths), max <= 2*log2(n+1) and max <= 2*min;
 *  - the in-order sequence is sorted, holds exactly the elements the model
 *    says are held, find/erase hand back the right elements, and the
 *    comparator is called a logarithmic number of times.
 *
 * Workloads: every operation sequence within a small scope (inserts, hinted
 * inserts, erases over a few keys, duplicates included), every insert order
 * x every erase order for small n, "erase each single node" of many larger
 * trees, long seeded random histories with heavy duplication on larger
 * trees, several element types (different node offsets), statically
 * initialised trees, swap, clear (with callbacks that take ownership and
 * scribble on / re-use the node), comparators and visitors that call into
 * the library on OTHER containers, plus the layers above and below
 * (cstl_map, cstl_bintree, cstl_heap).
 */

#include <stdio.h>
#include <stdlib.h>
#include <string.h>
#include <stdint.h>
#include <limits.h>

#include "cstl/bintree.h"
#include "cstl/rbtree.h"
#include "cstl/map.h"
#include "cstl/heap.h"

#define FAIL(...)                                                       \
    do {                                                                \
        fprintf(stderr, "FAIL %s:%d: ", __FILE__, __LINE__);            \
        fprintf(stderr, __VA_ARGS__);                                   \
        fprintf(stderr, "\n");                                          \
        exit(1);                                                        \
    } while (0)
#define CHECK(C) do { if (!(C)) { FAIL("%s", #C); } } while (0)

/* ------------------------------------------------------------------ */
/* deterministic random numbers                                        */

static uint64_t rng_state = 0x9e3779b97f4a7c15ull;

static void rng_seed(const uint64_t s)
{
    rng_state = s * 0x2545f4914f6cdd1dull + 0x9e3779b97f4a7c15ull;
    if (rng_state == 0) {
        rng_state = 1;
    }
}

static uint64_t rng(void)
{
    uint64_t x = rng_state;
    x ^= x >> 12;
    x ^= x << 25;
    x ^= x >> 27;
    rng_state = x;
    return x * 0x2545f4914f6cdd1dull;
}

static unsigned long rnd(const unsigned long n)
{
    return (unsigned long)((rng() >> 11) % n);
}

/* ------------------------------------------------------------------ */
/* elements: several types, the tree node at different offsets         */

struct hdr
{
    long key;
    int in_tree;
    unsigned seen;
    size_t idx;
};

struct ea
{
    struct hdr h;
    struct cstl_rbtree_node n;
};

struct eb
{
    char lead[3];
    struct cstl_rbtree_node n;
    double pad;
    struct hdr h;
    char tail[5];
};

struct ec
{
    struct cstl_rbtree_node n;
    struct hdr h;
};

struct ebt
{
    struct hdr h;
    struct cstl_bintree_node bn;
};

struct eh
{
    struct cstl_heap_node hn;
    struct hdr h;
};

static struct hdr * hdr_a(const void * const e)
{
    return &((struct ea *)e)->h;
}
static struct hdr * hdr_b(const void * const e)
{
    return &((struct eb *)e)->h;
}
static struct hdr * hdr_c(const void * const e)
{
    return &((struct ec *)e)->h;
}
static struct hdr * hdr_bt(const void * const e)
{
    return &((struct ebt *)e)->h;
}

typedef struct hdr * hdr_func_t(const void *);

/* ------------------------------------------------------------------ */
/* event log and shape reconstruction                                  */

#define MAXN    (1u << 15)

struct ev
{
    const void * e;
    cstl_bintree_visit_order_t o;
};

static struct ev evlog[4 * MAXN];
static size_t evn;

static int rec_visit(const void * const e,
                     const cstl_bintree_visit_order_t o,
                     void * const p)
{
    (void)p;
    if (evn >= sizeof(evlog) / sizeof(evlog[0])) {
        FAIL("too many visits");
    }
    evlog[evn].e = e;
    evlog[evn].o = o;
    evn++;
    return 0;
}

struct sn
{
    const void * e;
    int c[2];
    unsigned depth;
};

struct shape
{
    struct sn v[MAXN];
    size_t n;
    size_t minleaf, maxleaf;
    const void * inorder[MAXN];
    size_t nin;
};

static struct shape sh[2];

static size_t ppos;

/* parse one subtree out of the event log; returns its node index */
static int parse_subtree(struct shape * const s, const unsigned depth)
{
    int me;

    if (ppos >= evn) {
        FAIL("visit log ends in the middle of a subtree");
    }
    if (s->n >= MAXN) {
        FAIL("shape too large");
    }
    if (depth > 4096) {
        FAIL("tree absurdly deep");
    }

    me = (int)s->n++;
    s->v[me].e = evlog[ppos].e;
    s->v[me].c[0] = -1;
    s->v[me].c[1] = -1;
    s->v[me].depth = depth;

    if (evlog[ppos].o == CSTL_BINTREE_VISIT_ORDER_LEAF) {
        ppos++;
        s->inorder[s->nin++] = s->v[me].e;
        if (depth < s->minleaf) {
            s->minleaf = depth;
        }
        if (depth > s->maxleaf) {
            s->maxleaf = depth;
        }
        return me;
    }

    if (evlog[ppos].o != CSTL_BINTREE_VISIT_ORDER_PRE) {
        FAIL("subtree starts with visit order %d", (int)evlog[ppos].o);
    }
    ppos++;

    if (ppos >= evn) {
        FAIL("visit log truncated");
    }
    if (!(evlog[ppos].e == s->v[me].e
          && evlog[ppos].o == CSTL_BINTREE_VISIT_ORDER_MID)) {
        const int c = parse_subtree(s, depth + 1);
        s->v[me].c[0] = c;
    }

    if (ppos >= evn
        || evlog[ppos].e != s->v[me].e
        || evlog[ppos].o != CSTL_BINTREE_VISIT_ORDER_MID) {
        FAIL("missing MID visit");
    }
    ppos++;
    s->inorder[s->nin++] = s->v[me].e;

    if (ppos >= evn) {
        FAIL("visit log truncated");
    }
    if (!(evlog[ppos].e == s->v[me].e
          && evlog[ppos].o == CSTL_BINTREE_VISIT_ORDER_POST)) {
        const int c = parse_subtree(s, depth + 1);
        s->v[me].c[1] = c;
    }

    if (ppos >= evn
        || evlog[ppos].e != s->v[me].e
        || evlog[ppos].o != CSTL_BINTREE_VISIT_ORDER_POST) {
        FAIL("missing POST visit");
    }
    ppos++;

    if (s->v[me].c[0] < 0 && s->v[me].c[1] < 0) {
        FAIL("childless element visited as a non-leaf");
    }

    return me;
}

static void parse_log(struct shape * const s)
{
    s->n = 0;
    s->nin = 0;
    s->minleaf = SIZE_MAX;
    s->maxleaf = 0;
    ppos = 0;

    if (evn > 0) {
        (void)parse_subtree(s, 1);
        if (ppos != evn) {
            FAIL("visits continue after the root was finished");
        }
    } else {
        s->minleaf = 0;
    }
}

/* a is a node of sh[0] (forward walk), b of sh[1] (reverse walk) */
static void check_mirror(const int a, const int b)
{
    if (a < 0 || b < 0) {
        if (a >= 0 || b >= 0) {
            FAIL("forward and reverse walks disagree about the shape");
        }
        return;
    }
    if (sh[0].v[a].e != sh[1].v[b].e) {
        FAIL("forward and reverse walks disagree about an element");
    }
    check_mirror(sh[0].v[a].c[0], sh[1].v[b].c[1]);
    check_mirror(sh[0].v[a].c[1], sh[1].v[b].c[0]);
}

/*
 * does the shape admit a red-black colouring with a black root?
 * for every subtree: the set (bit mask) of black heights it can have
 * when its root is black / red. a missing child is black with height 0
 */
static uint64_t dp_b[MAXN], dp_r[MAXN];

static int shape_colourable(const struct shape * const s)
{
    size_t i;

    if (s->n == 0) {
        return 1;
    }

    for (i = s->n; i-- > 0;) {
        const int l = s->v[i].c[0], r = s->v[i].c[1];
        const uint64_t lb = l < 0 ? 1 : dp_b[l], lr = l < 0 ? 0 : dp_r[l];
        const uint64_t rb = r < 0 ? 1 : dp_b[r], rr = r < 0 ? 0 : dp_r[r];

        dp_b[i] = ((lb | lr) & (rb | rr)) << 1;
        dp_r[i] = lb & rb;
    }

    return dp_b[0] != 0;
}

static int height_within_bound(const size_t max, const size_t n)
{
    /* max <= 2*log2(n+1)  <=>  2^max <= (n+1)^2 */
    if (max > 60) {
        return 0;
    }
    return ((uint64_t)1 << max) <= (uint64_t)(n + 1) * (uint64_t)(n + 1);
}

/* ------------------------------------------------------------------ */
/* generic tree verification                                            */

struct walker
{
    const void * tree;
    void (* rec)(const void *, cstl_bintree_foreach_dir_t);
    void (* height)(const void *, size_t *, size_t *);
    size_t (* size)(const void *);
    hdr_func_t * hdr;
    int rb;
    /* when not NULL, elements are ordered by their key's rank in this tree */
    const struct cstl_rbtree * rank;
};

static long rank_of(const struct cstl_rbtree *, long);

static long order_of(const struct walker * const w, const void * const e)
{
    if (w->rank != NULL) {
        return rank_of(w->rank, w->hdr(e)->key);
    }
    return w->hdr(e)->key;
}

static void rb_rec(const void * const t, const cstl_bintree_foreach_dir_t d)
{
    int res;
    evn = 0;
    res = cstl_rbtree_foreach(t, rec_visit, NULL, d);
    CHECK(res == 0);
}
static void rb_height(const void * const t, size_t * const mn, size_t * const mx)
{
    cstl_rbtree_height(t, mn, mx);
}
static size_t rb_size(const void * const t)
{
    return cstl_rbtree_size(t);
}

static void bt_rec(const void * const t, const cstl_bintree_foreach_dir_t d)
{
    int res;
    evn = 0;
    res = cstl_bintree_foreach(t, rec_visit, NULL, d);
    CHECK(res == 0);
}
static void bt_height(const void * const t, size_t * const mn, size_t * const mx)
{
    cstl_bintree_height(t, mn, mx);
}
static size_t bt_size(const void * const t)
{
    return cstl_bintree_size(t);
}

static unsigned stamp;
static unsigned long n_verified;
/*
 * a running digest of every shape seen (keys and structure only); it is
 * printed for information, e.g. to compare two builds of the library
 */
static uint64_t shape_digest = 0xcbf29ce484222325ull;

static void digest(const uint64_t v)
{
    shape_digest = (shape_digest ^ v) * 0x100000001b3ull;
}

static void verify_walker(const struct walker * const w, const size_t expect_n)
{
    size_t mn = 12345, mx = 54321, i;

    n_verified++;

    CHECK(w->size(w->tree) == expect_n);

    w->rec(w->tree, CSTL_BINTREE_FOREACH_DIR_FWD);
    parse_log(&sh[0]);
    CHECK(sh[0].n == expect_n);
    CHECK(sh[0].nin == expect_n);

    w->height(w->tree, &mn, &mx);
    if (expect_n == 0) {
        CHECK(evn == 0);
        CHECK(mn == 0 && mx == 0);
        w->rec(w->tree, CSTL_BINTREE_FOREACH_DIR_REV);
        CHECK(evn == 0);
        return;
    }

    /* the reported heights are those of the shape the walk showed */
    if (mn != sh[0].minleaf || mx != sh[0].maxleaf) {
        FAIL("height reports %lu/%lu, shape has %lu/%lu",
             (unsigned long)mn, (unsigned long)mx,
             (unsigned long)sh[0].minleaf, (unsigned long)sh[0].maxleaf);
    }

    for (i = 0; i < sh[0].n; i++) {
        digest((uint64_t)w->hdr(sh[0].v[i].e)->key);
        digest((uint64_t)((sh[0].v[i].c[0] >= 0) * 2 + (sh[0].v[i].c[1] >= 0)));
    }

    /* sorted, and holds exactly the elements it should, each once */
    stamp++;
    for (i = 0; i < sh[0].nin; i++) {
        struct hdr * const h = w->hdr(sh[0].inorder[i]);
        if (h->in_tree != 1) {
            FAIL("tree holds an element that was never put in / was erased");
        }
        if (h->seen == stamp) {
            FAIL("element linked into the tree twice");
        }
        h->seen = stamp;
        if (i > 0
            && order_of(w, sh[0].inorder[i - 1])
            > order_of(w, sh[0].inorder[i])) {
            FAIL("in-order walk is not sorted");
        }
    }

    /* walking backwards shows the mirror image of the same tree */
    w->rec(w->tree, CSTL_BINTREE_FOREACH_DIR_REV);
    parse_log(&sh[1]);
    CHECK(sh[1].n == expect_n);
    check_mirror(0, 0);
    for (i = 0; i < expect_n; i++) {
        CHECK(sh[0].inorder[i] == sh[1].inorder[expect_n - 1 - i]);
    }

    if (w->rb) {
        if (!height_within_bound(mx, expect_n)) {
            FAIL("height %lu exceeds 2*log2(%lu+1)",
                 (unsigned long)mx, (unsigned long)expect_n);
        }
        if (mx > 2 * mn) {
            FAIL("longest path %lu more than twice the shortest %lu",
                 (unsigned long)mx, (unsigned long)mn);
        }
        if (!shape_colourable(&sh[0])) {
            FAIL("shape of %lu elements admits no red-black colouring",
                 (unsigned long)expect_n);
        }
    }
}

/* ------------------------------------------------------------------ */
/* red-black tree under test, with its model                            */

struct tctx
{
    struct cstl_rbtree * t;
    hdr_func_t * hdr;
    void * probe;
    size_t n;
    unsigned long cmps;
    /* optional: compare through another container */
    const struct cstl_rbtree * rank;
};

static int cmp_key(const void * const a, const void * const b, void * const p)
{
    struct tctx * const c = p;
    const long ka = c->hdr(a)->key, kb = c->hdr(b)->key;
    c->cmps++;
    return (ka > kb) - (ka < kb);
}

/*
 * rank tree: elements of type ea keyed by key; idx carries the rank.
 * used by a comparator of a different tree (library re-entered on
 * another object from inside a callback)
 */
static struct tctx rank_ctx;
static struct ea rank_probe_mem;
static DECLARE_CSTL_RBTREE(rank_tree, struct ea, n, cmp_key, &rank_ctx);

static long rank_of(const struct cstl_rbtree * const rt, const long key)
{
    struct ea probe;
    const struct ea * f;
    memset(&probe, 0, sizeof(probe));
    probe.h.key = key;
    f = cstl_rbtree_find(rt, &probe, NULL);
    if (f == NULL) {
        FAIL("rank tree lost key %ld", key);
    }
    return (long)f->h.idx;
}

static int cmp_rank(const void * const a, const void * const b, void * const p)
{
    struct tctx * const c = p;
    const long ra = rank_of(c->rank, c->hdr(a)->key);
    const long rb = rank_of(c->rank, c->hdr(b)->key);
    c->cmps++;
    return (ra > rb) - (ra < rb);
}

static void verify(struct tctx * const c)
{
    struct walker w;
    size_t i, step;
    size_t mn, mx;

    w.tree = c->t;
    w.rec = rb_rec;
    w.height = rb_height;
    w.size = rb_size;
    w.hdr = c->hdr;
    w.rb = 1;
    w.rank = c->rank;

    verify_walker(&w, c->n);

    if (c->n == 0) {
        return;
    }

    cstl_rbtree_height(c->t, &mn, &mx);

    /* every held key can be found, in at most `height` comparisons */
    step = c->n <= 48 ? 1 : c->n / 24;
    for (i = 0; i < c->n; i += step) {
        const void * par = &par;
        const void * f;
        unsigned long before;

        c->hdr(c->probe)->key = c->hdr(sh[0].inorder[i])->key;
        before = c->cmps;
        f = cstl_rbtree_find(c->t, c->probe, &par);
        CHECK(f != NULL);
        CHECK(c->hdr(f)->key == c->hdr(c->probe)->key);
        CHECK(c->hdr(f)->in_tree == 1);
        CHECK(c->cmps - before <= mx);
        CHECK((par == NULL) == (f == sh[0].v[0].e));
        CHECK(par != &par);
    }
}

static void * new_elem(const struct tctx * const c, const size_t sz,
                       const long key)
{
    void * const e = malloc(sz);
    struct hdr * h;
    CHECK(e != NULL);
    memset(e, 0x5a, sz);
    h = c->hdr(e);
    h->key = key;
    h->in_tree = 0;
    h->seen = 0;
    h->idx = 0;
    return e;
}

static unsigned long log_bound(const size_t n)
{
    /* a generous multiple of log2(n+1) */
    unsigned long b = 0;
    size_t m = n + 1;
    while (m > 0) {
        b++;
        m >>= 1;
    }
    return 4 * b + 4;
}

static void do_insert(struct tctx * const c, void * const e, const int hinted)
{
    const unsigned long before = c->cmps;
    void * par = NULL;

    CHECK(c->hdr(e)->in_tree == 0);
    if (hinted) {
        const void * cp = NULL;
        const void * f;
        c->hdr(c->probe)->key = c->hdr(e)->key;
        f = cstl_rbtree_find(c->t, c->probe, &cp);
        CHECK(f == NULL);
        par = (void *)cp;
    }
    cstl_rbtree_insert(c->t, e, par);
    c->hdr(e)->in_tree = 1;
    c->n++;
    CHECK(c->cmps - before <= 2 * log_bound(c->n));
}

/* returns the erased element or NULL */
static void * do_erase(struct tctx * const c, const long key)
{
    const void * f;
    void * r;
    unsigned long before;

    c->hdr(c->probe)->key = key;
    f = cstl_rbtree_find(c->t, c->probe, NULL);
    before = c->cmps;
    r = cstl_rbtree_erase(c->t, c->probe);
    CHECK(c->cmps - before <= log_bound(c->n));
    /* the first element found that matches is the one removed */
    CHECK(r == f);
    if (r != NULL) {
        CHECK(c->hdr(r)->key == key || c->rank != NULL);
        CHECK(c->hdr(r)->in_tree == 1);
        c->hdr(r)->in_tree = 0;
        CHECK(c->n > 0);
        c->n--;
    }
    return r;
}

static void clr_mark(void * const e, void * const p)
{
    struct tctx * const c = p;
    CHECK(c->hdr(e)->in_tree == 1);
    c->hdr(e)->in_tree = 0;
    c->hdr(e)->idx = 0;
}

static void clr_free(void * const e, void * const p)
{
    struct tctx * const c = p;
    CHECK(c->hdr(e)->in_tree == 1);
    c->hdr(e)->in_tree = 0;
    free(e);
}

/* ------------------------------------------------------------------ */
/* phase 1: every operation sequence within a small scope               */

#define XMAX 12

static struct tctx xctx;
static struct ea xprobe;
static DECLARE_CSTL_RBTREE(xtree, struct ea, n, cmp_key, &xctx);
static struct ea xpool[XMAX];
static size_t xused;
static int xseq[XMAX];
static unsigned long xcount;

/* op = kind * K + key; kind 0 insert, 1 hinted insert, 2 erase */
static int x_apply(const int K, const int op)
{
    const int kind = op / K;
    const long key = op % K;

    if (kind == 2) {
        return do_erase(&xctx, key) != NULL;
    }

    if (kind == 1) {
        /* a hinted insert of an absent key (as cstl_map does it) */
        xprobe.h.key = key;
        if (cstl_rbtree_find(&xtree, &xprobe, NULL) != NULL) {
            return 0;
        }
    }

    xpool[xused].h.key = key;
    xpool[xused].h.in_tree = 0;
    do_insert(&xctx, &xpool[xused], kind == 1);
    xused++;
    return 1;
}

static void x_reset(void)
{
    /* back to "as it was immediately after being initialized" */
    cstl_rbtree_clear(&xtree, clr_mark, &xctx);
    xctx.n = 0;
    xused = 0;
}

static void x_dfs(const int K, const int L, const int depth)
{
    int op;

    for (op = 0; op < 3 * K; op++) {
        int i;

        x_reset();
        for (i = 0; i < depth; i++) {
            (void)x_apply(K, xseq[i]);
        }

        if (!x_apply(K, op)) {
            continue;
        }
        xcount++;
        verify(&xctx);

        if (depth + 1 < L) {
            xseq[depth] = op;
            x_dfs(K, L, depth + 1);
        }
    }
}

static void phase_exhaustive(void)
{
    static const int cfg[][2] = {
        { 1, 12 }, { 2, 10 }, { 3, 8 }, { 4, 7 }, { 6, 5 }, { 9, 4 },
    };
    size_t i;

    memset(&xctx, 0, sizeof(xctx));
    xctx.t = &xtree;
    xctx.hdr = hdr_a;
    xctx.probe = &xprobe;

    /* the statically initialised, never touched tree is a valid empty tree */
    verify(&xctx);

    for (i = 0; i < sizeof(cfg) / sizeof(cfg[0]); i++) {
        xcount = 0;
        x_dfs(cfg[i][0], cfg[i][1], 0);
        printf("  scope keys=%d len=%d: %lu states checked\n",
               cfg[i][0], cfg[i][1], xcount);
    }
    x_reset();
    verify(&xctx);
}

/* ------------------------------------------------------------------ */
/* phase 2: every insert order x every erase order                      */

static int next_perm(int * const a, const int n)
{
    int i = n - 2, j = n - 1, t;
    while (i >= 0 && a[i] >= a[i + 1]) {
        i--;
    }
    if (i < 0) {
        return 0;
    }
    while (a[j] <= a[i]) {
        j--;
    }
    t = a[i]; a[i] = a[j]; a[j] = t;
    for (i = i + 1, j = n - 1; i < j; i++, j--) {
        t = a[i]; a[i] = a[j]; a[j] = t;
    }
    return 1;
}

static void perm_history(struct tctx * const c, struct eb * const pool,
                         const int * const ins, const int * const ers,
                         const int n, const int dups)
{
    int i;

    for (i = 0; i < n; i++) {
        /* with dups, keys collide pairwise: 0 0 1 1 2 2 ... */
        pool[i].h.key = dups ? ins[i] / 2 : ins[i];
        pool[i].h.in_tree = 0;
        do_insert(c, &pool[i], 0);
    }
    verify(c);
    for (i = 0; i < n; i++) {
        void * const r = do_erase(c, dups ? ers[i] / 2 : ers[i]);
        CHECK(r != NULL);
        verify(c);
    }
    CHECK(cstl_rbtree_size(c->t) == 0);
}

static void phase_perms(const int n, const int dups, const int erase_orders)
{
    struct cstl_rbtree t;
    struct tctx c;
    struct eb probe;
    struct eb pool[8];
    int ins[8], ers[8], i;
    unsigned long runs = 0;

    memset(&c, 0, sizeof(c));
    c.t = &t;
    c.hdr = hdr_b;
    c.probe = &probe;
    cstl_rbtree_init(&t, cmp_key, &c, offsetof(struct eb, n));

    for (i = 0; i < n; i++) {
        ins[i] = i;
    }
    do {
        for (i = 0; i < n; i++) {
            ers[i] = i;
        }
        if (erase_orders == 0) {
            /* every erase order */
            do {
                perm_history(&c, pool, ins, ers, n, dups);
                runs++;
            } while (next_perm(ers, n));
        } else {
            /* a handful of random erase orders */
            int k, j;
            for (j = 0; j < erase_orders; j++) {
                for (k = n - 1; k > 0; k--) {
                    const int x = (int)rnd((unsigned long)k + 1);
                    const int tmp = ers[k]; ers[k] = ers[x]; ers[x] = tmp;
                }
                perm_history(&c, pool, ins, ers, n, dups);
                runs++;
            }
        }
    } while (next_perm(ins, n));

    printf("  perms n=%d dups=%d: %lu histories\n", n, dups, runs);
}

/* ------------------------------------------------------------------ */
/* phase 3: erase each single node of many larger trees                 */

static long order_key(const int order, const int i, const int n)
{
    switch (order) {
    case 0: return i;                                   /* ascending */
    case 1: return n - 1 - i;                           /* descending */
    case 2: return (i % 2 == 0) ? i / 2 : n - 1 - i / 2; /* outside-in */
    case 3: return ((long)i * 7919) % n;                /* scattered */
    default: return (i * 3) / 7;                        /* runs of equals */
    }
}

static void phase_single_erase(void)
{
    struct cstl_rbtree t;
    struct tctx c;
    struct ec probe;
    static struct ec pool[160];
    int n, order, victim, i;
    unsigned long runs = 0;

    memset(&c, 0, sizeof(c));
    c.t = &t;
    c.hdr = hdr_c;
    c.probe = &probe;
    cstl_rbtree_init(&t, cmp_key, &c, offsetof(struct ec, n));

    for (n = 1; n <= 150; n += (n < 40 ? 1 : 11)) {
        for (order = 0; order < 5; order++) {
            for (victim = 0; victim < n; victim++) {
                for (i = 0; i < n; i++) {
                    pool[i].h.key = order_key(order, i, n);
                    pool[i].h.in_tree = 0;
                    do_insert(&c, &pool[i], 0);
                    if (victim == 0) {
                        verify(&c);
                    }
                }
                /* erase the victim first, then the rest around it */
                CHECK(do_erase(&c, pool[victim].h.key) != NULL);
                verify(&c);
                for (i = 1; i < n; i++) {
                    CHECK(do_erase(&c, pool[(victim + i) % n].h.key) != NULL);
                    if (n <= 24 || i % 5 == 0) {
                        verify(&c);
                    }
                }
                CHECK(c.n == 0);
                verify(&c);
                runs++;
            }
        }
    }
    printf("  single-erase: %lu histories\n", runs);
}

/* ------------------------------------------------------------------ */
/* phase 4: long random histories, heavy duplication, larger trees      */

static const long edge_keys[] = {
    LONG_MIN, LONG_MIN + 1, -2, -1, 0, 1, 2, LONG_MAX - 1, LONG_MAX
};

struct live
{
    void ** v;
    size_t n, cap;
};

static void live_add(struct live * const l, struct hdr * const h, void * const e)
{
    if (l->n == l->cap) {
        l->cap = l->cap ? 2 * l->cap : 64;
        l->v = realloc(l->v, l->cap * sizeof(*l->v));
        CHECK(l->v != NULL);
    }
    h->idx = l->n;
    l->v[l->n++] = e;
}

static void live_del(struct live * const l, hdr_func_t * const hdr,
                     void * const e)
{
    const size_t i = hdr(e)->idx;
    CHECK(i < l->n && l->v[i] == e);
    l->v[i] = l->v[--l->n];
    hdr(l->v[i])->idx = i;
}

static void phase_random(const uint64_t seed, const unsigned long ops,
                         const unsigned long nkeys, const size_t cap,
                         const int type)
{
    struct cstl_rbtree t;
    struct tctx c;
    struct live l = { NULL, 0, 0 };
    struct ea pa; struct eb pb; struct ec pc;
    size_t esz;
    unsigned long i;
    size_t peak = 0;
    int growing = 1;

    rng_seed(seed);
    memset(&c, 0, sizeof(c));
    c.t = &t;

    switch (type) {
    case 0:
        c.hdr = hdr_a; c.probe = &pa; esz = sizeof(struct ea);
        cstl_rbtree_init(&t, cmp_key, &c, offsetof(struct ea, n));
        break;
    case 1:
        c.hdr = hdr_b; c.probe = &pb; esz = sizeof(struct eb);
        cstl_rbtree_init(&t, cmp_key, &c, offsetof(struct eb, n));
        break;
    default:
        c.hdr = hdr_c; c.probe = &pc; esz = sizeof(struct ec);
        cstl_rbtree_init(&t, cmp_key, &c, offsetof(struct ec, n));
        break;
    }

    for (i = 0; i < ops; i++) {
        unsigned long r = rnd(100);
        long key;

        /* drift between filling up and draining */
        if (c.n >= cap) {
            growing = 0;
        } else if (c.n == 0) {
            growing = 1;
        } else if (rnd(2000) == 0) {
            growing = !growing;
        }

        if (nkeys <= sizeof(edge_keys) / sizeof(edge_keys[0])) {
            key = edge_keys[rnd(nkeys)];
        } else {
            key = (long)rnd(nkeys) - (long)(nkeys / 2);
        }

        if (r < (growing ? 65u : 35u) && c.n < cap) {
            void * const e = new_elem(&c, esz, key);
            int hinted = 0;
            if (rnd(3) == 0) {
                c.hdr(c.probe)->key = key;
                hinted = cstl_rbtree_find(&t, c.probe, NULL) == NULL;
            }
            do_insert(&c, e, hinted);
            live_add(&l, c.hdr(e), e);
        } else if (r < 90 && l.n > 0) {
            /* erase a key that is certainly held */
            void * const e = l.v[rnd(l.n)];
            void * const x = do_erase(&c, c.hdr(e)->key);
            CHECK(x != NULL);
            live_del(&l, c.hdr, x);
            memset(x, 0xee, esz);
            free(x);
        } else {
            /* erase a key that may or may not be held */
            void * const x = do_erase(&c, key);
            if (x != NULL) {
                live_del(&l, c.hdr, x);
                memset(x, 0xee, esz);
                free(x);
            }
        }

        CHECK(c.n == l.n);
        if (c.n > peak) {
            peak = c.n;
        }
        if (c.n <= 40 || i % 61 == 0) {
            verify(&c);
        }
    }

    verify(&c);
    /* drain what is left, smallest held key first / random */
    while (l.n > 0) {
        void * const e = l.v[rnd(l.n)];
        void * const x = do_erase(&c, c.hdr(e)->key);
        CHECK(x != NULL);
        live_del(&l, c.hdr, x);
        free(x);
        if (l.n % 17 == 0 || l.n < 30) {
            verify(&c);
        }
    }
    CHECK(cstl_rbtree_size(&t) == 0);
    free(l.v);
    printf("  random seed=%lu keys=%lu type=%d: %lu ops, peak %lu elements\n",
           (unsigned long)seed, nkeys, type, ops, (unsigned long)peak);
}

/* ------------------------------------------------------------------ */
/* phase 5: sequential growth to a large tree                           */

static void phase_large(void)
{
    static struct cstl_rbtree t;
    static struct tctx c;
    static struct ea probe;
    const size_t N = 20000;
    struct ea * const pool = malloc(N * sizeof(*pool));
    size_t i;

    CHECK(pool != NULL);
    memset(&c, 0, sizeof(c));
    c.t = &t;
    c.hdr = hdr_a;
    c.probe = &probe;
    cstl_rbtree_init(&t, cmp_key, &c, offsetof(struct ea, n));

    for (i = 0; i < N; i++) {
        pool[i].h.key = (long)i;
        pool[i].h.in_tree = 0;
        pool[i].h.seen = 0;
        do_insert(&c, &pool[i], 0);
        /* powers of two and their neighbours are where the bound is tight */
        if (((i + 1) & i) == 0 || ((i + 2) & (i + 1)) == 0
            || (i & (i - 1)) == 0 || i % 997 == 0) {
            verify(&c);
        }
    }
    verify(&c);
    /* erase from the middle outwards */
    for (i = 0; i < N; i++) {
        const size_t k = (i % 2 == 0) ? N / 2 + i / 2 : N / 2 - 1 - i / 2;
        CHECK(do_erase(&c, (long)k) == &pool[k]);
        if (((c.n + 1) & c.n) == 0 || ((c.n + 2) & (c.n + 1)) == 0
            || i % 991 == 0) {
            verify(&c);
        }
    }
    CHECK(c.n == 0);
    verify(&c);

    /* all equal keys */
    for (i = 0; i < 3000; i++) {
        pool[i].h.key = 7;
        do_insert(&c, &pool[i], 0);
        if (i < 70 || i % 211 == 0) {
            verify(&c);
        }
    }
    verify(&c);
    for (i = 0; i < 3000; i++) {
        CHECK(do_erase(&c, 7) != NULL);
        if (c.n < 70 || i % 211 == 0) {
            verify(&c);
        }
    }
    CHECK(do_erase(&c, 7) == NULL);
    free(pool);
    printf("  large sequential: ok\n");
}

/* ------------------------------------------------------------------ */
/* phase 6: callbacks using other containers, swap, clear               */

static struct tctx nested_other;
static unsigned long nested_count;

static int count_visit(const void * const e,
                       const cstl_bintree_visit_order_t o, void * const p)
{
    (void)e;
    if (o == CSTL_BINTREE_VISIT_ORDER_MID
        || o == CSTL_BINTREE_VISIT_ORDER_LEAF) {
        (*(unsigned long *)p)++;
    }
    return 0;
}

/* a visitor that walks and searches ANOTHER tree on every visit */
static int nested_visit(const void * const e,
                        const cstl_bintree_visit_order_t o, void * const p)
{
    unsigned long cnt = 0;
    size_t mn, mx;
    (void)p;

    CHECK(cstl_rbtree_foreach(nested_other.t, count_visit, &cnt,
                              CSTL_BINTREE_FOREACH_DIR_REV) == 0);
    CHECK(cnt == nested_other.n);
    cstl_rbtree_height(nested_other.t, &mn, &mx);
    CHECK(height_within_bound(mx, nested_other.n));
    (void)rank_of(&rank_tree, hdr_b(e)->key);
    if (o == CSTL_BINTREE_VISIT_ORDER_MID
        || o == CSTL_BINTREE_VISIT_ORDER_LEAF) {
        nested_count++;
    }
    return 0;
}

/* a visitor that stops the walk at the k-th in-order element */
struct stop_at
{
    unsigned long seen, at;
    const void * where;
};

static int stop_visit(const void * const e,
                      const cstl_bintree_visit_order_t o, void * const p)
{
    struct stop_at * const s = p;
    if (s->where != NULL) {
        FAIL("visited after being told to stop");
    }
    if (o == CSTL_BINTREE_VISIT_ORDER_MID
        || o == CSTL_BINTREE_VISIT_ORDER_LEAF) {
        if (s->seen == s->at) {
            s->where = e;
            return 1000 + (int)s->at;
        }
        s->seen++;
    }
    return 0;
}

/*
 * clear callback that takes ownership: scribbles over the node and then
 * links the element (through the very same node) into another tree
 */
struct adopt
{
    struct tctx * from, * to;
    unsigned long calls;
};

static void clr_adopt(void * const e, void * const p)
{
    struct adopt * const a = p;
    struct eb * const b = e;

    CHECK(b->h.in_tree == 1);
    b->h.in_tree = 0;
    a->calls++;
    memset(&b->n, 0xa5, sizeof(b->n));
    do_insert(a->to, b, 0);
}

static void phase_callbacks(void)
{
    struct cstl_rbtree ta, tb, tc, td;
    struct tctx ca, cb, cc, cd;
    struct ea pa; struct eb pb, pd; struct ec pc;
    struct live la = { NULL, 0, 0 }, lb = { NULL, 0, 0 }, lc = { NULL, 0, 0 };
    const long R = 64;
    long k;
    unsigned long i;
    struct adopt ad;

    rng_seed(4242);

    /* the rank tree: key k has rank (k * 37) % R, a permutation */
    memset(&rank_ctx, 0, sizeof(rank_ctx));
    rank_ctx.t = &rank_tree;
    rank_ctx.hdr = hdr_a;
    rank_ctx.probe = &rank_probe_mem;
    for (k = 0; k < R; k++) {
        struct ea * const e = new_elem(&rank_ctx, sizeof(*e), k);
        do_insert(&rank_ctx, e, 1);
        e->h.idx = (size_t)((k * 37) % R);
    }
    /* verify() leaves idx alone */
    verify(&rank_ctx);

    memset(&ca, 0, sizeof(ca));
    ca.t = &ta; ca.hdr = hdr_a; ca.probe = &pa;
    cstl_rbtree_init(&ta, cmp_key, &ca, offsetof(struct ea, n));
    memset(&cb, 0, sizeof(cb));
    cb.t = &tb; cb.hdr = hdr_b; cb.probe = &pb;
    cstl_rbtree_init(&tb, cmp_key, &cb, offsetof(struct eb, n));
    /* tc orders its elements by looking their keys up in rank_tree */
    memset(&cc, 0, sizeof(cc));
    cc.t = &tc; cc.hdr = hdr_c; cc.probe = &pc; cc.rank = &rank_tree;
    cstl_rbtree_init(&tc, cmp_rank, &cc, offsetof(struct ec, n));
    memset(&cd, 0, sizeof(cd));
    cd.t = &td; cd.hdr = hdr_b; cd.probe = &pd;
    cstl_rbtree_init(&td, cmp_key, &cd, offsetof(struct eb, n));

    /* interleave operations on three trees of three element types */
    for (i = 0; i < 6000; i++) {
        const long key = (long)rnd((unsigned long)R);
        const unsigned long which = rnd(3), r = rnd(10);
        struct tctx * const c = which == 0 ? &ca : which == 1 ? &cb : &cc;
        struct live * const l = which == 0 ? &la : which == 1 ? &lb : &lc;
        const size_t esz = which == 0 ? sizeof(struct ea)
            : which == 1 ? sizeof(struct eb) : sizeof(struct ec);

        if (r < 6 && c->n < 200) {
            void * const e = new_elem(c, esz, key);
            do_insert(c, e, 0);
            live_add(l, c->hdr(e), e);
        } else {
            void * const x = do_erase(c, key);
            if (x != NULL) {
                /* ranks are a permutation, so equal rank means equal key */
                CHECK(c->hdr(x)->key == key);
                live_del(l, c->hdr, x);
                free(x);
            }
        }
        if (i % 7 == 0) {
            verify(&ca);
            verify(&cb);
            verify(&cc);
        }
    }
    verify(&ca);
    verify(&cb);
    verify(&cc);

    /* tc's in-order walk is sorted by rank */
    rb_rec(&tc, CSTL_BINTREE_FOREACH_DIR_FWD);
    parse_log(&sh[0]);
    for (i = 1; i < sh[0].nin; i++) {
        CHECK(rank_of(&rank_tree, hdr_c(sh[0].inorder[i - 1])->key)
              <= rank_of(&rank_tree, hdr_c(sh[0].inorder[i])->key));
    }

    /* a visitor on tb that walks ta and searches rank_tree */
    nested_other = ca;
    nested_count = 0;
    CHECK(cstl_rbtree_foreach(&tb, nested_visit, NULL,
                              CSTL_BINTREE_FOREACH_DIR_FWD) == 0);
    CHECK(nested_count == cb.n);

    /* stopping the walk early, at every position, in both directions */
    rb_rec(&tb, CSTL_BINTREE_FOREACH_DIR_FWD);
    parse_log(&sh[0]);
    for (i = 0; i < cb.n; i++) {
        struct stop_at s;
        int res;
        s.seen = 0; s.at = i; s.where = NULL;
        res = cstl_rbtree_foreach(&tb, stop_visit, &s,
                                  CSTL_BINTREE_FOREACH_DIR_FWD);
        CHECK(res == 1000 + (int)i);
        CHECK(s.where == sh[0].inorder[i]);
        s.seen = 0; s.at = i; s.where = NULL;
        res = cstl_rbtree_foreach(&tb, stop_visit, &s,
                                  CSTL_BINTREE_FOREACH_DIR_REV);
        CHECK(res == 1000 + (int)i);
        CHECK(s.where == sh[0].inorder[cb.n - 1 - i]);
    }

    /* swap two trees (same element type), carry on using both */
    for (i = 0; i < 50; i++) {
        struct eb * const e = new_elem(&cd, sizeof(*e), (long)(i % 9));
        do_insert(&cd, e, 0);
    }
    verify(&cd);
    {
        /*
         * the comparator context travels with the tree object; exchange
         * the model bookkeeping to match
         */
        const size_t nb = cb.n, nd = cd.n;
        cstl_rbtree_swap(&tb, &td);
        /* tb now holds td's elements but compares via td's context (cd) */
        cb.n = nd;
        cd.n = nb;
        verify(&cb);
        verify(&cd);
        cstl_rbtree_swap(&tb, &td);
        cb.n = nb;
        cd.n = nd;
        verify(&cb);
        verify(&cd);
    }

    /* clear td into tb: the callback re-uses the node it is handed */
    ad.from = &cd;
    ad.to = &cb;
    ad.calls = 0;
    {
        const size_t nb = cb.n, nd = cd.n;
        cstl_rbtree_clear(&td, clr_adopt, &ad);
        CHECK(ad.calls == nd);
        cd.n = 0;
        CHECK(cb.n == nb + nd);
        verify(&cd);
        verify(&cb);
    }
    /* the cleared tree is as good as new */
    for (i = 0; i < 40; i++) {
        struct eb * const e = new_elem(&cd, sizeof(*e), (long)(40 - i));
        do_insert(&cd, e, (int)(i % 2));
        verify(&cd);
    }
    while (cd.n > 0) {
        void * const x = do_erase(&cd, (long)(40 - (cd.n - 1)));
        CHECK(x != NULL);
        free(x);
        verify(&cd);
    }

    /* clear with a callback that frees */
    cstl_rbtree_clear(&ta, clr_free, &ca);
    ca.n = 0;
    verify(&ca);
    cstl_rbtree_clear(&tb, clr_free, &cb);
    cb.n = 0;
    verify(&cb);
    cstl_rbtree_clear(&tc, clr_free, &cc);
    cc.n = 0;
    verify(&cc);
    cstl_rbtree_clear(&rank_tree, clr_free, &rank_ctx);
    rank_ctx.n = 0;
    verify(&rank_ctx);
    /* clearing an empty tree never calls back */
    cstl_rbtree_clear(&ta, clr_free, NULL);
    free(la.v);
    free(lb.v);
    free(lc.v);
    printf("  callbacks/swap/clear: ok\n");
}

/* ------------------------------------------------------------------ */
/* phase 7: the layers around the red-black tree                        */

static unsigned long bt_cmps;

static int cmp_bt(const void * const a, const void * const b, void * const p)
{
    const long ka = hdr_bt(a)->key, kb = hdr_bt(b)->key;
    (void)p;
    bt_cmps++;
    return (ka > kb) - (ka < kb);
}

static void clr_bt(void * const e, void * const p)
{
    struct ebt * const b = e;
    CHECK(b->h.in_tree == 1);
    b->h.in_tree = 0;
    (*(unsigned long *)p)++;
    memset(&b->bn, 0xa5, sizeof(b->bn));
    free(b);
}

/* the plain binary tree underneath: same erase, walk and height code */
static void phase_bintree(const uint64_t seed)
{
    DECLARE_CSTL_BINTREE(t, struct ebt, bn, cmp_bt, NULL);
    struct walker w;
    struct live l = { NULL, 0, 0 };
    struct ebt probe;
    unsigned long i, cleared = 0;
    size_t n = 0;

    rng_seed(seed);
    w.tree = &t;
    w.rec = bt_rec;
    w.height = bt_height;
    w.size = bt_size;
    w.hdr = hdr_bt;
    w.rb = 0;
    w.rank = NULL;

    verify_walker(&w, 0);
    for (i = 0; i < 30000; i++) {
        const long key = (long)rnd(40);
        if (rnd(100) < 52 && n < 300) {
            struct ebt * const e = malloc(sizeof(*e));
            CHECK(e != NULL);
            memset(e, 0x5a, sizeof(*e));
            e->h.key = key;
            e->h.seen = 0;
            if (rnd(4) == 0) {
                const void * par = NULL;
                probe.h.key = key;
                if (cstl_bintree_find(&t, &probe, &par) == NULL) {
                    cstl_bintree_insert(&t, e, (void *)par);
                } else {
                    cstl_bintree_insert(&t, e, NULL);
                }
            } else {
                cstl_bintree_insert(&t, e, NULL);
            }
            e->h.in_tree = 1;
            live_add(&l, &e->h, e);
            n++;
        } else {
            const void * f;
            struct ebt * x;
            probe.h.key = key;
            f = cstl_bintree_find(&t, &probe, NULL);
            x = cstl_bintree_erase(&t, &probe);
            CHECK(x == f);
            if (x != NULL) {
                CHECK(x->h.key == key && x->h.in_tree == 1);
                x->h.in_tree = 0;
                live_del(&l, hdr_bt, x);
                memset(x, 0xee, sizeof(*x));
                free(x);
                n--;
            }
        }
        if (n < 30 || i % 13 == 0) {
            verify_walker(&w, n);
        }
    }
    verify_walker(&w, n);
    cstl_bintree_clear(&t, clr_bt, &cleared);
    CHECK(cleared == n);
    verify_walker(&w, 0);
    free(l.v);
    printf("  bintree seed=%lu: ok\n", (unsigned long)seed);
}

static int cmp_eh(const void * const a, const void * const b, void * const p)
{
    const long ka = ((const struct eh *)a)->h.key;
    const long kb = ((const struct eh *)b)->h.key;
    (void)p;
    return (ka > kb) - (ka < kb);
}

static unsigned long heap_cleared;

static void clr_eh(void * const e, void * const p)
{
    struct eh * const h = e;
    (void)p;
    CHECK(h->h.in_tree == 1);
    h->h.in_tree = 0;
    heap_cleared++;
    memset(&h->hn, 0xa5, sizeof(h->hn));
    free(h);
}

/* the heap shares the binary tree's walk for clear */
static void phase_heap(void)
{
    DECLARE_CSTL_HEAP(h, struct eh, hn, cmp_eh, NULL);
    unsigned long i, n = 0;
    long last;

    rng_seed(99);
    for (i = 0; i < 5000; i++) {
        if (rnd(3) != 0) {
            struct eh * const e = malloc(sizeof(*e));
            CHECK(e != NULL);
            e->h.key = (long)rnd(50);
            e->h.in_tree = 1;
            cstl_heap_push(&h, e);
            n++;
        } else if (n > 0) {
            struct eh * const e = cstl_heap_pop(&h);
            CHECK(e != NULL && e->h.in_tree == 1);
            free(e);
            n--;
        }
        CHECK(cstl_heap_size(&h) == n);
    }
    /* pop half in order, clear the rest */
    last = LONG_MAX;
    for (i = n / 2; i > 0; i--) {
        struct eh * const e = cstl_heap_pop(&h);
        CHECK(e != NULL && e->h.key <= last);
        last = e->h.key;
        free(e);
        n--;
    }
    heap_cleared = 0;
    cstl_heap_clear(&h, clr_eh);
    CHECK(heap_cleared == n);
    CHECK(cstl_heap_size(&h) == 0 && cstl_heap_get(&h) == NULL);
    printf("  heap: ok\n");
}

static int cmp_long(const void * const a, const void * const b, void * const p)
{
    const long ka = *(const long *)a, kb = *(const long *)b;
    (void)p;
    return (ka > kb) - (ka < kb);
}

static unsigned long map_cleared;

static void clr_map(void * const it, void * const priv)
{
    const cstl_map_iterator_t * const i = it;
    CHECK(i->key != NULL && i->val != NULL);
    (void)priv;
    map_cleared++;
}

/* the map erases through the private by-node entry of the rbtree */
static void phase_map(void)
{
    enum { R = 300 };
    static long keys[R];
    static int vals[R];
    static int held[R];
    cstl_map_t m;
    unsigned long i;
    size_t n = 0;

    rng_seed(31337);
    cstl_map_init(&m, cmp_long, NULL);
    for (i = 0; i < R; i++) {
        keys[i] = (long)i - R / 2;
        held[i] = 0;
    }

    for (i = 0; i < 60000; i++) {
        const unsigned long k = rnd(R);
        const unsigned long r = rnd(10);
        cstl_map_iterator_t it;

        if (r < 5) {
            const int err = cstl_map_insert(&m, &keys[k], &vals[k], &it);
            CHECK(err == (held[k] ? 1 : 0));
            CHECK(it.key == &keys[k] && it.val == &vals[k]);
            if (!held[k]) {
                held[k] = 1;
                n++;
            }
        } else if (r < 8) {
            const long probe = keys[k];
            const int err = cstl_map_erase(&m, &probe, &it);
            CHECK(err == (held[k] ? 0 : -1));
            if (held[k]) {
                CHECK(it.key == &keys[k] && it.val == &vals[k]);
                held[k] = 0;
                n--;
            }
        } else {
            const long probe = keys[k];
            cstl_map_find(&m, &probe, &it);
            if (held[k]) {
                CHECK(!cstl_map_iterator_eq(&it, cstl_map_iterator_end(&m)));
                CHECK(it.key == &keys[k] && it.val == &vals[k]);
                if (r == 9) {
                    cstl_map_erase_iterator(&m, &it);
                    held[k] = 0;
                    n--;
                }
            } else {
                CHECK(cstl_map_iterator_eq(&it, cstl_map_iterator_end(&m)));
            }
        }
        CHECK(cstl_map_size(&m) == n);
    }
    for (i = 0; i < R; i++) {
        cstl_map_iterator_t it;
        const long probe = keys[i];
        cstl_map_find(&m, &probe, &it);
        CHECK(held[i]
              == !cstl_map_iterator_eq(&it, cstl_map_iterator_end(&m)));
    }
    map_cleared = 0;
    cstl_map_clear(&m, clr_map, NULL);
    CHECK(map_cleared == n);
    CHECK(cstl_map_size(&m) == 0);
    printf("  map: ok\n");
}

/* ------------------------------------------------------------------ */

int main(void)
{
    unsigned long s;

    printf("C02 test\n");

    phase_exhaustive();

    rng_seed(7);
    phase_perms(5, 0, 0);
    phase_perms(6, 0, 0);
    phase_perms(6, 1, 12);
    phase_perms(7, 0, 6);
    phase_perms(8, 1, 2);

    phase_single_erase();

    for (s = 1; s <= 3; s++) {
        phase_random(s, 60000, 4, 300, (int)(s % 3));
        phase_random(s + 10, 60000, 9, 1500, (int)((s + 1) % 3));
        phase_random(s + 20, 80000, 64, 4000, (int)((s + 2) % 3));
        phase_random(s + 30, 80000, 5000, 6000, (int)(s % 3));
    }

    phase_large();
    phase_callbacks();

    phase_bintree(1);
    phase_bintree(2);
    phase_heap();
    phase_map();

    printf("C02 test: all ok (%lu full tree verifications, digest %016llx)\n",
           n_verified, (unsigned long long)shape_digest);
    return 0;
}
