/*
 * C16 / c: array allocation under allocation failure.
 *
 * The allocator is wrapped (ld --wrap) so that any chosen subset of the
 * library's allocations fails. A script that allocates, slices, re-allocates,
 * adopts and releases arrays is run for every single failing allocation,
 * every failing suffix and every failing pair (and all triples). After each
 * cstl_array_alloc()/cstl_array_set() the array is either completely usable
 * (every element readable and writable, size as requested) or empty
 * (size 0, data NULL); slices keep the memory they refer to alive and intact;
 * cstl_array_release() hands back only caller-supplied storage; and at the
 * end no block is live. Nothing depends on how many blocks an array is made
 * of or where the elements sit relative to the descriptor.
 */
#include "cstl/memory.h"
#include "cstl/array.h"

#include <stdio.h>
#include <stdlib.h>
#include <string.h>

void * __real_malloc(size_t);
void * __real_realloc(void *, size_t);
void * __real_calloc(size_t, size_t);
void __real_free(void *);

#define MAXALLOC 64
static int armed;
static unsigned long nalloc;
static unsigned char failmask[MAXALLOC];
static int fail_from = -1;
static unsigned long op_failures;
static long live;

static int should_fail(void)
{
    int f = 0;
    if (armed) {
        const unsigned long k = nalloc++;
        if ((k < MAXALLOC && failmask[k])
            || (fail_from >= 0 && k >= (unsigned long)fail_from)) {
            f = 1;
            op_failures++;
        }
    }
    return f;
}

void * __wrap_malloc(size_t n)
{
    void * p;
    if (should_fail()) {
        return NULL;
    }
    p = __real_malloc(n);
    if (p != NULL) {
        live++;
    }
    return p;
}

void * __wrap_calloc(size_t a, size_t b)
{
    void * p;
    if (should_fail()) {
        return NULL;
    }
    p = __real_calloc(a, b);
    if (p != NULL) {
        live++;
    }
    return p;
}

void * __wrap_realloc(void * o, size_t n)
{
    void * p;
    if (should_fail()) {
        return NULL;
    }
    p = __real_realloc(o, n);
    if (p != NULL && o == NULL) {
        live++;
    } else if (p == NULL && o != NULL && n == 0) {
        live--;
    }
    return p;
}

void __wrap_free(void * p)
{
    if (p != NULL) {
        live--;
    }
    __real_free(p);
}

#define CHECK(X) do { if (!(X)) { \
    fprintf(stderr, "FAIL %s:%d: %s\n", __FILE__, __LINE__, #X); \
    exit(1); } } while (0)


static void fill(cstl_array_t * const a, const int base)
{
    size_t i;
    for (i = 0; i < cstl_array_size(a); i++) {
        *(int *)cstl_array_at(a, i) = base + (int)i;
    }
}

static void verify(cstl_array_t * const a, const int base, const size_t n)
{
    size_t i;
    CHECK(cstl_array_size(a) == n);
    for (i = 0; i < n; i++) {
        CHECK(*(const int *)cstl_array_at_const(a, i) == base + (int)i);
    }
}

static int ext[8];

static void array_script(void)
{
    DECLARE_CSTL_ARRAY(a);
    DECLARE_CSTL_ARRAY(s);
    DECLARE_CSTL_ARRAY(e);
    void * buf;
    int have1, have2;
    size_t i;

    /* 1: plain allocation */
    op_failures = 0;
    cstl_array_alloc(&a, 16, sizeof(int));
    have1 = cstl_array_data(&a) != NULL;
    if (!have1) {
        CHECK(op_failures > 0);
        CHECK(cstl_array_size(&a) == 0);
    } else {
        CHECK(cstl_array_size(&a) == 16);
        /* the elements are one contiguous, writable run */
        memset(cstl_array_data(&a), 0xff, 16 * sizeof(int));
        CHECK(cstl_array_at(&a, 5) == (void *)((int *)cstl_array_data(&a) + 5));
        fill(&a, 100);

        cstl_array_slice(&a, 4, 10, &s);
        verify(&s, 104, 6);

        /* allocated storage is never handed out */
        buf = &buf;
        cstl_array_release(&a, &buf);
        CHECK(buf == NULL);
        verify(&a, 100, 16);
    }

    /* 2: allocate over the loaded object; the slice keeps block 1 */
    op_failures = 0;
    cstl_array_alloc(&a, 5, sizeof(int));
    have2 = cstl_array_data(&a) != NULL;
    if (!have2) {
        CHECK(op_failures > 0);
        CHECK(cstl_array_size(&a) == 0);
    } else {
        CHECK(cstl_array_size(&a) == 5);
        fill(&a, 200);
    }
    if (have1) {
        verify(&s, 104, 6);
        cstl_array_unslice(&s, &e);
        verify(&e, 100, 16);
        cstl_array_reset(&e);
        verify(&s, 104, 6);
    }
    if (have2) {
        verify(&a, 200, 5);
        /* sole owner, but not caller-supplied: still not released */
        cstl_array_release(&a, &buf);
        CHECK(buf == NULL);
        verify(&a, 200, 5);
    }
    cstl_array_reset(&s);

    /* 3: an array without elements */
    op_failures = 0;
    cstl_array_alloc(&a, 0, sizeof(int));
    CHECK(cstl_array_size(&a) == 0);
    CHECK(cstl_array_data(&a) != NULL || op_failures > 0);
    cstl_array_release(&a, &buf);
    CHECK(buf == NULL);

    /* 4: caller-supplied storage */
    for (i = 0; i < 8; i++) {
        ext[i] = 300 + (int)i;
    }
    op_failures = 0;
    cstl_array_set(&e, ext, 8, sizeof(int));
    if (cstl_array_data(&e) == NULL) {
        CHECK(op_failures > 0);
        CHECK(cstl_array_size(&e) == 0);
        cstl_array_release(&e, &buf);
        CHECK(buf == NULL);
    } else {
        CHECK(cstl_array_data(&e) == (void *)ext);
        verify(&e, 300, 8);

        cstl_array_slice(&e, 1, 3, &s);
        cstl_array_release(&e, &buf);
        CHECK(buf == NULL);             /* shared: refused */
        cstl_array_reset(&s);

        cstl_array_release(&e, &buf);
        CHECK(buf == (void *)ext);
        CHECK(cstl_array_size(&e) == 0 && cstl_array_data(&e) == NULL);
    }
    for (i = 0; i < 8; i++) {
        CHECK(ext[i] == 300 + (int)i);
    }

    /* 5: unrepresentable sizes are refused without allocating */
    {
        const unsigned long before = nalloc;
        cstl_array_alloc(&e, SIZE_MAX / 2, 4);
        CHECK(cstl_array_data(&e) == NULL && cstl_array_size(&e) == 0);
        CHECK(nalloc == before);
    }

    cstl_array_reset(&e);
    cstl_array_reset(&a);
}

static unsigned long run(void)
{
    nalloc = 0;
    armed = 1;
    array_script();
    armed = 0;
    CHECK(live == 0);
    return nalloc;
}

int main(void)
{
    unsigned long n, i, j, k, runs = 0;

    n = run() + 4;
    CHECK(n > 4 && n < MAXALLOC);

    for (i = 0; i < n; i++) {
        failmask[i] = 1;
        run(); runs++;
        for (j = i + 1; j < n; j++) {
            failmask[j] = 1;
            run(); runs++;
            for (k = j + 1; k < n; k++) {
                failmask[k] = 1;
                run(); runs++;
                failmask[k] = 0;
            }
            failmask[j] = 0;
        }
        failmask[i] = 0;

        fail_from = (int)i;
        run(); runs++;
        fail_from = -1;
    }

    printf("ok: %lu failure plans\n", runs);
    return 0;
}
